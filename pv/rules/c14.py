"""C14 — size limits and read time-outs are enforced exactly.

Decides: the cumulative limit check dominates buffer growth and refuses without touching the buffer; the 413 path; options
reach every worker's transport and handler; the idle scan covers every parser phase and both time-outs and is driven by the
periodic timer.  'Exactly' at limit±1 and wall-clock bounds are value/time-level and are not decided."""
import re
from .. import cfg, lib, facts
from ..facts import AnalysisBroken, strip_tmpl

H = "Pistache::Http::"
TI = H + "TransportImpl::"
EP = H + "Endpoint::"


def run(ck):
    prog = ck.prog
    ck.rule("C14-R1", "B guard dominates sink",
            "ArrayStreamBuf::feed: a bail-out whose condition mentions bytes.size(), len and maxSize dominates every growth of `bytes`; "
            "its refusing arm returns false without touching the buffer", 1)
    ck.rule("C14-R2", "C path facts",
            "Http::Handler::onInput: a refused feed raises HttpError(Request_Entity_Too_Large) and cannot reach onRequest; onRequest is "
            "reached only on the parse() == State::Done edge", 2)
    ck.rule("C14-R3", "D/I option propagation (sibling agreement)",
            "every time-out field of TransportImpl is set by the transport factory of Endpoint::init from the matching Options field and "
            "re-applied in TransportImpl::clone; Handler size limits are set from Options in Endpoint::init and Endpoint::setHandler, "
            "survive the prototype clone, and Handler::onConnection passes maxRequestSize_ to the parser", 7)
    ck.rule("C14-R4", "exhaustiveness over the class hierarchy",
            "TransportImpl::checkIdlePeers compares step()->id() with the Id of every Step subclass installed by the request parser, tests "
            "headerTimeout_ in the head phases and bodyTimeout_ in every phase, measured from ParserImpl<Request>::time_, which is set in "
            "the constructor and in reset()", 4)
    ck.rule("C14-R5", "C must-pass-through",
            "the periodic-timer arm of TransportImpl::onReady calls checkIdlePeers; every idle peer is answered Request_Timeout and then "
            "released through the disconnection path", 2)

    # ---------------- R1 ----------------
    for f in prog.find("Pistache::ArrayStreamBuf::feed", 1):
        grow = [e for e in f.events("call") if (e.get("callee") or "") in ("std::back_inserter", "std::inserter") and strip_tmpl((e["args"][0].get("f") or "")).endswith("ArrayStreamBuf::bytes")]
        grow += [e for e in f.calls(lambda e: lib.is_stl_mutation(e) and strip_tmpl((e.get("recv") or {}).get("f") or "").endswith("ArrayStreamBuf::bytes"))]
        ck.require(grow, "growth of ArrayStreamBuf::bytes not found in feed")
        tests = []
        for b in f.blocks.values():
            t = b.term
            if t and t.get("k") == "if":
                refs = [strip_tmpl(r) for r in lib.term_refs(f, t)]
                # the amount already held may also be kept in a fill counter of the buffer class: a member that feed() advances by exactly
                # `len` (and that the end of the readable area is measured with: C03-R3)
                lenp = f.params[1]["name"]
                counters = {strip_tmpl(a_["lhs"].get("f") or "") for a_ in f.events("assign") if a_.get("op") == "+=" and (a_.get("rhs") or {}).get("v") == lenp
                            and strip_tmpl(a_["lhs"].get("f") or "").startswith("Pistache::ArrayStreamBuf::")}
                if counters and any(r[2:] in counters for r in refs if r.startswith("f:")) and any(r.endswith("ArrayStreamBuf::maxSize") for r in refs) and ("v:" + lenp) in refs \
                        and not any(r.startswith("c:") for r in refs):
                    tests.append(b)
                    continue
                if any(r.endswith("ArrayStreamBuf::bytes") for r in refs) and any(r.endswith("ArrayStreamBuf::maxSize") for r in refs) and ("v:" + f.params[1]["name"]) in refs:
                    # the amount already held is bytes.size() — the number of bytes fed so far — not its capacity or anything else
                    calls = {r[2:] for r in refs if r.startswith("c:")}
                    if calls == {"std::vector::size"}:
                        tests.append(b)
                    else:
                        odd = sorted(calls - {"std::vector::size"})
                        ck.note("feed: candidate limit test `%s` measures the buffer with %s" % (t.get("cond"), odd))
        ok = False
        detail = "no bail-out comparing bytes.size() + len with maxSize (see notes: the limit test must measure the bytes fed so far)"
        for b in tests:
            # which arm refuses?  the one that returns false without growth
            for k in (0, 1):
                arm = cfg.events_from_block(f, b.succs[k], stop=lambda e: e["k"] == "return")
                refuses = any(e["k"] == "return" and e.get("const") is False for e in arm) and not any(any(g is e for g in grow) for e in arm)
                if refuses and all(cfg.edge_dominates(f, b.id, 1 - k, g) for g in grow):
                    ok = True
                    detail = "`%s` dominates the growth; refusing arm returns false with the buffer untouched" % b.term.get("cond")
        ck.ob("C14-R1", "ArrayStreamBuf::feed/limit-check", ok, f.loc, f, detail)

    # ---------------- R2 ----------------
    f = lib.single(prog, H + "Handler::onInput")
    feeds = lib.result_edges(f, H + "Private::ParserBase::feed", False)
    ck.require(feeds, "feed test not found in onInput")
    onreq = [e for e in f.calls(lambda e: (e.get("callee") or "") == H + "Handler::onRequest")]
    ck.require(onreq, "onRequest call not found")
    for bid, k in feeds:
        arm = f.blocks[bid].succs[k]
        evs = cfg.events_from_block(f, arm)
        th = [e for e in evs if e["k"] == "throw" and "HttpError" in (e.get("type") or "") and lib.refs_enumerator(e, H + "Code::Request_Entity_Too_Large")]
        reach = [e for e in evs if any(e is o for o in onreq)]
        exits = cfg.exits_without(f, lambda e: e["k"] == "throw", start_block=arm)
        ck.ob("C14-R2", "onInput/refused-feed->413", bool(th) and not reach and not exits, "%s:%s" % (f.file, f.blocks[bid].term.get("l")), f,
              "throws HttpError(Request_Entity_Too_Large) on every path; onRequest unreachable" if (th and not reach and not exits) else
              "refused feed: throw413=%s reaches-onRequest=%s non-throwing-exit=%s" % (bool(th), bool(reach), bool(exits)))
    # ... and the other way round: "request too large" is said only where the buffer itself has refused the bytes.  A second, computed
    # verdict (announced length against remaining room, say) can disagree with the buffer's -- counting bytes twice -- and refuses
    # requests that fit
    all413 = [e for e in f.events("throw") if "HttpError" in (e.get("type") or "") and lib.refs_enumerator(e, H + "Code::Request_Entity_Too_Large")]
    for lf_ in prog.lambdas_in(f):
        all413 += [e for e in lf_.events("throw") if "HttpError" in (e.get("type") or "") and lib.refs_enumerator(e, H + "Code::Request_Entity_Too_Large")]
    extra413 = [e for e in all413 if e.func.id != f.id or not any(cfg.edge_dominates(f, bid, k, e) for bid, k in feeds)]
    ck.ob("C14-R2", "onInput/413-only-on-a-refused-feed", not extra413, (extra413[0].loc if extra413 else f.loc), f,
          "every Request_Entity_Too_Large is raised on the edge on which feed() returned false" if not extra413 else
          "Request_Entity_Too_Large is also raised at line %s, on a path that does not come from a refused feed(): a second size verdict "
          "next to the buffer's own can refuse a request that is within the limit" % extra413[0].get("l"))
    # onRequest only on an edge that knows parse() returned Done (compared directly or through a local, `==` taken or `!=` not taken)
    done = lib.value_edges(f, H + "Private::ParserBase::parse", "e:" + H + "Private::State::Done", ("==",))
    ok = bool(done) and all(any(cfg.edge_dominates(f, bid, k, e) for bid, k in done) for e in onreq)
    ck.ob("C14-R2", "onInput/onRequest-only-when-Done", ok, onreq[0].loc, f, "onRequest is reached only through `state == State::Done` where state = parser->parse()")

    # ---------------- R3 ----------------
    ti = prog.cls(H + "TransportImpl")
    tfields = [x for x in ti["fields"] if "chrono" in x["type"] or x["name"].lower().endswith("timeout_")]
    if len(tfields) < 2:
        # the other place the time-outs can live: in the Http::Handler, next to the size limits, read by the idle scan through getters.
        # They must then reach the handler on both configuration orders, like the size limits: Endpoint::init (for a handler set
        # before) and Endpoint::setHandler (for one set after) both hand options.<x>Timeout_ to the setter
        cip0 = lib.single(prog, TI + "checkIdlePeers")
        getters = sorted({e.get("callee") for g_ in lib.region(prog, cip0, within=lambda g_: g_.cls == cip0.cls and g_.cls)
                          for e in g_.events("call") if re.match(r"^%sHandler::get\w*Timeout$" % re.escape(H), e.get("callee") or "")})
        ck.require(len(getters) >= 2, "time-out fields of TransportImpl: %d (and checkIdlePeers reads %d time-outs from the handler)" % (len(tfields), len(getters)))
        for gt in getters:
            setter = gt.replace("::get", "::set", 1)
            for fnname in ("init", "setHandler"):
                fn = lib.single(prog, EP + fnname)
                cs = [e for e in fn.calls(lambda e: (e.get("callee") or "") == setter)]
                ok = bool(cs) and all(strip_tmpl((e["args"][0].get("f") or "")).startswith(EP + "Options::") for e in cs)
                ck.ob("C14-R3", "Endpoint::%s/%s" % (fnname, setter.rsplit("::", 1)[1]), ok, cs[0].loc if cs else fn.loc, fn,
                      "%s(options)" % setter.rsplit("::", 1)[1] if ok else
                      "the idle scan reads this time-out from the handler, but Endpoint::%s does not hand the configured value to %s: with this "
                      "order of init() and setHandler() the handler keeps its default and the configured time-out is never enforced"
                      % (fnname, setter.rsplit("::", 1)[1]))
        tfields = []
    setters = {}
    for f2 in prog.funcs.values():
        if f2.cls == H + "TransportImpl" and f2.base.rsplit("::", 1)[1].startswith("set"):
            for a in f2.events("assign"):
                fl = a["lhs"].get("f")
                if fl:
                    setters[fl] = f2
            for a in f2.events("call"):
                if a.get("op") == "=" and (a.get("recv") or {}).get("f"):
                    setters[a["recv"]["f"]] = f2
    init = lib.single(prog, EP + "init")
    def nested(fn_):
        out_ = []
        for l_ in prog.lambdas_in(fn_):
            out_.append(l_)
            out_ += nested(l_)
        return out_
    fac = nested(init)
    ck.require(fac, "transport factory lambda not found in Endpoint::init")
    names_ref, _lr = prog.reference()

    def opt_expand(g_):
        # helpers of endpoint.cc that did not exist when the rules were written (and lambdas) are looked through
        return g_.is_lambda or (g_.file.endswith("/server/endpoint.cc") and names_ref is not None and g_.base not in names_ref)
    clone = lib.single(prog, TI + "clone")
    opt_fields = {x["name"] for x in prog.cls(EP + "Options")["fields"]}
    for fl in tfields:
        q = fl["q"]
        st = setters.get(q)
        if st is None:
            ck.ob("C14-R3", "transport-option:%s" % fl["name"], False, "%s:%s" % (ti["file"], fl["line"]), "", "no setter assigns %s" % q)
            continue
        # factory: setter called with options.<same name>
        fcalls = [(e, a_) for l in fac for e, a_ in lib.flat_calls(prog, l, opt_expand) if (e.get("callee") or "") == st.name]
        calls = [e for e, _a in fcalls]
        okf = bool(fcalls) and all(a_ and (strip_tmpl((a_[0].get("f") or "")) == EP + "Options::" + fl["name"] or
                                          re.match(r"^(?:\w+(?:\.|->))*%s$" % re.escape(fl["name"]), (a_[0].get("t") or "").strip())) for _e, a_ in fcalls)
        ck.ob("C14-R3", "factory-sets:%s" % fl["name"], okf and fl["name"] in opt_fields, calls[0].loc if calls else init.loc, init,
              "%s(options.%s) in the transport factory" % (st.name.rsplit("::", 1)[1], fl["name"]))
        cc = [e for e in clone.calls(lambda e: (e.get("callee") or "") == st.name)]
        okc = bool(cc) and all(strip_tmpl((e["args"][0].get("f") or "")) == q and (e["args"][0].get("b") == "this") for e in cc)
        ck.ob("C14-R3", "clone-reapplies:%s" % fl["name"], okc, cc[0].loc if cc else clone.loc, clone, "clone() passes its own %s to the new transport" % fl["name"])
    # the option is kept in the transport's own unit: a coarser type in Options (or a duration_cast to one in its setter) silently
    # shortens every configured time-out that is not a multiple of the coarser unit
    optc = prog.cls(EP + "Options")
    for fl in tfields:
        of = [x for x in optc["fields"] if x["name"] == fl["name"]]
        if not of:
            continue
        t_opt, t_tr = (of[0].get("ctype") or of[0]["type"]), (fl.get("ctype") or fl["type"])
        ck.ob("C14-R3", "option-unit:%s" % fl["name"], t_opt == t_tr, "%s:%s" % (optc["file"], of[0].get("line", optc["line"])), "",
              "Options::%s and TransportImpl::%s are both %s" % (fl["name"], fl["name"], t_tr) if t_opt == t_tr else
              "Options::%s is %s but the transport measures in %s: a configured value is truncated on the way" % (fl["name"], t_opt, t_tr))
    # handler limits
    for fnname in ("init", "setHandler"):
        fn = lib.single(prog, EP + fnname)
        src = "options" if fnname == "init" else "this->options_"
        for limit, setter in (("maxRequestSize_", "setMaxRequestSize"), ("maxResponseSize_", "setMaxResponseSize")):
            cs = [e for e in fn.calls(lambda e: (e.get("callee") or "") == H + "Handler::" + setter)]
            ok = bool(cs) and all(strip_tmpl((e["args"][0].get("f") or "")) == EP + "Options::" + limit for e in cs)
            ck.ob("C14-R3", "Endpoint::%s/%s" % (fnname, setter), ok, cs[0].loc if cs else fn.loc, fn, "%s(%s.%s)" % (setter, src, limit))
    hc = prog.cls(H + "Handler")
    usercopy = [m for m in hc["methods"] if m.get("copyctor") and not m.get("defaulted") and not m.get("deleted")]
    ck.ob("C14-R3", "Handler/copy-keeps-limits", not usercopy, "%s:%s" % (hc["file"], hc["line"]), "", "no user-written copy constructor: the prototype clone copies maxRequestSize_/maxResponseSize_", nontrivial=False)
    oc = lib.single(prog, H + "Handler::onConnection")
    mk = [e for e in oc.events("call") if "make_shared" in (e.get("callee") or "")]
    ok = bool(mk) and any(strip_tmpl((a.get("f") or "")) == H + "Handler::maxRequestSize_" for e in mk for a in e.get("args", []))
    ck.ob("C14-R3", "Handler::onConnection/parser-limit", ok, oc.loc, oc, "make_shared<RequestParser>(maxRequestSize_)")

    # ---------------- R8: the clock of a connection starts with the connection ----------------
    ck.rule("C14-R8", "C must-pass-through",
            "the read time-outs of a connection are measured from its parser's reference instant, which only the parser's constructor and "
            "reset() set: on every path of Http::Handler::onConnection the parser that is attached to the new peer has just been "
            "constructed or reset -- a parser kept from an earlier connection carries that connection's instant and the new one is "
            "answered 408 before its own time-out has run (or long after)", 1)
    puts = [e for e in oc.events("call") if (e.get("callee") or "") == "Pistache::Tcp::Peer::putData"]
    ck.require(puts, "Handler::onConnection does not attach a parser (Peer::putData)")
    fresh8 = lambda e: e["k"] == "call" and (("make_shared" in (e.get("callee") or "") and "Parser" in (e.get("t") or "") + (e.get("callee") or "")) or
                                              strip_tmpl(e.get("callee") or "") in (H + "Private::ParserBase::reset", H + "Private::ParserImpl::reset"))
    stale8 = []

    def step8(st, e):
        if fresh8(e):
            return "fresh"
        if e in puts:
            if st != "fresh":
                stale8.append(e)
            return None
        return st
    cfg.run_automaton(oc, "none", step8)
    ck.ob("C14-R8", "Handler::onConnection/parser-clock-starts-here", not stale8, (stale8[0].loc if stale8 else puts[0].loc), oc,
          "the attached parser is constructed or reset on every path" if not stale8 else
          "a path reaches putData at line %s with a parser that was neither constructed nor reset for this connection: its time-outs run from an "
          "instant that belongs to an earlier connection" % stale8[0].get("l"))

    # ---------------- R4 ----------------
    ctor = [f2 for f2 in prog.funcs.values() if f2.cls == H + "Private::ParserImpl<Pistache::Http::Request>" and f2.d.get("ctor")]
    ck.require(ctor, "ParserImpl<Request> constructor not found")
    installed = set()
    creg0 = lib.region(prog, ctor[0], within=lambda g_: g_.cls and (g_.cls == ctor[0].cls or g_.cls == H + "Private::ParserBase"))
    for e in [x for g_ in creg0 for x in g_.events("call")]:
        c = e.get("callee") or ""
        t = e.get("t") or ""
        if c == "std::make_unique" and t.startswith("std::make_unique<") and "Step" in t:
            installed.add(t[len("std::make_unique<"):].split(">")[0].split(",")[0].strip())
    ck.require(len(installed) >= 3, "steps installed by the request parser: %s" % installed)
    cip = lib.single(prog, TI + "checkIdlePeers")
    # the scan and the private helpers of the transport it was split into (e.g. a per-peer predicate)
    creg = lib.region(prog, cip, within=lambda g_: g_.cls == cip.cls and g_.cls)
    cmp_ids = set()
    for g_ in creg:
        for e in g_.events(("cmp",)):
            for side in ("lhs", "rhs"):
                gq = (e.get(side) or {}).get("g") or ""
                if gq.endswith("::Id"):
                    cmp_ids.add(gq.rsplit("::", 1)[0])
        for b in g_.blocks.values():
            t = b.term or {}
            for side in ("lhs", "rhs"):
                gq = (t.get(side) or {}).get("g") or ""
                if gq.endswith("::Id"):
                    cmp_ids.add(gq.rsplit("::", 1)[0])
        # `switch (step()->id()) { case X::Id: ... }`: the case labels are the comparisons
        for b in g_.blocks.values():
            lab = b.label or {}
            lt = re.sub(r"\s+", "", lab.get("t") or "")
            if lab.get("k") == "case" and lt.endswith("::Id"):
                sid_ = lt[:-4]
                cmp_ids.add(sid_ if sid_.startswith("Pistache") else H + "Private::" + sid_.split("::")[-1])
    # table-driven scan: a local table whose rows are {<Step>::Id, <local predicate>}; the ids count as compared against, and each
    # row's predicate is a decision of its own
    table_rows = []
    for d_ in cip.events("decl"):
        it = (d_.get("init") or {}).get("t") or ""
        rows = re.findall(r"\{\s*((?:\w+::)*\w+)::Id\s*,\s*(\w+)\s*\}", it)
        if len(rows) >= 2:
            lamvars = {x["var"]: x for x in cip.events("decl") if x.get("var") and "(lambda at " in (x.get("type") or "")}
            for sid, pv_ in rows:
                cmp_ids.add(sid if sid.startswith("Pistache") else H + "Private::" + sid.split("::")[-1])
                if pv_ in lamvars:
                    lid = re.search(r"lambda at ([^)]+)\)", lamvars[pv_]["type"])
                    lfs = [lf for lf in prog.lambdas_in(cip) if lid and lf.id.split("#in:")[0] == "lambda@" + lid.group(1)]
                    if lfs:
                        table_rows.append((sid, lfs[0]))
    for stp in sorted(installed):
        full = stp if stp.startswith("Pistache") else H + "Private::" + stp.split("::")[-1]
        ck.ob("C14-R4", "phase-covered:%s" % full.rsplit("::", 1)[1], full in cmp_ids, cip.loc, cip, "checkIdlePeers compares step()->id() with %s::Id" % full.rsplit("::", 1)[1])
    # both time-outs consulted: every place that declares a peer idle -- a push into the local list of idle peers, or a non-false
    # return of the bool predicate that guards it -- is decided by a condition that mentions bodyTimeout_
    class _Refs(object):
        """the member, or a local of the scan initialised from the handler's getter of the same time-out"""
        def __init__(self, member, getter):
            self.names = {"f:" + TI + member}
            for g_ in creg:
                for d_ in g_.events("decl"):
                    if d_.get("var") and (d_.get("icall") or "").endswith("Handler::" + getter):
                        self.names.add("v:" + d_["var"])

        def __eq__(self, other):
            return other in self.names

        def __hash__(self):
            return 0
    BT, HT = _Refs("bodyTimeout_", "getBodyTimeout"), _Refs("headerTimeout_", "getHeaderTimeout")
    refs_all = set()
    for g_ in creg:
        for b in g_.blocks.values():
            refs_all |= set((b.term or {}).get("refs") or [])
        for e in g_.events("return"):
            refs_all |= set(e.get("refs") or [])
    idle_push = [e for e in cip.calls(lambda e: e.base_callee() == "std::vector::push_back" and (e.get("recv") or {}).get("v") in {x["var"] for x in cip.events("decl") if "vector" in (x.get("type") or "") and "Peer" in (x.get("type") or "")})]
    ck.require(len(idle_push) >= 1, "idlePeers.push_back sites: %d" % len(idle_push))

    def guarded_by_body_timeout(fn_, e):
        guards = [b for b in fn_.blocks.values() if b.term and any(BT == r_ for r_ in (b.term.get("refs") or [])) and any(cfg.edge_dominates(fn_, b.id, k_, e) for k_ in (0, 1) if len(b.succs) > k_ and b.succs[k_] is not None)]
        lor_guards = [b for b in fn_.blocks.values() if b.term and any(BT == r_ for r_ in (b.term.get("refs") or [])) and b.succs and b.succs[0] == e.block]
        return bool(guards or lor_guards)
    body_ok = True
    ndec = 0
    for sid, lf in table_rows:
        for r_ in lf.events("return"):
            ndec += 1
            refs_all |= set(r_.get("refs") or [])
            if not any(BT == x_ for x_ in (r_.get("refs") or [])):
                body_ok = False
    for e in idle_push:
        if guarded_by_body_timeout(cip, e):
            ndec += 1
            continue
        # guarded by a bool local that collects the verdict (`bool idle = false; switch (...) { case ..: idle = elapsed > ..; }`): every
        # assignment of a non-constant value to it is a decision
        accs = set()
        for b in cip.blocks.values():
            t_ = b.term or {}
            v_ = (t_.get("core") or {}).get("v")
            if v_ and not t_.get("cmp") and len(b.succs) == 2 and cfg.edge_dominates(cip, b.id, 1 if t_.get("neg") else 0, e):
                d_ = [x for x in cip.events("decl") if x.get("var") == v_ and (x.get("type") or "").replace("const ", "") == "bool"]
                if d_:
                    accs.add(v_)
        if accs:
            for a_ in [x for x in cip.events(("assign", "decl")) if ((x.get("lhs") or {}).get("v") in accs or (x["k"] == "decl" and x.get("var") in accs)) and not isinstance(x.get("const"), bool)]:
                ndec += 1
                if not (any(BT == x_ for x_ in (a_.get("refs") or [])) or guarded_by_body_timeout(cip, a_)):
                    body_ok = False
                refs_all |= set(a_.get("refs") or [])
            continue
        if table_rows:
            continue
        # guarded by a predicate helper: its non-false returns are the decisions
        preds = [g_ for g_ in creg if g_.id != cip.id and not g_.is_lambda and any(cfg.edge_dominates(cip, bid, k_, e) for bid, k_ in lib.result_edges(cip, g_.base, True))]
        if not preds:
            ndec += 1
            body_ok = False
            continue
        for g_ in preds:
            for r_ in g_.events("return"):
                if r_.get("const") is False:
                    continue
                ndec += 1
                if not (any(BT == x_ for x_ in (r_.get("refs") or [])) or guarded_by_body_timeout(g_, r_)):
                    body_ok = False
    if ndec < 2:
        # the verdict is computed by a predicate that is handed the two time-outs as arguments (a free function or a template): look at
        # the function as written -- the push is guarded by the predicate's true result, and every non-false return of the predicate
        # mentions the parameter that is bound to bodyTimeout_ at the call
        raw = [g_ for g_ in prog.by_base.get(TI + "checkIdlePeers", []) if g_.blocks]
        for cr in raw[:1]:
            pushes_ = [e for e in cr.calls(lambda e: e.base_callee() == "std::vector::push_back" and "Peer" in ((e.get("recv") or {}).get("ty") or (e.get("recv") or {}).get("rootT") or ""))]
            for e in pushes_:
                for c_ in cr.events("call"):
                    for g_ in prog.resolve_call(c_):
                        if not g_.blocks or g_.id == cr.id or not any(cfg.edge_dominates(cr, bid, k_, e) for bid, k_ in lib.result_edges(cr, g_.base, True)):
                            continue
                        bound = {}
                        for i_, a_ in enumerate(c_.get("args") or []):
                            if i_ < len(g_.params):
                                bound["v:" + g_.params[i_]["name"]] = a_
                        bt_params = {pn for pn, a_ in bound.items() if strip_tmpl(a_.get("f") or "") == TI + "bodyTimeout_"}
                        ht_params = {pn for pn, a_ in bound.items() if strip_tmpl(a_.get("f") or "") == TI + "headerTimeout_"}
                        for r_ in g_.events("return"):
                            if r_.get("const") is False:
                                continue
                            ndec += 1
                            rr = set(r_.get("refs") or [])
                            if not (rr & bt_params):
                                body_ok = False
                            if rr & ht_params:
                                refs_all.add("f:" + TI + "headerTimeout_")
    ck.require(ndec >= 2, "idle decisions found: %d" % ndec)
    head_ok = any(HT == x_ for x_ in refs_all)
    ck.ob("C14-R4", "both-timeouts-tested", body_ok and head_ok, cip.loc, cip, "every phase tests bodyTimeout_ (%s); head phases test headerTimeout_ (%s)" % (body_ok, head_ok))
    tdecl = [d for g_ in creg for d in g_.events("decl") if strip_tmpl(d.get("icall") or "").endswith("ParserImpl::time")]
    tset = [(f2, a) for f2 in prog.funcs.values() if f2.cls == H + "Private::ParserImpl<Pistache::Http::Request>" for a in list(f2.events("assign")) + list(f2.events("init")) + [c for c in f2.events("call") if c.get("op") == "="]
            if ((a.get("lhs") or {}).get("f") or a.get("f") or (a.get("recv") or {}).get("f") or "").endswith("::time_")]
    where = {("ctor" if f2.d.get("ctor") else f2.base.rsplit("::", 1)[1]) for f2, _ in tset}
    extra_w = sorted(where - {"ctor", "reset"})
    ck.ob("C14-R4", "reference-instant", bool(tdecl) and {"ctor", "reset"} <= where and not extra_w, cip.loc, cip,
          "elapsed is measured from parser->time(); time_ is set in %s" % sorted(where) if not extra_w else
          "the instant the time-outs are counted from is also moved by %s: both are counted from the start of the request (set when the "
          "parser is created and when it is reset for the next request), so a request that keeps the connection busy would never time out" % extra_w)

    # ---------------- R5 ----------------
    orf = lib.single(prog, TI + "onReady")
    # the scan runs on the edge of a test that is about the periodic timer: its condition mentions timerFd, or a local computed from it
    tf_seeds = {d_["var"] for d_ in orf.events("decl") if d_.get("var") and ("f:" + TI + "timerFd") in (d_.get("refs") or [])}
    tf_vars = lib.derived_vars(orf, tf_seeds, prog) if tf_seeds else set()
    tt = [b for b in orf.blocks.values() if b.term and b.term.get("k") == "if" and
          (("f:" + TI + "timerFd") in (b.term.get("refs") or []) or any(("v:" + v_) in (b.term.get("refs") or []) for v_ in tf_vars))]
    cic = [e for e in orf.calls(lambda e: (e.get("callee") or "") == TI + "checkIdlePeers")]
    ok = bool(tt) and bool(cic) and any(cfg.edge_dominates(orf, b.id, 1 if b.term.get("neg") else 0, cic[0]) for b in tt)
    base = [e for e in orf.calls(lambda e: (e.get("callee") or "") == "Pistache::Tcp::Transport::onReady" and e.get("qualified"))]
    bad = [x for x in cfg.exits_without(orf, lambda e: any(e is b for b in base)) if x.kind != "throw"]
    ck.ob("C14-R5", "onReady/periodic-scan", ok and bool(base) and not bad, orf.loc, orf, "timer tag => checkIdlePeers(); Base::onReady(fds) on every path")
    # ... on *every* path of that arm: a tick that is not followed by the scan (skipped because several periods had gone by, say) postpones
    # every 408 by as long as the condition lasts -- under load, for ever
    skipped = []
    heads5 = {x.id for x in orf.blocks.values() if x.term and x.term.get("k") == "rangefor"} | {h for h, _b in cfg.natural_loops(orf)}
    for b in tt:
        wk = 1 if b.term.get("neg") else 0
        if b.succs[wk] is None or not any(cfg.edge_dominates(orf, b.id, wk, c_) for c_ in cic):
            continue

        def st5(st, ev):
            if any(ev is c_ for c_ in cic):
                return None
            if any(ev is x_ for x_ in base):
                skipped.append(ev)
                return None
            return st

        def ed5(st, blk, k, succ):
            if succ in heads5:
                skipped.append(blk)
                return None
            return st
        ex5, _ = cfg.run_automaton(orf, 0, st5, edge=ed5, start=b.succs[wk])
        skipped += [x for x in ex5 if x.kind != "throw"]
    ck.ob("C14-R5", "onReady/every-tick-scans", not skipped, cic[0].loc if cic else orf.loc, orf,
          "checkIdlePeers() on every path of the periodic-timer arm" if not skipped else
          "the periodic-timer arm can be left without calling checkIdlePeers(): a tick that does not scan delays every pending 408")
    sends = [e for e in cip.calls(lambda e: (e.get("callee") or "") == H + "ResponseWriter::send" and lib.refs_enumerator(e, H + "Code::Request_Timeout"))]
    thens = [e for e in cip.calls(lambda e: e.base_callee() == "Pistache::Async::Promise::then")]
    rel_ok = False
    for t in thens:
        lams = [a.get("lam") for a in t.get("args", []) if a.get("lam")]
        bodies = [lf for l in lams for lf in prog.lambda_by_id(l, cip)]
        def releases(lf, depth=3):
            """the continuation releases the peer: itself, or through a closure / private helper it calls"""
            for c in lf.events("call"):
                if (c.get("callee") or "") == "Pistache::Tcp::Transport::handlePeerDisconnection":
                    return True
                if depth > 0:
                    for g_ in (prog.by_name.get(c.get("callee") or "") or []):
                        if (g_.is_lambda or g_.cls == cip.cls) and releases(g_, depth - 1):
                            return True
            return False
        if len(bodies) >= 2 and all(releases(lf) for lf in bodies):
            rel_ok = True
    ck.ob("C14-R5", "checkIdlePeers/408-then-release", bool(sends) and rel_ok, sends[0].loc if sends else cip.loc, cip,
          "send(Request_Timeout).then(release, release) for every idle peer")

    fill_counters = set()
    ntb = 0
    for f0 in prog.find("Pistache::ArrayStreamBuf::feed", 1):
        fill_counters |= {strip_tmpl(a_["lhs"].get("f") or "") for a_ in f0.events("assign") if a_.get("op") == "+=" and (a_.get("rhs") or {}).get("v") == f0.params[1]["name"]
                          and strip_tmpl(a_["lhs"].get("f") or "").startswith("Pistache::ArrayStreamBuf::")}
    for fc_ in sorted(fill_counters):
        for fn_ in prog.funcs.values():
            if not fn_.cls or strip_tmpl(fn_.cls) != "Pistache::ArrayStreamBuf" or fn_.d.get("ctor"):
                continue
            for a_ in fn_.events("assign"):
                if strip_tmpl(a_["lhs"].get("f") or "") == fc_ and a_.get("op") != "+=":
                    ntb += 1
                    ok_ = fn_.base.rsplit("::", 1)[1] == "reset"
                    ck.ob("C14-R1", "ArrayStreamBuf::%s/fill-counter-taken-back-only-in-reset" % fn_.base.rsplit("::", 1)[1], ok_, a_.loc, fn_,
                          "the fill counter is set back in reset() only" if ok_ else
                          "%s sets the fill counter %s back between two feeds of the same message: the size limit no longer measures the request" % (fn_.name, fc_.rsplit("::", 1)[1]))
    # ---------------- R1 (the measured buffer only shrinks when the message is over) ----------------
    # the limit test in feed() measures bytes.size(): that is the size of the request so far only if nothing but reset() (and the
    # constructors) ever removes bytes from the buffer
    nsh = 0
    for fn_ in prog.funcs.values():
        if not fn_.cls or strip_tmpl(fn_.cls) != "Pistache::ArrayStreamBuf" or fn_.d.get("ctor"):
            continue
        for fld_, how, ev in lib.direct_writes(fn_):
            if not strip_tmpl(fld_).endswith("ArrayStreamBuf::bytes"):
                continue
            grows = how in ("call:back_inserter", "call:inserter", "call:push_back", "call:insert", "call:emplace_back", "call:append", "call:reserve")
            if grows:
                continue
            # where the limit is measured with a fill counter, the storage may be resized freely: it is the counter that must only be
            # taken back in reset() (next clause)
            if fill_counters and how == "call:resize":
                continue
            nsh += 1
            ok_ = fn_.base.rsplit("::", 1)[1] == "reset" or lib.only_reached_from(prog, fn_, {fn_.base.rsplit("::", 1)[0] + "::reset", fn_.base.rsplit("::", 1)[0] + "::ArrayStreamBuf"})
            ck.ob("C14-R1", "ArrayStreamBuf::%s/%s-on-the-measured-buffer" % (fn_.base.rsplit("::", 1)[1], how.replace("call:", "")), ok_, ev.loc, fn_,
                  "the buffer is emptied by reset() only" if ok_ else
                  "%s removes bytes from the buffer between two feeds of the same message: the size limit, measured on bytes.size(), then "
                  "counts per read instead of per request" % fn_.base.rsplit("::", 1)[1])
    ck.require(nsh + ntb >= 1, "no shrinking write to ArrayStreamBuf::bytes found (reset() vanished?)")

    # ---------------- R6: what was received is parsed before more is read ----------------
    ck.rule("C14-R6", "C path automaton",
            "in Transport::handleIncoming what a recv() / SSL_read() delivered is handed to the handler (onInput) before the next read is "
            "issued: the receive buffer has a fixed size (Const::MaxBuffer) and is reused for every read, so bytes that are only "
            "accumulated fill it up, the next read is asked for zero bytes and its zero result is taken for the end of the connection -- a "
            "request larger than one buffer would be dropped without 200 or 413", 1)
    hi = lib.single(prog, "Pistache::Tcp::Transport::handleIncoming")
    summ6 = lib.Summaries(prog)
    is_read = lambda e: e["k"] == "call" and (e.get("callee") or "") in ("recv", "SSL_read", "read", "recvfrom", "recvmsg")
    hands_on = summ6.lift_must(lambda e: e["k"] == "call" and (e.get("callee") or "") == "Pistache::Tcp::Handler::onInput", "handler-onInput")
    reads = [e for e in hi.events("call") if is_read(e)]
    ck.require(reads, "no read call found in Transport::handleIncoming")
    again = []

    def st6(st, ev):
        if hands_on(ev):
            return None
        if is_read(ev):
            again.append(ev)
            return None
        return st
    for r_ in reads:
        cfg.run_automaton(hi, 0, st6, start=r_.block, start_idx=r_.idx + 1)
    ck.ob("C14-R6", "handleIncoming/parsed-before-next-read", not again, (again[0].loc if again else reads[0].loc), hi,
          "every way from one read to the next passes handler_->onInput" if not again else
          "the read at line %s can be reached again without the bytes of the previous one having been handed to onInput" % again[0].get("l"))

    # ---------------- R7: time-outs are measured on a monotonic clock ----------------
    ck.rule("C14-R7", "type-level (canonical types of the time stamps and of the clock calls)",
            "the start of a request (ParserImpl<Request>::time_) and the instant it is compared with in checkIdlePeers are time points of "
            "std::chrono::steady_clock, obtained from steady_clock::now(): on a clock that can be set (system_clock) a step forward times "
            "out a request that was completed in time and a step backward keeps a stalled connection for ever", 3)
    npts = 0
    for c in prog.class_list:
        if strip_tmpl(c["name"]) != "Pistache::Http::Private::ParserImpl" or c.get("dependent") or "Request" not in c["name"]:
            continue
        for fl in c["fields"]:
            ct = fl.get("ctype") or fl["type"]
            if "time_point" in ct:
                npts += 1
                ck.ob("C14-R7", "type:%s" % fl["q"].replace("Pistache::Http::", ""), "steady_clock" in ct, "%s:%s" % (c.get("file"), fl.get("line")), "",
                      "a steady_clock time point" if "steady_clock" in ct else "declared %s: not a monotonic clock" % ct[:100], nontrivial=False)
    ck.require(npts >= 1, "ParserImpl<Request> has no time-point member")
    cip = lib.single(prog, "Pistache::Http::TransportImpl::checkIdlePeers")
    clock_users = [cip] + [f_ for f_ in prog.funcs.values() if (f_.cls or "").startswith("Pistache::Http::Private::ParserImpl<") and "Request" in (f_.cls or "")]
    nnow = 0
    for f_ in clock_users:
        for e in f_.calls(lambda e: re.match(r"^std::chrono::\w+::now$", strip_tmpl(e.get("callee") or ""))):
            nnow += 1
            mono = strip_tmpl(e["callee"]) == "std::chrono::steady_clock::now"
            ck.ob("C14-R7", "now@%s" % f_.base.replace("Pistache::Http::", ""), mono, e.loc, f_,
                  "steady_clock::now()" if mono else "%s(): the time-out arithmetic follows every adjustment of that clock" % strip_tmpl(e["callee"]))
    ck.require(nnow >= 2, "clock reads found in checkIdlePeers / the request parser: %d" % nnow)

    # ---------------- facts shared with C08 ----------------
    ck.borrow("C08", ["C08-R11"], "C14-R9",
              "the idle scan looks at every connection: nothing that is filed under a connection's descriptor number (a 'time-out already "
              "answered' mark, say) survives the connection -- the kernel hands the number to the next client at once, and a mark left "
              "behind would make the scan skip it, so that it is never answered 408 and never closed", min_instances=2)

