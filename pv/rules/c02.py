"""C02 — what one side serialises the other side parses back unchanged.

Partial claim: decides the *agreement of the two sides' token tables, separators and framing headers* — necessary conditions of
the round trip that are visible in the code of the serialisers and of the shared parser.  Equality of whole messages over the
value space of the builder/writer API is value-level and is not decided."""
from .. import cfg, lib, facts, tables
from ..facts import AnalysisBroken, strip_tmpl

H = "Pistache::Http::"
CL = H + "Experimental::(anonymous namespace)::"
SV = H + "(anonymous namespace)::"


def stream_sequence(f, prog=None, depth=0):
    """(kind, payload) for the stream insertions of a writer in evaluation order: ('lit', text) | ('crlf',) | ('write-header',) | ('expr', text).
    With prog: calls of helpers / lambdas written in the same file are expanded in place (a writer split into `writeHeaderLine` etc.),
    and a local `const char*` that is inserted contributes the string constants it is assigned in the function."""
    seq = []
    strvals = {}
    for d in f.events("decl"):
        k = d.get("const")
        if d.get("var") and isinstance(k, str) and k.startswith("s:"):
            strvals.setdefault(d["var"], []).append(k[2:])
    for a in f.events("assign"):
        k = a.get("const")
        v = (a.get("lhs") or {}).get("v")
        if v and isinstance(k, str) and k.startswith("s:"):
            strvals.setdefault(v, []).append(k[2:])
    # a std::string / std::string_view local that is given string literals (`separator = "; "`: a class-type assignment)
    import re as _re2
    for c_ in f.events("call"):
        v = (c_.get("recv") or {}).get("v")
        if c_.get("op") == "=" and v and c_.get("args"):
            m_ = _re2.match(r'^"((?:[^"\\]|\\.)*)"$', (c_["args"][-1].get("t") or "").strip())
            if m_:
                strvals.setdefault(v, []).append(m_.group(1).replace("\\r", "\r").replace("\\n", "\n"))
    for d in f.events("decl"):
        m_ = _re2.match(r'^"((?:[^"\\]|\\.)*)"$', ((d.get("init") or {}).get("t") or "").strip())
        if d.get("var") and m_ and d["var"] not in strvals:
            strvals.setdefault(d["var"], []).append(m_.group(1))
    # clang numbers CFG blocks from the exit upwards: descending block id, then position in the block, is source order
    for e in sorted(f.events("call"), key=lambda x: (-x.block, x.idx)):
        c = e.get("callee") or ""
        if e.get("op") == "<<":
            for a in e.get("args", [])[-1:]:
                k = a.get("const")
                t = a.get("t") or ""
                if isinstance(k, str) and k.startswith("s:"):
                    seq.append(("lit", k[2:]))
                elif isinstance(k, str) and k.startswith("c:"):
                    seq.append(("lit", chr(int(k[2:]))))
                elif t.endswith("crlf"):
                    seq.append(("crlf",))
                elif a.get("v") in strvals:
                    for sv in strvals[a["v"]]:
                        seq.append(("lit", sv))
                else:
                    seq.append(("expr", t))
        elif c.endswith("::write") and (c.startswith(H + "Header::") or c == H + "Cookie::write"):
            seq.append(("write-header",))
        elif prog is not None and depth < 3:
            subs = []
            if c in ("std::for_each",) or c.startswith("lambda@"):
                lams = [a_.get("lam") for a_ in e.get("args", []) if a_.get("lam")]
                subs = [lf for l_ in lams for lf in prog.lambda_by_id(l_.split("#in:")[0], f)] if lams else [g for g in prog.resolve_call(e) if g.blocks]
            else:
                subs = [g for g in prog.resolve_call(e) if g.blocks and g.file == f.file and not g.cls]
            for g in subs[:1]:
                seq += stream_sequence(g, prog, depth + 1)
    return seq


def run(ck):
    prog = ck.prog
    ck.rule("C02-R1", "H writer/reader table agreement",
            "every method token the client writes (methodString) is mapped back to the same Method by the server's httpMethods table; "
            "every version token a serialiser writes (versionString, the client's literal) is accepted by the request/response line parser", 3)
    ck.rule("C02-R2", "C shape agreement of the status line",
            "the server writes the status as the decimal integer value of Code and the client reads it with a base-10 conversion and casts "
            "it back to Code", 2)
    ck.rule("C02-R3", "separator agreement",
            "every header writer (server writeHeaders/writeHeader, client writeHeaders/writeHeader) emits name, ': ', value, CRLF in that "
            "order, which is what HeadersStep splits on (':' then optional spaces, value up to CRLF); the client joins request cookies with "
            "'; ' and name=value, which is what CookieJar::addFromRaw splits on; the server writes one 'Set-Cookie: ' line per cookie, "
            "which the response parser hands to Cookie::fromRaw", 7)
    ck.rule("C02-R4", "type-level agreement of the framing headers",
            "both serialisers announce the body with Header::ContentLength / Header::TransferEncoding(Chunked) and the shared BodyStep "
            "selects its framing by looking up those same header types; chunk sizes are written with std::hex and read with base 16", 4)

    # ---------------- R1 ----------------
    w = tables.switch_map(lib.single(prog, H + "methodString"))
    tbl = [v for v in prog.vars if v["name"].endswith("::httpMethods")]
    ck.require(tbl and len(w) >= 8, "methodString / httpMethods not found")
    import re
    r = dict(re.findall(r'\{\s*"([^"]+)"\s*,\s*([\w:]+)\s*\}', tbl[0].get("init") or ""))
    probs = []
    for en, lit in w.items():
        if lit not in r:
            probs.append("client writes %r for %s but the server's table has no such method" % (lit, en.rsplit("::", 1)[1]))
        elif r[lit].rsplit("::", 1)[-1] != en.rsplit("::", 1)[-1]:
            probs.append("%r is written for %s but parsed as %s" % (lit, en.rsplit("::", 1)[1], r[lit]))
    ck.ob("C02-R1", "table:Method", not probs, "%s:%s" % (tbl[0]["file"], tbl[0]["line"]), "", "; ".join(probs[:3]) or "%d method tokens agree" % len(w))
    vw = tables.switch_map(lib.single(prog, H + "versionString"))
    rq = lib.single(prog, H + "Private::RequestLineStep::apply")
    rq_pairs = {lit: en for lit, en in tables.chain_pairs(rq)}
    rq_lits = tables.compared_literals(rq)
    rq_enums = {x.rsplit("::", 1)[-1] for x in tables.assigned_enums(rq, "version_")}
    # the version may be worked out by a helper that returns it (`std::optional<Version> parseVersion(text)`; `version_ = *v`): where
    # version_ is assigned something that is not an enumerator, the enumerators the step's helpers return count as stored, and the
    # literals they compare against as compared (presence level, like every shape that is not an if-chain in the step itself)
    if any((e_["lhs"].get("f") or "").endswith("version_") and not [r_ for r_ in (e_.get("refs") or []) if r_.startswith("e:")] for e_ in rq.events("assign")) or \
            any(e_.get("op") == "=" and ((e_.get("recv") or {}).get("f") or "").endswith("version_") for e_ in rq.events("call")):
        helpers_ = [g_ for c_ in rq.events("call") for g_ in prog.resolve_call(c_) if g_.blocks and not g_.cls and g_.file == rq.file]
        for g_ in helpers_:
            for r_ in list(g_.events("return")) + list(g_.events("construct")):
                for x_ in (r_.get("refs") or []):
                    if x_.startswith("e:") and "Version::" in x_:
                        rq_enums.add(x_.rsplit("::", 1)[-1])
        for e_ in rq.events(("iret",)):
            for x_ in (e_.get("refs") or []):
                if x_.startswith("e:") and "Version::" in x_:
                    rq_enums.add(x_.rsplit("::", 1)[-1])
    # (a reader that walks a namespace-scope table of {"literal", Enum} rows: the rows are the pairs)
    for lit_, en_ in tables.referenced_tables(prog, rq, prog.lambdas_in(rq)).items():
        if "Version::" in en_:
            rq_pairs.setdefault(lit_, en_)
            rq_lits = set(rq_lits) | {lit_}
    rs = lib.single(prog, H + "Private::ResponseLineStep::apply")
    rs_lits = tables.compared_literals(rs)
    probs = []
    for en, lit in vw.items():
        short = en.rsplit("::", 1)[-1]
        if lit in rq_pairs:
            # the reader is an if-chain `compare(literal) -> version_ = X`: the pairing itself is checked
            if rq_pairs[lit].rsplit("::", 1)[-1] != short:
                probs.append("version %r is written for %s but the request-line parser stores %s for it" % (lit, short, rq_pairs[lit].rsplit("::", 1)[-1]))
        else:
            # other shapes (flags, ?:): the literal must be compared against and the enumerator must be stored somewhere in the step
            if lit not in rq_lits:
                probs.append("version %r (%s) is not compared against by the request-line parser" % (lit, short))
            if short not in rq_enums:
                probs.append("the request-line parser never stores Version::%s" % short)
        if lit not in rs_lits:
            probs.append("version %r is not accepted by the response-line parser" % lit)
    ck.ob("C02-R1", "table:Version", not probs and len(vw) >= 2, rq.loc, rq, "; ".join(probs[:3]) or "versions %s accepted by both line parsers%s" % (
        sorted(vw.values()), "" if all(l in rq_pairs for l in vw.values()) else " (reader is not an if-chain: literal/enumerator presence checked, pairing not)"))
    wr = lib.single(prog, CL + "writeRequest")
    lits = [p_[1] for p_ in stream_sequence(wr, prog) if p_[0] == "lit"]
    vlit = [l.strip() for l in lits if "HTTP/" in l]
    ck.ob("C02-R1", "client-request-line-version", bool(vlit) and all(v in rq_lits for v in vlit), wr.loc, wr, "client writes %s" % vlit)

    # ---------------- R2 ----------------
    ws = lib.single(prog, SV + "writeStatusLine")
    casts = [e for e in ws.events("cast") if (e.get("to") or "") == "int" and "code" in ((e.get("sub") or {}).get("t") or "")]
    ck.ob("C02-R2", "server-writes-decimal-code", bool(casts), ws.loc, ws, "os << static_cast<int>(code)")
    # the reader delimits the code with match_until(' '): the writer puts a space behind it on every path, reason phrase or not
    # (the insertion whose right operand is the cast -- in a chain `os << a << int(code) << ' ' << ...` every outer << contains its text)
    code_ins = [e for e in ws.events("call") if e.get("op") == "<<" and any(c_.block == e.block and c_.idx < e.idx and (c_.get("t") or "") in ((e.get("args") or [{}])[-1].get("t") or "") for c_ in casts)]
    is_space = lambda e: e["k"] == "call" and e.get("op") == "<<" and any(a_.get("const") in ("c:32", "s: ") or (isinstance(a_.get("const"), str) and a_["const"].startswith("s: ")) for a_ in e.get("args", [])[-1:])
    delim = lib.single(prog, H + "Private::ResponseLineStep::apply")
    needs_space = any(a_.get("const") == "c:32" for e in delim.calls(lambda e: (e.get("callee") or "") == "Pistache::match_until") for a_ in e.get("args", [])[:1])
    if code_ins and needs_space:
        bad = [x for x in cfg.exits_without(ws, is_space, start_block=code_ins[-1].block, start_idx=code_ins[-1].idx + 1) if x.kind != "throw" and not (x.event is not None and x.event.get("const") is False)]
        ck.ob("C02-R2", "server-writes-space-after-code", not bad, code_ins[-1].loc, ws,
              "a space follows the status code on every path" if not bad else
              "the status code can be followed directly by CRLF (no space): the client's parser scans for the space and runs into the next line")

    conv = [e for e in rs.calls(lambda e: (e.get("callee") or "") in ("strtol", "std::strtol"))]
    cast_back = [e for e in rs.events("cast") if (e.get("to") or "").endswith("Code")]
    ok = bool(conv) and conv[0]["args"][2].get("const") == 10 and bool(cast_back)
    ck.ob("C02-R2", "client-reads-decimal-code", ok, rs.loc, rs, "strtol(..., 10) then static_cast<Http::Code>")

    # ---------------- R3 ----------------
    def header_line_ok(f):
        seq = stream_sequence(f, prog)
        # find ': ' literal followed by the value (write-header) followed by crlf
        for i, p_ in enumerate(seq):
            if p_ == ("lit", ": "):
                rest = seq[i + 1:]
                if rest and rest[0][0] in ("write-header",) and ("crlf",) in rest[1:3]:
                    return True, seq
        return False, seq
    writers = [(SV + "writeHeaders", "server writeHeaders"), (CL + "writeHeaders", "client writeHeaders")]
    for name, label in writers:
        f = lib.single(prog, name)
        ok, seq = header_line_ok(f)
        ck.ob("C02-R3", "header-line:%s" % label, ok, f.loc, f, "name, ': ', value, CRLF" if ok else "sequence %s" % seq[:8])
    for base, label in ((H + "writeHeader", "server writeHeader<H>"), (CL + "writeHeader", "client writeHeader<H>")):
        fs = prog.by_base.get(base, [])
        ck.require(fs, "no instantiation of %s" % base)
        for f in fs:
            ok, seq = header_line_ok(f)
            ck.ob("C02-R3", "header-line:%s" % label, ok, f.loc, f, "H::Name, ': ', value, CRLF" if ok else "sequence %s" % seq[:8])
    hs = lib.single(prog, H + "Private::HeadersStep::apply")
    # the splitter compares the byte under the cursor with ':' (scan while different) and with ' ' (skip while equal); the comparisons may
    # sit in loop conditions of the step itself or in predicates / helpers it was split into
    def cur_cmps(fn_):
        out = []
        for g in lib.region(prog, fn_, within=lambda g: g.file == fn_.file and g.base.startswith(H + "Private::")):
            for bl in g.blocks.values():
                t = bl.term
                if t and t.get("cmp") in ("==", "!=") and isinstance(t.get("rconst"), str) and "c:Pistache::StreamCursor::current" in (t.get("leafrefs") or t.get("refs") or []):
                    out.append((t["cmp"], t["rconst"]))
            for e in g.events("cmp"):
                if e.get("op") in ("==", "!=") and isinstance(e.get("rconst"), str) and (e.get("lhs") or {}).get("t", "").endswith(".current()"):
                    out.append((e["op"], e["rconst"]))
        return out
    cc = cur_cmps(hs)
    colon = [x for x in cc if x[1] == "c:58"]
    spaces = [x for x in cc if x[1] == "c:32"]
    ck.ob("C02-R3", "reader:HeadersStep-splits-on-colon-space", bool(colon) and bool(spaces), hs.loc, hs, "name up to ':', spaces skipped, value up to CRLF")
    # the parser keeps the first occurrence of a header name: the headers the client generates itself (Host, User-Agent,
    # Content-Length) are written after the caller's own collection, so that a header the caller set is the one that arrives
    flat_wr = lib.flat_calls(prog, wr, lambda g_: False)
    pos_user = [i for i, (e, _a) in enumerate(flat_wr) if (e.get("callee") or "") == CL + "writeHeaders"]
    pos_gen = [(i, e) for i, (e, _a) in enumerate(flat_wr) if strip_tmpl(e.get("callee") or "") == CL + "writeHeader"]
    if pos_user and pos_gen:
        early = [e for i, e in pos_gen if i < pos_user[0]]
        ck.ob("C02-R3", "client-generated-headers-after-user-headers", not early, (early[0].loc if early else wr.loc), wr,
              "user headers first, generated ones behind them" if not early else
              "the generated header written at line %s precedes the caller's headers: the server keeps the first occurrence, so a header of "
              "that name set through the request builder never arrives" % early[0].get("l"))
    wc = lib.single(prog, CL + "writeCookies")
    seq = [p_[1] for p_ in stream_sequence(wc, prog) if p_[0] == "lit"]
    afr = lib.single(prog, H + "CookieJar::addFromRaw")
    # the splitter and the file-local helpers it was divided into
    areg = lib.region(prog, afr, within=lambda g_: g_.file == afr.file and not g_.cls)
    seps = {a.get("const") for g_ in areg for e in g_.calls(lambda e: (e.get("callee") or "") == "Pistache::match_until") for a in e.get("args", [])[:1]}
    skip = any((e.get("callee") or "") == "Pistache::skip_whitespaces" for g_ in areg for e in g_.events("call"))
    ok = "Cookie: " in seq and "; " in seq and "=" in seq and "c:61" in seps and "c:59" in seps and skip
    ck.ob("C02-R3", "request-cookies:join-vs-split", ok, wc.loc, wc, "client joins with %s; server splits on %s and skips blanks=%s" % (sorted(set(seq)), sorted(x for x in seps if x), skip))
    sc = lib.single(prog, SV + "writeCookies")
    seq = [p_[1] for p_ in stream_sequence(sc, prog) if p_[0] == "lit"]
    hsreg = lib.region(prog, hs, within=lambda g_: g_.cls == hs.cls and g_.cls)
    rd = any((e.get("callee") or "") == H + "Cookie::fromRaw" for g_ in hsreg for e in g_.events("call")) and \
        any(a.get("const") == "s:set-cookie" or "set-cookie" in (a.get("t") or "") for g_ in hsreg
            for e in g_.calls(lambda e: (e.get("callee") or "") == H + "Header::LowercaseEqualStatic") for a in e.get("args", []))
    ck.ob("C02-R3", "response-cookies:Set-Cookie-line-vs-fromRaw", "Set-Cookie: " in seq and rd, sc.loc, sc, "one 'Set-Cookie: ' line per cookie; parser hands 'set-cookie' values to Cookie::fromRaw")

    # ---------------- R4 ----------------
    bs = lib.single(prog, H + "Private::BodyStep::apply")
    gets = " ".join(e.get("t") or "" for e in bs.events("call") if "tryGet" in (e.get("callee") or ""))
    ok = "ContentLength" in gets and "TransferEncoding" in gets
    ck.ob("C02-R4", "reader:BodyStep-framing-headers", ok, bs.loc, bs, "tryGet<Header::ContentLength>, tryGet<Header::TransferEncoding>")
    pow_ = lib.single(prog, H + "ResponseWriter::putOnWire")
    ok = any(strip_tmpl(e.get("callee") or "") == H + "writeHeader" and "ContentLength" in (e.get("t") or "") for e in pow_.events("call"))
    ck.ob("C02-R4", "writer:putOnWire-ContentLength", ok, pow_.loc, pow_, "writeHeader<Header::ContentLength>")
    ok = any(strip_tmpl(e.get("callee") or "").endswith("::writeHeader") and "ContentLength" in (e.get("t") or "") for e in wr.events("call"))
    ck.ob("C02-R4", "writer:client-ContentLength", ok, wr.loc, wr, "writeHeader<Http::Header::ContentLength>")
    cp = lib.single(prog, H + "Private::BodyStep::Chunk::parse")
    rd16 = [e for g in lib.region(prog, cp, within=lambda g: g.cls and g.cls == cp.cls)
            for e in g.calls(lambda e: (e.get("callee") or "") in ("strtol", "std::strtol", "strtoul", "std::strtoul", "strtoll", "std::strtoll", "strtoull", "std::strtoull"))
            if len(e.get("args", [])) > 2 and e["args"][2].get("const") == 16]
    wrt = lib.single(prog, H + "ResponseStream::write")
    # std::hex inserted by ResponseStream::write itself or by the private helper of the stream it frames chunks with
    hexw = any(any((a.get("t") or "").endswith("std::hex") or (a.get("t") or "") == "std::hex" for a in args)
               for _e, args in lib.flat_calls(prog, wrt, lambda g_: g_.is_lambda or g_.cls == H + "ResponseStream"))
    ck.ob("C02-R4", "chunk-size:hex-vs-base16", bool(rd16) and hexw, cp.loc, cp, "written with std::hex, read with strtol(..., 16)")

    # ---------------- facts shared with C01 ----------------
    ck.borrow("C01", ["C01-R3"], "C02-R5",
              "a Content-Length or chunked body that reaches the receiving parser in several reads is completed: the progress counter of the "
              "body routine advances by what was appended before the routine asks for more, and is cleared only when the body is done -- "
              "otherwise a message longer than one read never round-trips", min_instances=5)

    # ---------------- facts shared with C04 ----------------
    # both ends keep one parser per connection: the second message of a keep-alive connection arrives unchanged only if nothing the
    # parser learned from the first one is left in it
    ck.borrow("C04", ["C04-R2"], "C02-R7",
              "a message that follows another one on the same connection is parsed from a clean parser: every field the parser, its steps "
              "and its message write while receiving is re-initialised by reset() (a framing decision, a counter or a header left over "
              "from the previous message makes the next one arrive with a different body or not at all)", min_instances=12)

    # ---------------- facts shared with C03 ----------------
    ck.borrow("C03", ["C03-R6"], "C02-R8",
              "a streamed response reaches the client chunk by chunk only if the reader accepts the size lines the writer emits: the parsed "
              "chunk size is stored exactly when the conversion consumed hex digits and the value is not negative",
              key_pred=lambda k: k.startswith("Chunk::parse/size-"), min_instances=2)

    ck.borrow("C01", ["C01-R2"], "C02-R9",
              "TCP may deliver a request line or a header block in two segments; the step is then rolled back and parsed again, so what it "
              "stores into the message (query parameters, headers, cookies) is an assignment or a keep-first insert, never an append: a "
              "value that is joined onto an earlier one arrives doubled", min_instances=6)

    # ---------------- facts shared with C05 ----------------
    # a response written through a stream object that is moved (into a lambda, a smart pointer, another variable) must still arrive whole
    ck.borrow("C05", ["C05-R4"], "C02-R6",
              "what a response writer or response stream has buffered survives growing and moving the buffer: offsets are measured from the "
              "start of the storage, never from pbase(), and a moved-to buffer continues at the source's write position",
              key_pred=lambda k: k.startswith("DynamicStreamBuf/"), min_instances=3)
