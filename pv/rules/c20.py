"""C20 — Base64 and Basic credentials round-trip.

Claimed *partially*.  Decided (all from the shape of the code, nothing is executed):
  R1  the two alphabets, read as tables of intervals from the if-chains of Base64Encoder::EncodeByte and Base64Decoder::DecodeCharacter
      (interval abstract interpretation of the two loop-free functions), are the RFC 4648 table and its inverse; the padding character is
      '=' and is not a sextet for the decoder; the "is a sextet" threshold separates the decoder's sextet results from its failure value;
  R2  bit provenance of every store in Encode() and Decode(): each bit of each sextet / octet written comes from exactly the input bit
      RFC 4648 prescribes (a dataflow over the expression trees with the domain {0, 1, input bit (i, b), unknown}), in the full-group
      loop and in both tail cases; each group position is written exactly once; the strides are 3 and 4;
  R3  the size table of the last group (r left-over sextets give floor(6r/8) octets);
  R4  Basic credentials: the scheme prefix and the user/password delimiter are the same tokens in setBasicUserPassword,
      hasMethod<Basic>, getBasicUser and getBasicPassword; the getters split at the *first* delimiter and the setter refuses a user that
      contains it; the password starts exactly one delimiter after the user.
Not decided: the length arithmetic (CalculateEncodedSize, the loop bounds), i.e. that the loops visit every group, and rejection of every
invalid text -- value-level."""
import os
import re
from .. import cfg, lib
from ..facts import AnalysisBroken, strip_tmpl

A = "Pistache::Http::Header::Authorization::"

# RFC 4648 table 1 as intervals: (first value, last value, offset value -> character)
RFC = [(0, 25, 65), (26, 51, 71), (52, 61, -4), (62, 62, 43 - 62), (63, 63, 47 - 63)]
PAD = 61


# ---------------------------------------------------------------- interval interpretation of a loop-free if-chain

def piecewise(ck, f, lo0, hi0):
    prog = ck.prog
    """Arms [(lo, hi, 'aff'|'const', k)] of a loop-free function of one integer parameter: every path is followed with the interval of
    the parameter's value; a branch that is not a comparison of the parameter (or an alias of it) with a constant is not modelled."""
    params = [p.get("name") for p in f.params]
    alias = {}      # local -> offset to the parameter
    arms = []
    if cfg.natural_loops(f):
        raise AnalysisBroken("%s has a loop: the interval table is read from loop-free code" % f.name)

    def var_of(side_ref, aff):
        if aff and "v" in aff:
            return aff["v"], aff.get("k", 0)
        if side_ref and side_ref.get("v"):
            return side_ref["v"], 0
        return None, 0

    def walk(bid, lo, hi, al, depth):
        if depth > 200:
            raise AnalysisBroken("%s: path too long" % f.name)
        b = f.blocks[bid]
        al = dict(al)
        for e in b.elems:
            if e["k"] == "decl" and e.get("aff") and "v" in e["aff"]:
                v, k = e["aff"]["v"], e["aff"].get("k", 0)
                if v in params:
                    al[e["var"]] = k
                elif v in al:
                    al[e["var"]] = al[v] + k
            if e["k"] == "return":
                a = e.get("aff")
                if a is None and isinstance(e.get("const"), str) and e["const"].startswith("c:"):
                    a = {"k": int(e["const"][2:])}
                if a is None and isinstance(e.get("const"), int):
                    a = {"k": e["const"]}
                if a is None:
                    def resolve(it, al=al):
                        # index `x + c` with x the parameter or an alias of it
                        if it is None:
                            return None
                        if "c" in it:
                            return None
                        if it.get("op") == "cast":
                            return resolve(it["a"][0])
                        if "v" in it:
                            return 0 if it["v"] in params else al.get(it["v"])
                        if it.get("op") in ("+", "-") and len(it.get("a", [])) == 2 and "c" in it["a"][1]:
                            b_ = resolve(it["a"][0])
                            return None if b_ is None else b_ + (it["a"][1]["c"] if it["op"] == "+" else -it["a"][1]["c"])
                        return None
                    ta = table_arms(prog, e, lo, hi, resolve)
                    if ta is not None:
                        for (x, y, d_) in ta:
                            arms.append((x, y, "aff", d_, e))
                        return
                    raise AnalysisBroken("%s:%s returns an expression that is neither `x + c`, a constant nor a character table indexed by x: %s" % (f.file, e.get("l"), e.get("t")))
                if "v" in a:
                    if a["v"] in params:
                        off = a.get("k", 0)
                    elif a["v"] in al:
                        off = al[a["v"]] + a.get("k", 0)
                    else:
                        raise AnalysisBroken("%s:%s returns a value not derived from the parameter" % (f.file, e.get("l")))
                    arms.append((lo, hi, "aff", off, e))
                else:
                    arms.append((lo, hi, "const", a["k"], e))
                return
        t = b.term
        succs = [s for s in b.succs]
        if not t or len(succs) < 2:
            for s in succs:
                if s is not None and s != f.exit:
                    walk(s, lo, hi, al, depth + 1)
            return
        if t.get("k") == "switch":
            raise AnalysisBroken("%s: switch on the value is not modelled by the interval reader" % f.name)
        # the comparison that decides this block: the last cmp event of the block
        c = None
        for e in b.elems:
            if e["k"] == "cmp":
                c = e
        if c is None or not t.get("cmp"):
            raise AnalysisBroken("%s:%s branches on something that is not a comparison with a constant: %s" % (f.file, t.get("l"), t.get("cond")))
        op = c["op"]
        lv, lk = var_of(c.get("lhs"), c.get("laff"))
        rv, rk = var_of(c.get("rhs"), c.get("raff"))
        li, ri = c.get("lival"), c.get("rival")

        def base(v, k):
            if v in params:
                return k
            if v in al:
                return al[v] + k
            return None
        if lv is not None and ri is not None and base(lv, lk) is not None:
            off, const = base(lv, lk), ri               # x + off OP const
        elif rv is not None and li is not None and base(rv, rk) is not None:
            off, const = base(rv, rk), li               # const OP x + off   ->  x + off OP' const
            op = {"<": ">", "<=": ">=", ">": "<", ">=": "<=", "==": "==", "!=": "!="}[op]
        else:
            raise AnalysisBroken("%s:%s compares something other than the parameter with a constant: %s" % (f.file, c.get("l"), c.get("t")))
        cval = const - off                               # x OP cval
        neg = bool(t.get("neg"))
        if op == "<":
            tr, fa = (lo, min(hi, cval - 1)), (max(lo, cval), hi)
        elif op == "<=":
            tr, fa = (lo, min(hi, cval)), (max(lo, cval + 1), hi)
        elif op == ">":
            tr, fa = (max(lo, cval + 1), hi), (lo, min(hi, cval))
        elif op == ">=":
            tr, fa = (max(lo, cval), hi), (lo, min(hi, cval - 1))
        elif op == "==":
            tr = (max(lo, cval), min(hi, cval))
            fa = None
        elif op == "!=":
            tr = None
            fa = (max(lo, cval), min(hi, cval))
        else:
            raise AnalysisBroken("%s: operator %s" % (f.name, op))
        if neg:
            tr, fa = fa, tr
        # `x == c` false / `x != c` true: the interval minus a point -- split in two
        outs = []
        for k_, iv in ((0, tr), (1, fa)):
            if succs[k_] is None:
                continue
            if iv is None:
                pieces = [(lo, min(hi, cval - 1)), (max(lo, cval + 1), hi)]
            else:
                pieces = [iv]
            for (l_, h_) in pieces:
                if l_ <= h_:
                    outs.append((succs[k_], l_, h_))
        for s, l_, h_ in outs:
            walk(s, l_, h_, al, depth + 1)

    walk(f.entry, lo0, hi0, alias, 0)
    arms.sort(key=lambda a: (a[0], a[1]))
    return arms


def image(arms, lo, hi):
    """Pieces of the table restricted to [lo, hi]."""
    out = []
    for (l_, h_, kind, k, e) in arms:
        a, b = max(l_, lo), min(h_, hi)
        if a <= b:
            out.append((a, b, kind, k, e))
    return out


# ---------------------------------------------------------------- bit provenance over expression trees

W = 64
Z, ONE, UNK = ("0",), ("1",), ("?",)


def _const_bits(c):
    c &= (1 << W) - 1
    return [ONE if (c >> i) & 1 else Z for i in range(W)]


def _cut(bits, w):
    return bits[:w] + [Z] * (W - w)


class Env(object):
    """Bindings of names to expression trees: parameters of an expanded helper (by name), single-assignment locals of a function (by
    name and declaration position), and the enclosing function's bindings for a lambda."""

    def __init__(self, byname=None, bydecl=None, parent=None):
        self.byname = byname or {}
        self.bydecl = bydecl or {}
        self.parent = parent

    def lookup(self, node):
        v, vd = node.get("v"), node.get("vd")
        if v in self.byname:
            return self.byname[v]
        if (v, vd) in self.bydecl:
            return self.bydecl[(v, vd)]
        if self.parent is not None:
            return self.parent.lookup(node)
        return None


def func_env(f, parent=None):
    """single-assignment integral / reference locals of f with the tree they are initialised from"""
    written = set()
    for e in f.events(("assign", "incdec")):
        l = e.get("lhs") or {}
        if l.get("v"):
            written.add((l["v"], l.get("vd")))
            written.add((l["v"], None))
        lx = e.get("lxt") or {}
        if lx.get("v"):
            written.add((lx["v"], lx.get("vd")))
    env = Env(parent=parent)
    for d in f.events("decl"):
        if d.get("xt") is not None and d.get("var") and (d["var"], d.get("vd")) not in written:
            env.bydecl[(d["var"], d.get("vd"))] = (d["xt"], env)
    return env


class BitEval(object):
    def __init__(self, prog, sextet_fn=None, depth=12):
        self.prog = prog
        self.sextet_fn = sextet_fn
        self.depth = depth
        self.unmodelled = []

    # ---- index arithmetic: (symbolic variable or None, constant)
    def idx(self, t, env, d=0):
        if t is None or d > self.depth:
            return None
        if "c" in t:
            return (None, t["c"])
        if "v" in t:
            b = env.lookup(t)
            if b is not None:
                return self.idx(b[0], b[1], d + 1)
            return (t["v"], 0)
        if t.get("op") == "cast":
            return self.idx(t["a"][0], env, d + 1)
        if t.get("op") in ("+", "-") and len(t.get("a", [])) == 2:
            l, r = self.idx(t["a"][0], env, d + 1), self.idx(t["a"][1], env, d + 1)
            if l and r:
                if t["op"] == "+" and (l[0] is None or r[0] is None):
                    return (l[0] or r[0], l[1] + r[1])
                if t["op"] == "-" and r[0] is None:
                    return (l[0], l[1] - r[1])
        if t.get("op") == "*" and len(t.get("a", [])) == 2:
            l, r = self.idx(t["a"][0], env, d + 1), self.idx(t["a"][1], env, d + 1)
            if l and r and l[0] is None and r[0] is None:
                return (None, l[1] * r[1])
        return None

    def field_of(self, t, env, d=0):
        while t is not None and d <= self.depth:
            if "f" in t:
                return strip_tmpl(t["f"])
            if t.get("op") == "cast":
                t = t["a"][0]
            elif "v" in t:
                b = env.lookup(t)
                if b is None:
                    # a container that is a parameter or a local of the function itself
                    return "var:" + t["v"]
                t, env = b
            else:
                return None
            d += 1
        return None

    def elem(self, t, env):
        """(field, index variable, constant offset) of an element access, looked at through reference and value aliases"""
        d = 0
        while t is not None and d <= self.depth:
            if t.get("op") == "elem":
                f = self.field_of(t.get("base"), env)
                ik = self.idx(t.get("i"), env)
                if f is None or ik is None:
                    return None
                return (f, ik[0], ik[1])
            if t.get("op") == "cast" and len(t.get("a", [])) == 1:
                t = t["a"][0]
            elif "v" in t:
                b = env.lookup(t)
                if b is None:
                    return None
                t, env = b
            else:
                return None
            d += 1
        return None

    def callee(self, fn):
        fs = self.prog.by_name.get(fn) or self.prog.by_base.get(strip_tmpl(fn)) or []
        ids = {f.id for f in fs}
        if len(ids) != 1:
            return None
        return fs[0]

    @staticmethod
    def fit(bits, w, sgn):
        """the value as an object of an integer type of width w: the low w bits, the rest filled by sign or zero extension"""
        w = min(int(w), W)
        if w >= W:
            return bits[:W]
        top = bits[w - 1] if sgn else Z
        return bits[:w] + [top] * (W - w)

    def typed(self, bits, t):
        if t.get("w") is not None:
            return self.fit(bits, t["w"], bool(t.get("sgn")))
        return bits

    def bits(self, t, env, d=0):
        """64 bits, LSB first, of an integer expression tree.  A bit is 0, 1, an input bit ('I', buffer, offset, bit), a sextet bit
        ('S', buffer, offset, bit), a combination ('or'|'and', frozenset of such bits), or unknown."""
        if t is None or d > 40:
            return [UNK] * W
        if "c" in t:
            return _const_bits(t["c"])
        if "v" in t:
            b = env.lookup(t)
            if b is None:
                return [UNK] * W
            return self.typed(self.bits(b[0], b[1], d + 1), t)
        op = t.get("op")
        if op == "elem":
            k = self.elem(t, env)
            if k is None:
                return [UNK] * W
            w = int(t.get("w") or 8)
            return self.fit([("I", k[0], k[2], b) for b in range(w)] + [Z] * (W - w), w, bool(t.get("sgn")))
        if op == "cast":
            return self.fit(self.bits(t["a"][0], env, d + 1), int(t.get("w") or W), bool(t.get("sgn")))
        if op == "call":
            fn = t.get("fn") or ""
            args = t.get("a", [])
            if self.sextet_fn and strip_tmpl(fn) == self.sextet_fn and len(args) == 1:
                k = self.elem(args[0], env)
                if k is not None:
                    return [("S", k[0], k[2], b) for b in range(6)] + [Z] * (W - 6)
                return [UNK] * W
            g = self.callee(fn)
            if g is not None:
                rets = [e for e in g.events("return")]
                pn = [p.get("name") for p in g.params]
                if g.is_lambda and len(args) == len(pn) + 1:
                    args = args[1:]
                if len(rets) == 1 and rets[0].get("xt") is not None and len(args) == len(pn):
                    parent = None
                    if g.is_lambda and g.parent:
                        pfs = [x for x in self.prog.funcs.values() if x.id == g.parent]
                        if pfs:
                            parent = func_env(pfs[0])
                    genv = func_env(g, parent=parent)
                    for n_, a_ in zip(pn, args):
                        genv.byname[n_] = (a_, env)
                    return self.typed(self.bits(rets[0]["xt"], genv, d + 1), t)
            self.unmodelled.append("call of %s" % fn)
            return [UNK] * W
        if op in ("<<", ">>") and len(t.get("a", [])) == 2:
            n = self.idx(t["a"][1], env)
            if n is None or n[0] is not None or not (0 <= n[1] < W):
                return [UNK] * W
            n = n[1]
            x = self.bits(t["a"][0], env, d + 1)
            # (the operand carries its own extension: a negative signed value has copies of its sign bit up to bit 63, so shifting the
            # 64-bit vector right is the arithmetic shift for signed and the logical shift for unsigned operands)
            r = ([Z] * n + x[:W - n]) if op == "<<" else (x[n:] + [x[W - 1]] * n)
            return self.typed(r, t)
        if op in ("&", "|") and len(t.get("a", [])) == 2:
            x, y = self.bits(t["a"][0], env, d + 1), self.bits(t["a"][1], env, d + 1)
            r = []
            for a, b in zip(x, y):
                if op == "&":
                    v = Z if (a == Z or b == Z) else b if a == ONE else a if b == ONE else a if a == b else None
                else:
                    v = ONE if (a == ONE or b == ONE) else b if a == Z else a if b == Z else a if a == b else None
                if v is None:
                    if a == UNK or b == UNK:
                        v = UNK
                    else:
                        # two different input bits combined: a value that depends on both
                        kind = "and" if op == "&" else "or"
                        parts = set()
                        for z in (a, b):
                            if z[0] == kind:
                                parts |= z[1]
                            else:
                                parts.add(z)
                        v = (kind, frozenset(parts))
                r.append(v)
            return self.typed(r, t)
        self.unmodelled.append("operator %s" % op)
        return [UNK] * W


def control_region(f, dom, loops, bid):
    """'loop' for a block of a natural loop; otherwise (branching block, edge) of the nearest dominating branch one of whose edges leads
    only to this block's side; 'top' when there is none."""
    for h, body in loops:
        if bid in body:
            return "loop"
    cands = [d for d in dom.get(bid, ()) if d != bid and len([s for s in f.blocks[d].succs if s is not None]) >= 2]
    cands.sort(key=lambda d: -len(dom.get(d, ())))
    for d in cands:
        for k, s in enumerate(f.blocks[d].succs):
            if s is not None and (s == bid or s in dom.get(bid, ())):
                # the edge must be the only way into s (otherwise s is a join point)
                if len(f.blocks[s].preds) == 1:
                    return (d, k)
    return "top"


def stores(f, ev, env, field_suffix):
    """[(region, offset, event)] for every store into an element of the member whose name ends with field_suffix"""
    dom = cfg.dominators(f)
    loops = cfg.natural_loops(f)
    out = []
    for e in f.events("assign"):
        if e.get("op") != "=":
            continue
        k = ev.elem(e.get("lxt"), env)
        if k is None or not k[0].endswith(field_suffix):
            continue
        out.append((control_region(f, dom, loops, e.block), k[2], e))
    return out


def strides(f):
    s = {}
    loops = cfg.natural_loops(f)
    inloop = set()
    for h, body in loops:
        inloop |= body
    for e in f.events("assign"):
        if e.get("op") == "+=" and isinstance(e.get("const"), int) and (e.get("lhs") or {}).get("v") and e.block in inloop:
            s[e["lhs"]["v"]] = e["const"]
    return s


def table_arms(prog, e, lo, hi, resolve):
    """arms of `return Table[x + c]` for a namespace-scope character table initialised from string literals"""
    t = e.get("xt")
    while t is not None and t.get("op") == "cast":
        t = t["a"][0]
    if not t or t.get("op") != "elem" or "v" not in (t.get("base") or {}):
        return None
    name = t["base"]["v"]
    off = resolve(t.get("i"))
    if off is None:
        return None
    cands = [v for v in prog.vars if (v.get("name") == name or (v.get("name") or "").endswith("::" + name)) and v.get("file") == e.get("fl")]
    if len(cands) != 1:
        return None
    lits = re.findall(r'"((?:[^"\\]|\\.)*)"', cands[0].get("init") or "")
    if not lits:
        return None
    text = "".join(lits)
    if "\\" in text:
        return None
    arms = []
    run = None
    for x in range(lo, hi + 1):
        i = x + off
        if not (0 <= i < len(text)):
            return None
        d = ord(text[i]) - x
        if run and run[2] == d and run[1] == x - 1:
            run[1] = x
        else:
            if run:
                arms.append(tuple(run))
            run = [x, x, d]
    if run:
        arms.append(tuple(run))
    return arms


# ---------------------------------------------------------------- the rules



def _structural_rules(ck):
    """rules that need none of the bit-level machinery: decided first, so that a violation here is reported even when a later rule cannot
    model a rewritten coder"""
    prog = ck.prog

    # ---- R6: nothing decoded earlier is served for a later value
    lib.cache_coherence_rule(ck, "C20-R6", "Pistache::Http::Header::Authorization",
                             "the credential accessors of the Authorization header decode the value the header holds now")

    # ---- R9: the credential accessors' scans make progress (shared with C03-R8; no such scan on today's tree)
    acc_roots = [f_ for f_ in prog.funcs.values() if f_.blocks and f_.base in ("Pistache::Http::Header::Authorization::getBasicUser", "Pistache::Http::Header::Authorization::getBasicPassword")]
    if acc_roots:
        reach9 = {f2.base.replace("Pistache::", "") for f2, _c in lib.callgraph_reach(prog, acc_roots).values()}
        reach9 |= {prog.owner(f2).base.replace("Pistache::", "") for f2, _c in lib.callgraph_reach(prog, acc_roots).values()}
        ck.borrow("C03", ["C03-R8"], "C20-R9",
                  "where the Basic-credential accessors look for the delimiter with the stream cursor's matchers, those scans end: every "
                  "cursor-driven loop in their call closure definitely consumes input on every way round (a byte such as 0xFF that a loop "
                  "takes for end-of-stream without moving past it would otherwise hide the delimiter behind it, or spin)",
                  key_pred=lambda k: k.split("/loop@")[0] in reach9 or k.split("/")[0] in reach9, min_instances=0)

    # ---- R7: a scan that walks backwards has a lower bound
    ck.rule("C20-R7", "B loop bound (backward scans)",
            "the coders walk their input forwards, where the end is marked (the size, or the terminator behind a std::string); a loop that "
            "moves a position backwards (--i, i -= n, --it) tests that position against its lower bound in its own condition -- text made "
            "of padding only would otherwise be read in front of its first character", 1)
    nloops = 0
    for f in [f_ for f_ in prog.funcs.values() if os.path.basename(f_.file) in ("base64.cc", "base64.h") and f_.blocks]:
        for hdr, body in cfg.natural_loops(f):
            nloops += 1
            dec = set()
            for b_ in body:
                for e in f.blocks[b_].elems:
                    if e["k"] == "incdec" and e.get("op") == "--" and (e.get("operand") or {}).get("v"):
                        dec.add(e["operand"]["v"])
                    elif e["k"] == "assign" and e.get("op") == "-=" and (e.get("lhs") or {}).get("v"):
                        dec.add(e["lhs"]["v"])
                    elif e["k"] == "call" and e.get("op") == "--" and ((e.get("recv") or {}).get("v") or ((e.get("args") or [{}])[0].get("v"))):
                        dec.add((e.get("recv") or {}).get("v") or e["args"][0].get("v"))
            for v in sorted(dec):
                bounded = False
                for b_ in body:
                    t = f.blocks[b_].term or {}
                    if t.get("cmp") and ((t.get("lhs") or {}).get("v") == v and (t.get("lhs") or {}).get("t", "").strip() == v or
                                         (t.get("rhs") or {}).get("v") == v and (t.get("rhs") or {}).get("t", "").strip() == v):
                        bounded = True
                    for e in f.blocks[b_].elems:
                        if e["k"] == "cmp" and ((e.get("lhs") or {}).get("t", "").strip() == v or (e.get("rhs") or {}).get("t", "").strip() == v):
                            bounded = True
                ck.ob("C20-R7", "%s/backward-scan:%s" % (f.base.replace("Pistache::", ""), v), bounded, "%s:%s" % (f.file, (f.blocks[hdr].term or {}).get("l")), f,
                      "`%s` is compared with its bound in the loop" % v if bounded else
                      "the loop at line %s moves `%s` backwards and never compares it with a lower bound: on input that is all padding it runs "
                      "off the front of the buffer" % ((f.blocks[hdr].term or {}).get("l"), v))
    ck.ob("C20-R7", "loops-in-the-coders", nloops >= 2, "", "", "%d loops examined; none walks backwards without a bound" % nloops, nontrivial=False)


def _output_rule(ck):
    """R8: the coders' output member is rebuilt for every call"""
    prog = ck.prog
    ck.rule("C20-R8", "C dominance (whole overwrite before element stores)",
            "Encode() / Decode() fill their output member element by element (`m.at(i) = ..`); before the first such store the member "
            "is overwritten as a whole (`m = container(size, fill)`, assign, or clear + resize) on every path -- a buffer that is only "
            "ever grown keeps the tail of an earlier, longer result when a coder object is used a second time", 1)
    n = 0
    for f in [f_ for f_ in prog.flat_library_funcs() if os.path.basename(f_.file) in ("base64.cc", "base64.h") and f_.blocks and f_.cls]:
        stores = {}
        for e in f.events("assign"):
            m_ = re.match(r"^this->(\w+)\s*(\.at\(|\[)", (e.get("lhs") or {}).get("t") or "")
            if m_:
                stores.setdefault(m_.group(1), []).append(e)
        for e in f.events("call"):
            if (e.get("callee") or "").rsplit("::", 1)[-1] in ("push_back", "emplace_back", "append") and ((e.get("recv") or {}).get("f") or "").startswith(f.cls):
                stores.setdefault(e["recv"]["f"].rsplit("::", 1)[-1], []).append(e)
        if not stores:
            continue
        dom = cfg.dominators(f)
        for mem, sts in sorted(stores.items()):
            whole = [e for e in f.events("call") if ((e.get("recv") or {}).get("f") or "").endswith("::" + mem) and
                     (e.get("op") == "=" or (e.get("callee") or "").rsplit("::", 1)[-1] in ("assign", "clear", "swap"))]
            n += 1
            ok = bool(whole) and all(any(cfg.ev_dominates(dom, w_, s_) for w_ in whole) for s_ in sts)
            ck.ob("C20-R8", "%s/%s-rebuilt" % (f.base.rsplit("::", 2)[-2] + "::" + f.base.rsplit("::", 1)[-1], mem), ok, sts[0].loc, f,
                  "`%s` is overwritten as a whole before it is filled" % mem if ok else
                  "`%s` is filled element by element (line %s) without being rebuilt first: what an earlier call left beyond the new length "
                  "stays in the result" % (mem, sts[0].get("l")))
    ck.require(n >= 1, "coders that fill an output member element by element: %d" % n)


def run(ck):
    _structural_rules(ck)
    _output_rule(ck)
    prog = ck.prog
    ck.rule("C20-R1", "H table agreement on intervals (interval interpretation of two loop-free functions)",
            "Base64Encoder::EncodeByte maps 0..63 by the RFC 4648 alphabet table; Base64Decoder::DecodeCharacter is its inverse on the "
            "alphabet and gives a non-sextet everywhere else (in particular for the padding character); the sextet threshold of "
            "CalculateDecodedSize separates the two; the padding written is '='", 5)
    ck.rule("C20-R2", "bit-provenance dataflow over the expression trees of every store",
            "every sextet Encode() writes and every octet Decode() writes takes each of its bits from the input bit RFC 4648 prescribes "
            "(full groups and both tail cases), the argument of EncodeByte is provably a sextet, every position of a group is written "
            "once, padding fills the rest, and the loops advance by 3 and 4", 6)
    ck.rule("C20-R3", "H table agreement with the specification",
            "CalculateDecodedSize: r left-over sextets in the last group give floor(6r/8) further octets", 2)
    ck.rule("C20-R4", "H token agreement + B guard dominates sink",
            "Basic credentials: the scheme prefix and the delimiter are the same tokens in the setter, hasMethod<Basic> and both getters; "
            "the getters split at the first delimiter, the password starts one delimiter after the user, and the setter refuses a user "
            "that contains the delimiter", 6)

    ck.rule("C20-R5", "C path automaton on static / thread_local locals over the call closure",
            "the encoder, the decoder and the Basic credential accessors keep no state between calls: a static or thread_local local "
            "in their call closure is overwritten as a whole (clear / assignment) before anything else is done with it on every path", 1)
    enc = lib.single(prog, "Base64Encoder::EncodeByte")
    dec = lib.single(prog, "Base64Decoder::DecodeCharacter")
    ck.touch(enc)
    ck.touch(dec)
    earms = piecewise(ck, enc, 0, 255)
    ck.note("EncodeByte table: %s" % [(a, b, k, v) for a, b, k, v, _ in earms])
    try:
        darms = piecewise(ck, dec, 0, 255)
        ck.note("DecodeCharacter table: %s" % [(a, b, k, v) for a, b, k, v, _ in darms])
    except AnalysisBroken as ex:
        # (a reverse table that is filled by a loop at run time, say: the encoder's table is still compared with RFC 4648 below, the
        # inverse relation is not decided and the evidence says so)
        darms = None
        ck.note("C20-R1 undecided: the decoder's table cannot be read as intervals (%s): inverse / outside-alphabet / padding / threshold clauses not decided" % ex)

    # R1a: the encoder's table on 0..63 is the RFC table
    for (lo, hi, off) in RFC:
        pcs = image(earms, lo, hi)
        ok = bool(pcs) and sum(b - a + 1 for a, b, *_ in pcs) == hi - lo + 1 and all(
            (kind == "aff" and k == off) or (kind == "const" and a == b and k == a + off) for a, b, kind, k, _ in pcs)
        site = pcs[0][4].loc if pcs else enc.loc
        ck.ob("C20-R1", "encoder:%d-%d" % (lo, hi), ok, site, enc,
              "values %d..%d must be written as characters %d..%d; the code has %s" % (lo, hi, lo + off, hi + off, [(a, b, kind, k) for a, b, kind, k, _ in pcs]))
    # R1b: the decoder inverts the encoder on the encoder's image, interval by interval
    sext_out = []
    for (a, b, kind, k, e) in (image(earms, 0, 63) if darms is not None else []):
        clo, chi = (a + k, b + k) if kind == "aff" else (k, k)
        pcs = image(darms, clo, chi)
        ok = bool(pcs) and sum(y - x + 1 for x, y, *_ in pcs) == chi - clo + 1
        for (x, y, dk, dv, de) in pcs:
            if kind == "aff":
                ok = ok and ((dk == "aff" and dv == -k) or (dk == "const" and x == y and dv == x - k))
            else:
                ok = ok and a == b and ((dk == "const" and dv == a) or (dk == "aff" and x + dv == a))
        ck.ob("C20-R1", "inverse:%d-%d" % (a, b), ok, (pcs[0][4].loc if pcs else dec.loc), dec,
              "characters %d..%d (values %d..%d) must decode to the same values; the decoder has %s" % (clo, chi, a, b, [(x, y, dk, dv) for x, y, dk, dv, _ in pcs]))
        sext_out.append((clo, chi))
    cds = lib.single(prog, "Base64Decoder::CalculateDecodedSize")
    ck.touch(cds)
    # R1c: everything outside the alphabet is a non-sextet for the decoder
    R1CD = darms is not None
    if darms is None:
        darms = []
    inside = sorted(sext_out)
    fail_vals = set()
    bad = []
    pos = 0
    gaps = []
    for (clo, chi) in inside:
        if clo > pos:
            gaps.append((pos, clo - 1))
        pos = max(pos, chi + 1)
    if pos <= 255:
        gaps.append((pos, 255))
    for (glo, ghi) in gaps:
        for (x, y, dk, dv, de) in image(darms, glo, ghi):
            if dk == "const" and dv >= 64:
                fail_vals.add(dv)
            else:
                bad.append((x, y, dk, dv, de))
    if R1CD:
        ck.ob("C20-R1", "outside-alphabet", not bad, (bad[0][4].loc if bad else dec.loc), dec,
              "characters outside the alphabet must not decode to a sextet: %s" % [(x, y, dk, dv) for x, y, dk, dv, _ in bad])
        padpcs = image(darms, PAD, PAD)
        ck.ob("C20-R1", "padding-not-a-sextet", bool(padpcs) and all(dk == "const" and dv >= 64 for _, _, dk, dv, _ in padpcs), dec.loc, dec,
              "the padding character '=' must not decode to a sextet")
    # R1d: the threshold of "is a sextet"
    thr = []
    for e in cds.events("cmp"):
        if "DecodeCharacter" in (e.get("t") or "") and e.get("op") in ("<", "<=", ">", ">=", "!=", "=="):
            thr.append(e)
    if R1CD:
        ck.require(thr, "CalculateDecodedSize has no comparison of a DecodeCharacter result (the end-of-data scan)")
    for e in (thr if R1CD else []):
        rv = e.get("rival") if "DecodeCharacter" in ((e.get("lhs") or {}).get("t") or "") else e.get("lival")
        op = e["op"] if "DecodeCharacter" in ((e.get("lhs") or {}).get("t") or "") else {"<": ">", ">": "<", "<=": ">=", ">=": "<="}.get(e["op"], e["op"])
        ok = rv is not None and fail_vals and ((op == "<" and 63 < rv <= min(fail_vals)) or (op == "<=" and 63 <= rv < min(fail_vals)) or
                                               (op == ">=" and 63 < rv <= min(fail_vals)) or (op == ">" and 63 <= rv < min(fail_vals)))
        ck.ob("C20-R1", "sextet-threshold", ok, e.loc, cds,
              "the scan for the end of the data must treat exactly the results 0..63 as sextets (failure value(s) %s): %s" % (sorted(fail_vals), e.get("t")))

    # ---- R2: bit layout
    E = lib.single(prog, "Base64Encoder::Encode")
    D = lib.single(prog, "Base64Decoder::Decode")
    ck.touch(E)
    ck.touch(D)

    inconclusive = []

    def verdict(rule, key, got, want, e, f, msg):
        """three-valued: a definite wrong bit is a violation; bits the evaluator cannot follow make this store undecided (a note in the
        evidence, not an alarm); otherwise the obligation is discharged.  Returns False when undecided."""
        wrong = [i for i, (g, w) in enumerate(zip(got, want)) if g != UNK and g != w]
        unk = [i for i, g in enumerate(got) if g == UNK]
        if not wrong and unk:
            inconclusive.append("%s at %s: the stored expression is not modelled by the bit evaluator: %s" % (key, e.loc, (e.get("t") or "")[:80]))
            return False
        ck.ob(rule, key, not wrong, e.loc, f, msg + "; the expression gives %s" % (got,))
        return True

    def rname(r):
        return r if isinstance(r, str) else "branch%s.%s" % r

    bevE = BitEval(prog)
    bevD = BitEval(prog, "Base64Decoder::DecodeCharacter")
    APPEND = re.compile(r"^std::(basic_string|vector)::(operator\+=|push_back|emplace_back|append)$")

    def payload_enc(f, env, xt, const):
        """('sextet', bits) | ('const', [codes]) | ('other', None)"""
        if isinstance(const, str) and const.startswith("c:"):
            return ("const", [int(const[2:])])
        if isinstance(const, str) and const.startswith("s:"):
            return ("const", [ord(c) for c in const[2:]])
        if isinstance(const, int) and not isinstance(const, bool):
            return ("const", [const])
        t = xt
        while t and t.get("op") == "cast":
            t = t["a"][0]
        if t is None:
            return ("other", None)
        if "c" in t:
            return ("const", [t["c"]])
        if "v" in t:
            b_ = env.lookup(t)
            if b_ is not None:
                return payload_enc(f, b_[1], b_[0], None)
        if t.get("op") == "call" and strip_tmpl(t.get("fn") or "") == "Base64Encoder::EncodeByte" and len(t.get("a", [])) == 1:
            return ("sextet", bevE.bits(t["a"][0], env)[:8])
        if t.get("op") == "elem" and "v" in (t.get("base") or {}) and env.lookup(t["base"]) is None:
            # an alphabet table indexed by the sextet: the table must be the RFC alphabet
            fake = {"xt": t, "fl": f.file}
            ta = table_arms(prog, fake, 0, 63, lambda it: 0)
            if ta is not None:
                okt = [(x, y, d_) for (x, y, d_) in ta] == [(lo, hi, off) for (lo, hi, off) in RFC]
                ck.ob("C20-R1", "table:%s:%s" % (f.base.rsplit("::", 1)[-1], t["base"]["v"]), okt, f.loc, f,
                      "a character table indexed by a sextet must be the RFC 4648 alphabet; %s maps %s" % (t["base"]["v"], ta))
                return ("sextet", bevE.bits(t.get("i"), env)[:8])
        return ("other", None)

    def payload_dec(f, env, xt, const):
        if xt is None:
            return ("other", None)
        bits = bevD.bits(xt, env)[:8]
        if any(x[0] == "S" or (x[0] in ("or", "and") and any(y[0] == "S" for y in x[1])) for x in bits):
            return ("octet", bits)
        return ("other", None)

    def emissions(f, bev, payload):
        """[(region, destination, explicit offset or None, kind, value, event, in a per-element loop?)] for the stores `out.at(k) = ...` /
        `out[k] = ...` and the appends `out += ...` / `out.push_back(...)` of f"""
        env = func_env(f)
        dom = cfg.dominators(f)
        loops = cfg.natural_loops(f)
        out = []
        for e in f.events(("assign", "call")):
            if e["k"] == "assign":
                if e.get("op") != "=":
                    continue
                k = bev.elem(e.get("lxt"), env)
                if k is None:
                    continue
                kind, val = payload(f, env, e.get("xt"), e.get("const"))
                out.append([control_region(f, dom, loops, e.block), k[0], k[2], kind, val, e, False])
            elif APPEND.match(strip_tmpl(e.get("callee") or "")):
                rv = e.get("recv") or {}
                args = [a for a in (e.get("args") or []) if not a.get("dflt")]
                if strip_tmpl(e["callee"]).endswith("operator+=") and len(args) == 2:
                    rv, args = args[0], args[1:]
                if strip_tmpl(e["callee"]).endswith("::append") and len(args) == 2 and isinstance(args[0].get("const"), int) and isinstance(args[1].get("const"), str):
                    # append(n, c)
                    dest = strip_tmpl(rv.get("f") or "") or ("var:" + (rv.get("v") or rv.get("root") or "?"))
                    out.append([control_region(f, dom, loops, e.block), dest, None, "const", [int(args[1]["const"][2:])] * args[0]["const"], e, False])
                    continue
                if len(args) != 1:
                    continue
                dest = strip_tmpl(rv.get("f") or "") or ("var:" + (rv.get("v") or rv.get("root") or "?"))
                xt_ = args[0].get("xt")
                if xt_ is None and args[0].get("v"):
                    xt_ = {"v": args[0]["v"], "vd": args[0].get("vd")}
                kind, val = payload(f, env, xt_, args[0].get("const"))
                out.append([control_region(f, dom, loops, e.block), dest, None, kind, val, e, False])
        # an emission that is alone in its innermost loop is produced once per *element*, not once per group: positions are not modelled
        def innermost(bid):
            c = [(h, body) for h, body in loops if bid in body]
            return min(c, key=lambda x: len(x[1]))[0] if c else None
        interesting = [x for x in out if x[3] in ("sextet", "octet")]
        per_loop = {}
        for x in interesting:
            per_loop.setdefault(innermost(x[5].block), []).append(x)
        for h, xs in per_loop.items():
            if h is not None and len(xs) == 1:
                xs[0][6] = True
        return out, env

    unit_funcs = [f for f in prog.funcs.values() if os.path.basename(f.file) in ("base64.cc", "base64.h") and not f.is_lambda]
    ck.require(unit_funcs, "no function of base64.cc / base64.h in the analysed program")

    # -- encoders: every function of the Base64 unit that emits sextets
    seen_ids = set()
    n_enc_groups = 0
    for f0 in sorted(unit_funcs, key=lambda f: f.id):
        if f0.id in seen_ids:
            continue
        seen_ids.add(f0.id)
        f = prog.flat(f0)
        em, eenv = emissions(f, bevE, payload_enc)
        groups = {}
        for r, dest, off, kind, val, e, per_el in em:
            groups.setdefault((r, dest), []).append((off, kind, val, e, per_el))
        dests = {k[1] for k, v in groups.items() if any(kind == "sextet" for _, kind, _, _, _ in v)}
        groups = {k: v for k, v in groups.items() if k[1] in dests and any(kind in ("sextet", "const") for _, kind, _, _, _ in v)}
        groups = {k: v for k, v in groups.items() if any(kind == "sextet" for _, kind, _, _, _ in v)}
        if not groups:
            continue
        ck.touch(f)
        fn = f.base.rsplit("::", 1)[-1]
        tails_n = []
        loop_seen = False
        undecided = False
        for (r, dest), sts in sorted(groups.items(), key=lambda x: str(x[0])):
            gname = "%s:%s" % (fn, rname(r))
            if any(per_el for *_x, per_el in sts):
                inconclusive.append("enc:%s: the sextets of this group are produced by a loop over the group's elements: positions not modelled" % gname)
                undecided = True
                continue
            parsed = []
            pos = 0
            for off, kind, val, e, _pe in sts:
                if kind == "const":
                    for c in val:
                        parsed.append((off if off is not None else pos, "const", c, e))
                        pos += 1
                else:
                    parsed.append((off if off is not None else pos, kind, val, e))
                    pos += 1
            n_in = 0
            canon = []
            unk_grp = False
            for off, kind, val, e in parsed:
                if kind == "sextet":
                    got = [("IN", x[2], x[3]) if x[0] == "I" else x for x in val]
                    if any(x == UNK for x in got):
                        unk_grp = True
                    for x in got:
                        if x[0] == "IN":
                            n_in = max(n_in, x[1] + 1)
                        elif x[0] in ("or", "and"):
                            for y in x[1]:
                                if y[0] == "I":
                                    n_in = max(n_in, y[2] + 1)
                    canon.append((off, kind, got, e))
                else:
                    canon.append((off, kind, val, e))
            if unk_grp and not any(k_ == "sextet" and any(g_ != UNK and g_[0] in ("or", "and") for g_ in v_) for _o, k_, v_, _e in canon):
                inconclusive.append("enc:%s: a sextet of this group is computed by an expression the bit evaluator does not model (%s)"
                                    % (gname, "; ".join(sorted(set(bevE.unmodelled))[:3]) or "unknown bits"))
                undecided = True
                continue
            n_enc_groups += 1
            offs = sorted(o for o, *_ in canon)
            ck.ob("C20-R2", "enc:%s:positions" % gname, offs == [0, 1, 2, 3], sts[0][3].loc, f,
                  "every group writes the output positions 0..3 exactly once; this one writes %s" % offs)
            if r == "loop":
                loop_seen = True
                ck.ob("C20-R2", "enc:%s:octets" % gname, n_in == 3, sts[0][3].loc, f, "the full-group loop encodes 3 octets; it reads %d" % n_in)
            else:
                tails_n.append(n_in)
            n_out = n_in + 1
            for off, kind, val, e in canon:
                key = "enc:%s:%d" % (gname, off)
                if off >= n_out:
                    ck.ob("C20-R2", key, kind == "const" and val == PAD, e.loc, f,
                          "position %d of a %d-octet tail must be the padding character '='; written: %s" % (off, n_in, e.get("t")))
                    continue
                if kind != "sextet":
                    ck.ob("C20-R2", key, False, e.loc, f, "sextet %d of a group of %d octet(s) must be written through the alphabet; written: %s" % (off, n_in, e.get("t")))
                    continue
                want = []
                for b in range(6):
                    g = 6 * (3 - off) + b
                    i, c = 2 - g // 8, g % 8
                    want.append(("IN", i, c) if i < n_in else Z)
                want += [Z, Z]
                verdict("C20-R2", key, val, want, e, f,
                        "sextet %d of a group of %d octet(s) must be the bits %s (and nothing above them)" % (off, n_in, want[:6]))
        if not undecided:
            ck.ob("C20-R2", "enc:%s:tail-cases" % fn, sorted(tails_n) == [1, 2] and loop_seen, f.loc, f,
                  "an encoder has a full-group loop and tail groups for exactly 1 and 2 left-over octets; tail groups read %s octet(s)" % sorted(tails_n), structural=True)
            st = strides(f)
            ck.ob("C20-R2", "enc:%s:strides" % fn, 3 in st.values() and set(st.values()) <= {3, 4}, f.loc, f,
                  "the full-group loop must advance the input by 3 (and an indexed output by 4): %s" % st)

    # -- decoders: every function of the unit that emits octets computed from sextets.  An octet's bits do not depend on how many
    #    octets the group has, so every emission is judged on its own; positions: 0..2 in the loop, a prefix of 0..1 in the tails
    seen_ids = set()
    n_dec = 0
    for f0 in sorted(unit_funcs, key=lambda f: f.id):
        if f0.id in seen_ids:
            continue
        seen_ids.add(f0.id)
        f = prog.flat(f0)
        em, denv = emissions(f, bevD, payload_dec)
        groups = {}
        for r, dest, off, kind, val, e, per_el in em:
            if kind == "octet":
                groups.setdefault((r, dest), []).append((off, val, e, per_el))
        if not groups:
            continue
        ck.touch(f)
        fn = f.base.rsplit("::", 1)[-1]
        loop_offs, tail_sets, undecided = [], [], False
        for (r, dest), sts in sorted(groups.items(), key=lambda x: str(x[0])):
            gname = "%s:%s" % (fn, rname(r))
            if any(pe for *_x, pe in sts):
                inconclusive.append("dec:%s: the octets of this group are produced by a loop over the group's elements: positions not modelled" % gname)
                undecided = True
                continue
            pos = 0
            offs = []
            for off, val, e, _pe in sts:
                o_ = off if off is not None else pos
                pos += 1
                offs.append(o_)
                got = [("SX", x[2], x[3]) if x[0] == "S" else x for x in val]
                if not (0 <= o_ <= 2):
                    ck.ob("C20-R2", "dec:%s:%d" % (gname, o_), False, e.loc, f, "a group has the octets 0..2; position %d is written" % o_)
                    continue
                want = []
                for c in range(8):
                    g = 8 * (2 - o_) + c
                    want.append(("SX", 3 - g // 6, g % 6))
                if verdict("C20-R2", "dec:%s:%d" % (gname, o_), got, want, e, f, "octet %d must be the bits %s of the group's sextets" % (o_, want)):
                    n_dec += 1
                else:
                    undecided = True
            (loop_offs if r == "loop" else tail_sets).append(sorted(offs)) if r != "loop" else loop_offs.extend(offs)
        if not undecided:
            ck.ob("C20-R2", "dec:%s:loop-positions" % fn, sorted(loop_offs) == [0, 1, 2], f.loc, f,
                  "the full-group loop writes the octets 0..2 exactly once each; it writes %s" % sorted(loop_offs))
            tails_ok = sorted(set(o for t_ in tail_sets for o in t_)) == [0, 1] and all(t_ == list(range(len(t_))) or t_ in ([0], [1], [0, 1]) for t_ in tail_sets)
            ck.ob("C20-R2", "dec:%s:tail-positions" % fn, tails_ok, f.loc, f,
                  "the tail writes octet 0 (one or two left over) and octet 1 (two left over) and nothing else; it writes %s" % tail_sets, structural=True)
            st = strides(f)
            ck.ob("C20-R2", "dec:%s:strides" % fn, 4 in st.values() and set(st.values()) <= {3, 4}, f.loc, f,
                  "the full-group loop must advance the input by 4 (and an indexed output by 3): %s" % st)
    if n_enc_groups == 0 and n_dec == 0:
        raise AnalysisBroken("C20-R2: neither an encoder group nor a decoder store of the Base64 unit could be decided (%s)" % "; ".join(inconclusive[:3]))
    for m_ in inconclusive:
        ck.note("C20-R2 undecided: " + m_)

    # ---- R3: size table of the last group
    sw = [b for b in cds.blocks.values() if b.term and b.term.get("k") == "switch"]
    ck.require(len(sw) == 1, "CalculateDecodedSize: one switch on the left-over sextets expected")
    base_var = None
    table = {}
    for b in cds.blocks.values():
        lab = b.label or {}
        if lab.get("k") in ("case", "default"):
            rets = [e for e in b.elems if e["k"] == "return"]
            if len(rets) == 1 and rets[0].get("aff") and "v" in rets[0]["aff"]:
                table[lab.get("const") if lab.get("k") == "case" else "default"] = (rets[0]["aff"]["v"], rets[0]["aff"].get("k", 0), rets[0])
    ck.require(table, "CalculateDecodedSize: the cases do not return `size + c`")
    for r in (2, 3):
        ent = table.get(r) or table.get("default")
        ck.ob("C20-R3", "leftover:%d" % r, ent is not None and ent[1] == (6 * r) // 8, (ent[2].loc if ent else cds.loc), cds,
              "%d left-over sextets carry %d octet(s); the code adds %s" % (r, (6 * r) // 8, ent[1] if ent else None))
    for r in (0, 1):
        ent = table.get(r) or table.get("default")
        if ent is not None:
            ck.ob("C20-R3", "leftover:%d" % r, ent[1] == 0, ent[2].loc, cds, "%d left-over sextet(s) carry no octet; the code adds %s" % (r, ent[1]))

    # ---- R4: Basic credentials
    setter = lib.single(prog, A + "setBasicUserPassword")
    guser = lib.single(prog, A + "getBasicUser")
    gpass = lib.single(prog, A + "getBasicPassword")
    hm = [f for f in prog.by_base.get(A + "hasMethod", []) if f.id.split("(")[0].endswith("Method::Basic>")]
    ck.require(len({f.id for f in hm}) == 1, "hasMethod<Method::Basic> not found")
    hm = prog.flat(hm[0])
    for f in (setter, guser, gpass, hm):
        ck.touch(f)

    FIND = re.compile(r"^std::basic_string::(r?find|find_first_of|find_last_of|find_first_not_of|find_last_not_of)$")
    TEXTCALL = re.compile(r"^(std::basic_string::(r?find\w*|compare|starts_with|substr|operator\+=|append|operator=|assign|insert)|std::operator\+|std::operator==)$")

    def global_lits(name, near):
        cands = [v for v in prog.vars if (v.get("name") == name or (v.get("name") or "").endswith("::" + name)) and not v.get("func")
                 and os.path.basename(v.get("file") or "") in (os.path.basename(near), "http_header.h")]
        out = []
        for v in cands:
            out += [x for x in re.findall(r'"((?:[^"\\]|\\.)*)"', v.get("init") or "")]
        return out

    def reach(f, depth=3, seen=None):
        """functions of the same source file reachable from f (helpers the accessors were split into)"""
        seen = seen if seen is not None else {}
        if f.id in seen or depth < 0:
            return seen
        seen[f.id] = f
        for e in f.calls():
            for g in prog.resolve_call(e):
                if g.file == f.file and not g.is_lambda:
                    reach(prog.flat(g) if not g.is_lambda else g, depth - 1, seen)
        return seen

    def text_lits(f):
        """[(text, event, is_find)]: literals used as text -- std::string construction, concatenation, searches, substr -- in f and the
        helpers it calls in its file, and the literals of the namespace-scope constants those expressions name; never error messages"""
        out = []
        for g in reach(f).values():
            locals_ = {p.get("name") for p in g.params} | {d.get("var") for d in g.events("decl")}
            for e in g.events(("construct", "call", "decl")):
                cls = strip_tmpl(e.get("cls") or e.get("ctor") or "")
                cal = strip_tmpl(e.get("callee") or "")
                args = e.get("args") or e.get("cargs") or []
                if e["k"] in ("construct", "decl") and cls != "std::basic_string":
                    continue
                if e["k"] == "call" and not TEXTCALL.match(cal) and not (g.file == f.file and prog.resolve_call(e)):
                    continue
                isfind = bool(FIND.match(cal))
                for a in args:
                    c = a.get("const")
                    if isinstance(c, str) and c.startswith("s:"):
                        out.append((c[2:], e, isfind))
                    elif isinstance(c, str) and c.startswith("c:") and e["k"] == "call":
                        out.append((chr(int(c[2:])), e, isfind))
                    for nm in {a.get("root"), a.get("v")} - {None, "this"}:
                        if nm not in locals_:
                            for t in global_lits(nm, g.file):
                                out.append((t, e, isfind))
                rv = e.get("recv") or {}
                for nm in {rv.get("root"), rv.get("v")} - {None, "this"}:
                    if nm not in locals_ and e["k"] == "call" and TEXTCALL.match(cal):
                        for t in global_lits(nm, g.file):
                            out.append((t, e, isfind))
        return out

    sl = text_lits(setter)
    ck.require([e for e in setter.calls(lambda e: strip_tmpl(e.get("callee") or "").startswith("Base64Encoder::"))],
               "setBasicUserPassword does not call the Base64 encoder")
    finds = sorted({t for t, e, isf in sl if isf})
    joined = [t for t, e, isf in sl if not isf]
    prefix = sorted({t for t in joined if len(t) > 1})
    delim = sorted({t for t in joined if len(t) == 1})
    ck.require(len(prefix) == 1 and len(delim) == 1, "setBasicUserPassword: one scheme prefix and one one-character delimiter expected, found %s" % sorted(set(joined)))
    P, Dl = prefix[0], delim[0]
    # the setter refuses a user that contains the delimiter: a branch on a search of the user, one arm of which throws, dominates the encoding
    derived = {d["var"] for d in setter.events("decl") if any(r.startswith("c:") and FIND.match(strip_tmpl(r[2:])) for r in (d.get("refs") or []))}
    gb = []
    for b in setter.blocks.values():
        t = b.term
        if not t or len([x for x in b.succs if x is not None]) < 2:
            continue
        refs = set(t.get("refs") or []) | set(t.get("leafrefs") or [])
        if any(r.startswith("c:") and FIND.match(strip_tmpl(r[2:])) for r in refs) or any(r[2:] in derived for r in refs if r.startswith("v:")):
            gb.append(b)
    encs = [e for e in setter.calls(lambda e: strip_tmpl(e.get("callee") or "").startswith("Base64Encoder::"))]
    dom = cfg.dominators(setter)
    throws_blocks = {e.block for e in setter.events("throw")} | {e.block for e in setter.calls(lambda e: e.get("noret"))}
    ok = Dl in finds and bool(gb) and all(any(cfg.block_dominates(dom, g.id, x) for g in gb) for x in encs) and \
        any(any(s_ is not None and (s_ in throws_blocks or (cfg.reachable_blocks(setter, s_) & throws_blocks and not (cfg.reachable_blocks(setter, s_) & {x.block for x in encs})))
                for s_ in g.succs) for g in gb)
    ck.ob("C20-R4", "setter:refuses-delimiter-in-user", ok, (gb[0].elems[-1].loc if gb and gb[0].elems else setter.loc), setter,
          "before the credentials are encoded the setter must search the user for the delimiter %r and refuse it with an exception; it searches for %s" % (Dl, finds))
    for f, nm in ((hm, "hasMethod<Basic>"), (guser, "getBasicUser"), (gpass, "getBasicPassword")):
        fl = text_lits(f)
        pl = sorted({t for t, e, isf in fl if len(t) > 1})
        ck.ob("C20-R4", "%s:prefix" % nm, pl == [P], (fl[0][1].loc if fl else f.loc), f,
              "%s must use the scheme prefix %r the setter writes, everywhere; it uses %s" % (nm, P, pl))
    for f, nm in ((guser, "getBasicUser"), (gpass, "getBasicPassword")):
        fc = []
        for g in reach(f).values():
            for e in g.calls(lambda e: FIND.match(strip_tmpl(e.get("callee") or ""))):
                a0 = ((e.get("args") or [{}])[0].get("const") or "")
                if isinstance(a0, str) and a0[:2] in ("c:", "s:"):
                    ch = chr(int(a0[2:])) if a0.startswith("c:") else a0[2:]
                    if len(ch) == 1:
                        fc.append((e, ch, g))
        ck.require(fc, "%s: no search for the delimiter found" % nm)
        for e, ch, g in fc:
            meth = strip_tmpl(e["callee"]).rsplit("::", 1)[1]
            ck.ob("C20-R4", "%s:first-delimiter" % nm, ch == Dl and meth in ("find", "find_first_of"), e.loc, g,
                  "%s must split at the first %r (the password may contain it, the user may not); it calls %s(%r)" % (nm, Dl, meth, ch))
    # the password starts one delimiter after the position found, the user ends at it: constants added to the position
    def offsets(f):
        """constants added to a position on the way to the returned text: iterator `+ c`, substr(pos + c, ...), substr(a, pos + c)"""
        out = []
        for g in reach(f).values():
            posvars = {d["var"] for d in g.events("decl") if d.get("icall") and FIND.match(strip_tmpl(d["icall"]))}
            for e in g.calls():
                cal = strip_tmpl(e.get("callee") or "")
                args = e.get("args") or []
                if e.get("op") == "+" and "iterator" in (e.get("callee") or ""):
                    for a in args:
                        if isinstance(a.get("const"), int):
                            out.append((a["const"], e))
                        elif (a.get("aff") or {}).get("v") in posvars:
                            out.append((a["aff"].get("k", 0), e))
                elif cal == "std::basic_string::substr":
                    for a in args:
                        if (a.get("aff") or {}).get("v") in posvars:
                            out.append((a["aff"].get("k", 0), e))
        return out
    po = offsets(gpass)
    ck.require(po, "getBasicPassword: the position arithmetic on the delimiter is not recognised")
    tot = sorted({k for k, e in po if k != 0})
    ck.ob("C20-R4", "getBasicPassword:skips-the-delimiter", tot == [len(Dl)], po[0][1].loc, gpass,
          "the password must start %d character(s) after the delimiter position; the code adds %s" % (len(Dl), [k for k, e in po]), structural=True)
    uo = offsets(guser)
    ck.require(uo, "getBasicUser: the position arithmetic on the delimiter is not recognised")
    ck.ob("C20-R4", "getBasicUser:ends-at-the-delimiter", all(k == 0 for k, e in uo), uo[0][1].loc, guser,
          "the user ends exactly at the delimiter position; the code adds %s" % [k for k, e in uo], structural=True)

    # ---- R5: no state survives a call
    roots = [f for f in prog.funcs.values() if os.path.basename(f.file) in ("base64.cc", "base64.h") and not f.is_lambda] + [setter, guser, gpass, hm]
    stale, nlooked = lib.stale_static_state(prog, roots, file_ok=lambda p: "/pistache/" in p or "/src/" in p)
    ck.ob("C20-R5", "no-stale-static-state", not stale, (stale[0][2].loc if stale else roots[0].loc), (stale[0][0] if stale else roots[0]),
          ("%d functions in the closure, none keeps data in a static local" % nlooked) if not stale else
          "static local `%s` of %s still holds what an earlier call left in it when it is used at %s" % (stale[0][1]["var"], stale[0][0].name, stale[0][2].loc),
          path=(stale[0][3] if stale else None))
