"""C03 — no network input can corrupt memory, hang the parser or take the server down.

Decides: no NUL-scanning or unguarded look-ahead on the bounded receive buffer; the size budget check and no input-sized
reservations; every parser exception is converted into a response; scan loops cannot spin at end of input; signed
differences are not used as unsigned counts without an ordering check.  Termination time, arithmetic UB inside value
conversions and server liveness are not decided."""
import re
from .. import cfg, lib, facts
from ..facts import AnalysisBroken, strip_tmpl

H = "Pistache::Http::"
CUR = "Pistache::StreamCursor::"
PARSER_FILES = ("/common/stream.cc", "/common/http.cc", "/common/http_header.cc", "/common/mime.cc", "/common/cookie.cc", "/pistache/stream.h",
                "/common/http_defs.cc", "/common/http_headers.cc")


def in_parser(f):
    return any(f.file.endswith(x) for x in PARSER_FILES)


def natural_or_none(g):
    return bool(cfg.natural_loops(g))


def run(ck):
    prog = ck.prog
    ck.rule("C03-R1", "G bounded-buffer taint",
            "pointers obtained from StreamCursor::offset(), Token::rawText(), gptr()/curptr() or the (const char*, size_t) parameters of "
            "parseRaw/fromRaw/addFromRaw flow only into length-bounded sinks (strncmp, memcmp, std::string(p, n), ...), never into "
            "NUL-scanning ones (strtol, strtod, strcmp, strlen, std::string(p), ...)", 6)
    ck.rule("C03-R2", "B look-ahead bound",
            "StreamBuf::snext dereferences gptr()+1 only after a bail-out that establishes two available bytes; StreamCursor::next asks "
            "the buffer only when at least one byte is available", 2)
    ck.rule("C03-R3", "B size budget",
            "ArrayStreamBuf::feed grows `bytes` only past the cumulative limit check; storage is never reserved for a size taken from the "
            "message itself (Content-Length / chunk size) beyond what is buffered", 2)
    ck.rule("C03-R4", "C catch-all",
            "Http::Handler::onInput encloses feed/parse/onRequest in handlers for HttpError and std::exception (nothing narrower), each of "
            "which sends a response and resets the parser", 3)
    ck.rule("C03-R5", "C loop progress at end of input",
            "every loop in the parser code that moves the cursor with an unchecked advance() also tests for end of input "
            "(eof()/remaining()/Eof): otherwise advance() fails silently at the end of a segment and the loop spins forever", 4)
    ck.rule("C03-R6", "B ordering check dominates signed->unsigned count",
            "a signed difference passed as an unsigned count to StreamCursor::advance / std::string::append is dominated by a test that "
            "orders its operands (otherwise a negative value becomes a huge count); zero instances on the repaired tree — the reverted fix in seeded/ is its positive example", 0)

    # ---------------- R1 ----------------
    n = 0
    for f in prog.funcs.values():
        if not in_parser(f):
            continue
        for e, sink, arg, bounded in lib.taint_flows(f):
            n += 1
            ck.ob("C03-R1", "%s:%s<-%s" % (f.base.replace("Pistache::", ""), sink, (arg or "")[:30]), bounded, e.loc, f,
                  "length-bounded use" if bounded else "%s scans for a terminator the bounded buffer does not have (source: %s)" % (sink, arg))
    ck.require(n >= 6, "only %d bounded-buffer flows found" % n)

    # ---------------- R2 ----------------
    for f in prog.find("Pistache::StreamBuf::snext", 1):
        derefs = [e for e in f.events("deref")]
        plus = [e for e in derefs if "+ 1" in ((e.get("ptr") or {}).get("t") or "") or "+1" in ((e.get("ptr") or {}).get("t") or "")]
        # the same look-ahead written as a subscript: gptr()[1]
        plus += [e for e in f.events("subscript") if (e.get("idx") or {}).get("const") == 1 or ((e.get("idx") or {}).get("t") or "").strip() == "1"]
        ck.require(plus, "look-ahead dereference not found in StreamBuf::snext")
        avail2 = lambda r_: ("egptr" in (r_.get("t") or "") and "gptr" in (r_.get("t") or "").replace("egptr", "")) or "in_avail" in (r_.get("t") or "")
        two = [(bid, k) for bid, k, n_ in lib.at_least_edges(f, avail2) if n_ >= 2]
        for e in plus:
            ok = any(cfg.edge_dominates(f, bid, k, e) for bid, k in two)
            ck.ob("C03-R2", "StreamBuf::snext/two-bytes-before-lookahead", ok, e.loc, f,
                  "reached only when two bytes are available (egptr() - gptr() >= 2)" if ok else "no dominating bail-out establishing two available bytes")
    nx = lib.single(prog, CUR + "next")
    sn = [e for e in nx.calls(lambda e: e.base_callee() == "Pistache::StreamBuf::snext")]
    one = [(bid, k) for bid, k, n_ in lib.at_least_edges(nx, lambda r_: "in_avail" in (r_.get("t") or "")) if n_ >= 1]
    ok = bool(sn) and bool(one) and all(any(cfg.edge_dominates(nx, bid, k, e) for bid, k in one) for e in sn)
    ck.ob("C03-R2", "StreamCursor::next/guarded", ok, nx.loc, nx, "snext() only when in_avail() >= 1")

    # ---------------- R3 ----------------
    for f in prog.find("Pistache::ArrayStreamBuf::feed", 1):
        grow = [e for e in f.events("call") if (e.get("callee") or "") in ("std::back_inserter", "std::inserter") and strip_tmpl((e["args"][0].get("f") or "")).endswith("ArrayStreamBuf::bytes")]
        # (or a growing member call on the vector itself: insert / push_back / resize / append ...)
        grow += [e for e in f.calls(lambda e: lib.is_stl_mutation(e) and strip_tmpl((e.get("recv") or {}).get("f") or "").endswith("ArrayStreamBuf::bytes"))]
        tests = [b for b in f.blocks.values() if b.term and b.term.get("k") == "if" and any(strip_tmpl(r).endswith("ArrayStreamBuf::maxSize") for r in lib.term_refs(f, b.term))]
        # growth lies on one side of the limit test only (which side is the fitting one is decided by C14-R1)
        ok = bool(grow) and bool(tests) and all(any(cfg.edge_dominates(f, b.id, k_, g) for b in tests for k_ in (0, 1) if b.succs[k_] is not None) for g in grow)
        ck.ob("C03-R3", "ArrayStreamBuf::feed/limit-before-growth", ok, f.loc, f, "growth only past the maxSize check (details: C14-R1)")
        # the quantity the limit test measures (the vector's size, or a fill counter) is also where the readable area ends: a get area
        # that ends behind the bytes fed for this message lets the parser read what an earlier message left in the storage
        for b in tests[:1]:
            refs_ = [strip_tmpl(r) for r in lib.term_refs(f, b.term)]
            flds_ = [r[2:].rsplit("::", 1)[1] for r in refs_ if r.startswith("f:") and not r.endswith("::maxSize")]
            by_size = any(r.startswith("c:std::vector") and r.endswith("::size") for r in refs_) and "bytes" in flds_
            q_ = "bytes.size()" if by_size else ((flds_ or [None])[0])
            sg = [e for e in f.events("call") if (e.get("callee") or "").endswith("::setg") and len(e.get("args") or []) == 3]
            norm_ = lambda t_: re.sub(r"\s+|this->", "", t_ or "")
            if q_ and sg:
                bad_ = [e for e in sg if q_ not in norm_(e["args"][2].get("t"))]
                ck.ob("C03-R3", "ArrayStreamBuf::feed/readable-area-ends-at-the-measured-fill", not bad_, (bad_[0].loc if bad_ else sg[0].loc), f,
                      "limit test and setg() agree on `%s`" % q_ if not bad_ else
                      "the size limit is measured on `%s` but the get area is made to end at `%s`: bytes beyond what was fed for this message "
                      "(left in the storage by an earlier one) are handed to the parser as if they had arrived" % (q_, bad_[0]["args"][2].get("t")))
    BODY = H + "Message::body_"
    nres = 0
    for f in prog.funcs.values():
        if not f.file.endswith("/common/http.cc"):
            continue
        for e in f.calls(lambda e: e.base_callee() in ("std::basic_string::reserve", "std::basic_string::resize", "std::vector::reserve", "std::vector::resize")
                         and (e.get("recv") or {}).get("f") == BODY):
            nres += 1
            a = e["args"][0] if e.get("args") else {}
            t = a.get("t") or ""
            bounded = "remaining()" in t or "std::min" in t or "available" in t
            ck.ob("C03-R3", "%s/body-reserve-bounded" % f.base.replace(H + "Private::", ""), bounded, e.loc, f,
                  "reservation bounded by the bytes actually buffered" if bounded else
                  "body_.%s(%s) reserves a size announced by the message itself (Content-Length / chunk size): one small request can make the "
                  "server allocate gigabytes, far beyond the configured maximum request size" % (e.base_callee().rsplit("::", 1)[1], t))
    # zero reservations is fine (append grows as needed): keep the rule alive through the feed obligation above

    # ---------------- R4 ----------------
    f = lib.single(prog, H + "Handler::onInput")
    handlers = [b for b in f.blocks.values() if b.label and b.label.get("k") == "catch"]
    types = [b.label.get("type") or "" for b in handlers]
    ok = any("HttpError" in t for t in types) and any(t.replace("const ", "").replace(" &", "").strip() == "std::exception" for t in types)
    ck.ob("C03-R4", "onInput/handlers-cover-std::exception", ok, f.loc, f, "handlers: %s" % types if ok else
          "handlers %s do not include std::exception: a logic_error from a value parser (stoull out_of_range, invalid port) escapes to the "
          "reactor thread and terminates the server" % types)
    # the protected region contains feed, parse and onRequest
    trys = [b for b in f.blocks.values() if b.term and b.term.get("k") == "try"]
    calls = {c: [e for e in f.calls(lambda e: (e.get("callee") or "") == c)] for c in (H + "Private::ParserBase::feed", H + "Private::ParserBase::parse", H + "Handler::onRequest")}
    ck.require(all(calls.values()), "feed/parse/onRequest not found in onInput")
    # with no EH edges the try body is ordinary flow: require that every such call lies between the try entry and the handlers, i.e.
    # is not reachable from a handler block and the function has exactly one try statement
    in_handler = set()
    for hb in handlers:
        for e in cfg.events_from_block(f, hb.id):
            in_handler.add(id(e))
    ok = len(trys) == 1 and all(id(e) not in in_handler for lst in calls.values() for e in lst)
    ck.ob("C03-R4", "onInput/protected-region", ok, f.loc, f, "feed, parse and onRequest are inside the single try block")
    summ = lib.Summaries(prog)
    must_send = summ.lift_must(lambda e: e["k"] == "call" and (e.get("callee") or "") == H + "ResponseWriter::send", "error-response-send")
    must_reset = summ.lift_must(lambda e: e["k"] == "call" and strip_tmpl(e.get("callee") or "") in
                                (H + "Private::ParserBase::reset", H + "Private::ParserImpl::reset"), "parser-reset")
    for hb in handlers:
        # every way out of the handler has sent an answer and reset the parser (directly or through a helper that always does)
        no_send = [x for x in cfg.exits_without(f, must_send, start_block=hb.id) if x.kind != "throw"]
        no_reset = [x for x in cfg.exits_without(f, must_reset, start_block=hb.id) if x.kind != "throw"]
        ck.ob("C03-R4", "onInput/catch(%s)-answers" % hb.label.get("type"), not no_send and not no_reset, "%s:%s" % (f.file, hb.label.get("l")), f,
              "sends an error response and resets the parser" if not no_send and not no_reset else
              "the handler can be left without %s" % ("sending an error response" if no_send else "resetting the parser"))

    # ---------------- R5 ----------------
    nl = 0
    loops_of = {}
    for f in prog.funcs.values():
        if not in_parser(f):
            continue
        adv = [e for e in f.calls(lambda e: (e.get("callee") or "") == CUR + "advance")]
        if not adv:
            continue
        checked = set()
        for b in f.blocks.values():
            t = b.term
            if t and "c:" + CUR + "advance" in (t.get("refs") or []):
                for e in b.elems:
                    if e["k"] == "call" and (e.get("callee") or "") == CUR + "advance":
                        checked.add(id(e))
        for e in adv:
            if id(e) in checked:
                continue
            lp = cfg.innermost_loop(f, e.block, loops_of.setdefault(f.id, cfg.natural_loops(f)))
            if lp is None:
                continue
            cyc = lp[1]
            nl += 1
            guard = False
            for bid in cyc:
                t = f.blocks[bid].term
                if not t:
                    continue
                refs = t.get("refs") or []
                cond = t.get("cond") or ""
                if ("c:" + CUR + "eof") in refs or ("c:" + CUR + "remaining") in refs or "Eof" in cond or "in_avail" in cond or ("c:" + CUR + "advance") in refs:
                    guard = True
                # a loop bounded by a counter (for i < n) terminates regardless
                if t.get("k") == "for" and t.get("cmp") in ("<", "<=", "!="):
                    guard = True
            ck.ob("C03-R5", "%s/loop@advance" % f.base.replace("Pistache::", ""), guard, e.loc, f,
                  "the loop also tests for end of input" if guard else
                  "cursor.advance() at line %s is unchecked and the enclosing loop never tests for end of input: at the end of a segment advance() "
                  "fails without moving and the loop spins forever" % e.get("l"))
    ck.require(nl >= 4, "only %d scan loops with unchecked advance found" % nl)

    # ---------------- R5b: every iteration of a cursor-driven loop consumes input ----------------
    ck.rule("C03-R7", "C path automaton (loop progress)",
            "in the parser code every way round a loop whose condition reads the cursor passes a call that consumes input (a non-const "
            "StreamCursor member or a function handed the cursor) or leaves the loop: an iteration that neither moves the cursor nor "
            "exits repeats forever on the same byte", 6)
    READERS = {CUR + "current", CUR + "eol", CUR + "eof", CUR + "remaining", CUR + "next"}
    # one named exemption: the do-while of CacheControl::parseRaw.  Its only round trip without an explicit consume needs value
    # reasoning to be excluded (after `if (cursor.current() != ',') throw` the separator-skipping loop runs at least once because
    # current() is ','), which this path analysis does not do.
    R7_EXEMPT = {"Pistache::Http::Header::CacheControl::parseRaw": "do-while: progress follows from current() == ',' (value reasoning)"}
    nlp = 0
    for f in prog.funcs.values():
        if not in_parser(f) or f.base.startswith(CUR) or f.base.startswith("Pistache::StreamBuf") or f.base.startswith("Pistache::ArrayStreamBuf"):
            continue
        cursors = {p_["name"] for p_ in f.params if "StreamCursor" in p_["type"]} | {d["var"] for d in f.events("decl") if (d.get("type") or "").replace("Pistache::", "").startswith("StreamCursor") and "::" not in (d.get("type") or "").replace("Pistache::", "")[len("StreamCursor"):]}
        if not cursors:
            continue

        def consumes(ev):
            if ev["k"] != "call":
                return False
            c = ev.get("callee") or ""
            rv = ev.get("recv") or {}
            if rv.get("root") in cursors and c.startswith(CUR) and c not in READERS and not (ev.get("cid") or "").rstrip().endswith(" const"):
                return True
            return any(a.get("v") in cursors for a in ev.get("args", [])) and not c.startswith("std::")
        for hdr, body in cfg.natural_loops(f):
            hb = f.blocks[hdr]
            conds = [f.blocks[b].term for b in body if f.blocks[b].term]
            if not any(any(("c:" + r_) in (t.get("refs") or []) for r_ in READERS) for t in conds):
                continue
            nlp += 1
            # the exemption covers the named function's do-while only, never the loops nested in it
            # (the directive loop: the one round the separator-skipping loop, whatever its spelling -- do-while, for(;;) with breaks)
            is_outer = any(h2 != hdr and h2 in body and b2 < body for h2, b2 in cfg.natural_loops(f))
            if f.base in R7_EXEMPT and is_outer:
                ck.note("C03-R7: %s directive loop exempt: %s" % (f.base, R7_EXEMPT[f.base]))
                continue
            stuck = []

            def step7(st, ev):
                if consumes(ev) or ev["k"] in ("return", "throw") or (ev["k"] == "call" and (ev.get("callee") or "").endswith("Step::raise")):
                    return None
                return st

            def edge7(st, blk, k, succ):
                if succ not in body:
                    return None     # left the loop
                if succ == hdr:
                    stuck.append(blk.id)
                    return None
                return st
            for k, s_ in enumerate(hb.succs):
                if s_ is not None and s_ in body and s_ != hdr:
                    cfg.run_automaton(f, 0, step7, edge=edge7, start=s_)
                elif s_ == hdr and not any(consumes(e) for e in hb.elems):
                    stuck.append(hdr)
            # the header's own elements may consume (e.g. `while (match(...))`)
            if any(consumes(e) for e in hb.elems):
                stuck = []
            ck.ob("C03-R7", "%s/loop@%s" % (f.base.replace("Pistache::", ""), (hb.term or {}).get("l")), not stuck, "%s:%s" % (f.file, (hb.term or {}).get("l")), f,
                  "every iteration consumes input or leaves" if not stuck else
                  "an iteration of the loop at line %s can return to its head (from block %s) without moving the cursor: the same byte is examined "
                  "forever and the worker thread never comes back" % ((hb.term or {}).get("l"), stuck[0]))
    ck.require(nlp >= 6, "cursor-driven loops found: %d" % nlp)

    # ---------------- R8: strict progress (definite consumption, facts about the current byte) ----------------
    ck.rule("C03-R8", "C path automaton with byte facts (strict loop progress)",
            "in every cursor-driven parser loop no iteration can come back to the loop condition, be admitted again and re-enter the body "
            "unless a call on the way *definitely* consumed input: StreamCursor::advance, a helper all of whose paths advance "
            "(matchValue), or the true arm of a bool helper whose every non-false return advanced (match_literal, match_raw, match_string, "
            "match_attribute).  match_until and skip_whitespaces may consume nothing and do not count; they reset what is known about the "
            "byte under the cursor, which is otherwise tracked through comparisons with character constants, eof() tests and the "
            "post-condition of match_until(set) == true.  A zero-progress iteration is reported only when every branch and call on it is "
            "modelled (a definite witness); one that passes an unmodelled branch or helper is recorded as inconclusive, not as a violation", 10)
    # named exemptions (reason each): loops whose progress argument is about values this analysis does not track
    R8_EXEMPT = {
        (H + "Header::CacheControl::parseRaw", "do"): "do-while: progress follows from current() == ',' after the directive (value reasoning, see R7)",
    }
    # post-condition the analysis assumes of match_until: its only `return true` is taken when find(cursor.current()) held
    mus = [g for g in prog.by_base.get("Pistache::match_until", []) if g.blocks and any(True for _ in g.events("return")) and natural_or_none(g)]
    ck.require(len(mus) == 1, "the match_until overload that scans (has a loop): %d found" % len(mus))
    mu = mus[0]
    rts = [e for e in mu.events("return") if e.get("const") is True]
    cur_decl = {d["var"] for d in mu.events("decl") if d.get("icall") == CUR + "current"}
    # the branch that asks the local membership predicate (a lambda over the set of characters) about the byte under the cursor
    # (the predicate may be a local lambda, a functor object or a helper: some callable other than the cursor's own accessors)
    def asks_predicate(t_):
        rs_ = t_.get("leafrefs") or t_.get("refs") or []
        return any(r.startswith("c:") and not r.startswith("c:" + CUR) for r in rs_)
    guards = [bl for bl in mu.blocks.values() if bl.term and bl.term.get("k") == "if" and not bl.term.get("cmp") and asks_predicate(bl.term) and
              (("c:" + CUR + "current") in (bl.term.get("refs") or []) or any(("v:" + v) in (bl.term.get("refs") or []) for v in cur_decl))]
    ok = bool(rts) and bool(guards) and all(any(cfg.edge_dominates(mu, g.id, 1 if g.term.get("neg") else 0, e) for g in guards) for e in rts)
    ck.ob("C03-R8", "match_until/post-condition", ok, mu.loc, mu, "`return true` only under find(<byte under the cursor>): on success the cursor stands on one of the characters asked for")
    sp = lib.StrictProgress(prog, CUR, READERS)
    for f in prog.funcs.values():
        if not in_parser(f) or f.base.startswith(CUR) or not lib.cursors_of(f) or not f.blocks:
            continue
        for hdr, body in cfg.natural_loops(f):
            hb = f.blocks[hdr]
            conds = [f.blocks[b].term for b in body if f.blocks[b].term]
            if not any(any(("c:" + r_) in (t.get("refs") or []) for r_ in READERS) for t in conds):
                continue
            back_kinds = {(f.blocks[b].term or {}).get("k") for b in body if (f.blocks[b].term or {}).get("k") == "do" and
                          len(f.blocks[b].succs) == 2 and f.blocks[b].succs[1] not in body}
            line = (hb.term or {}).get("l") or min([e.get("l") for b in body for e in f.blocks[b].elems if e.get("l")] or [0])
            ex = R8_EXEMPT.get((f.base, "do")) if "do" in back_kinds else None
            if ex:
                ck.note("C03-R8: %s do-while exempt: %s" % (f.base, ex))
                continue
            stuck, maybe = sp.check(f, hdr, body)
            if maybe and not stuck:
                ck.note("C03-R8: loop at %s:%s: strict progress not provable (path through an unmodelled branch or helper reaches line %s); lenient rule R7 applies"
                        % (f.file, line, maybe[0][1]))
            ck.ob("C03-R8", "%s/loop@%s" % (prog.owner(f).base.replace("Pistache::", ""), line), not stuck, "%s:%s" % (f.file, line), f,
                  ("no zero-progress iteration" if not maybe else "no definite zero-progress iteration (inconclusive paths: see notes)") if not stuck else
                  "an iteration of the loop at line %s can come back to the loop condition, be admitted again and reach line %s without any call "
                  "that definitely consumed input: on that input the same bytes are examined forever (and whatever the body appends grows without bound)"
                  % (line, stuck[0][1]))

    # a size taken from the message is checked for its sign before it is stored (a negative size turns into a huge unsigned count)
    cp = lib.single(prog, H + "Private::BodyStep::Chunk::parse")
    import re as _re
    stores = []
    # the routine that stores the parsed size: Chunk::parse or a private helper of the same class it was split into
    for g in lib.region(prog, cp, within=lambda g: g.cls and g.cls == cp.cls):
        locals_ = {d["var"] for d in g.events("decl") if d.get("var")}
        for a in g.events("assign"):
            if (a["lhs"].get("f") or "").endswith("Chunk::size") and a.get("const") is None:
                ids = [x for x in _re.findall(r"[A-Za-z_]\w*", a["rhs"].get("t") or "") if x in locals_]
                if ids:
                    stores.append((g, a, ids[-1]))
    ck.require(stores, "assignment of the parsed chunk size not found")
    stores2 = []
    for g, a, v in stores:
        # the size may come out of a helper that was expanded into this function (`const auto sz = readChunkSize(cursor); size = *sz;`):
        # the value that is stored is the local the helper returns
        d0 = [x for x in g.events("decl") if x.get("var") == v]
        if d0 and d0[0].get("icall") and d0[0].get("icall") not in ("strtol", "std::strtol", "strtoll", "std::strtoll"):
            short_ = strip_tmpl(d0[0]["icall"]).rsplit("::", 1)[-1]
            inner = [x for x in g.events("decl") if (x.get("var") or "").endswith("@" + short_) and (x.get("icall") or "") in ("strtol", "std::strtol", "strtoll", "std::strtoll")]
            rets_ = {(r_.get("t") or "").strip() for r_ in g.events("iret")}
            inner = [x for x in inner if x["var"].split("@")[0] in rets_]
            if inner:
                v = inner[0]["var"]
        stores2.append((g, a, v))
    stores = stores2
    for g, a, v in stores:
        # every way to the store has passed an edge on which `v < 0` is false (bail-out on negative), written either way round
        nonneg = [(b.id, k) for b in g.blocks.values() if b.term and len(b.succs) == 2 for k in (0, 1) if b.succs[k] is not None
                  and b.term.get("rconst") == 0 and lib.edge_establishes(b.term, k, v, (">=", ">"))]
        guarded = any(cfg.edge_dominates(g, bid, k, a) for bid, k in nonneg)
        d_ = [x for x in g.events("decl") if x.get("var") == v]
        signed = bool(d_) and (d_[0].get("icall") in ("strtol", "std::strtol", "strtoll", "std::strtoll"))
        ck.ob("C03-R6", "Chunk::parse/size-sign-checked", guarded and signed, a.loc, g,
              "`%s < 0` bails out before size = %s; converted with a signed conversion" % (v, v) if guarded and signed else
              "the parsed chunk size `%s` is stored without a sign check (converted by %s): a size line like -5 or 8000000000000000 becomes a "
              "negative size and then a huge unsigned count" % (v, d_[0].get("icall") if d_ else "?"))
        # ... and only when the conversion consumed something: the end pointer it was handed differs from where it started
        # (found by the mutation sweep: `end == start` turned into `end != start` survives the repository's tests, which never parse a
        # chunked message; every chunk-size line is then refused -- and one without digits is accepted as 0)
        conv = [c for c in g.events("call") if (c.get("callee") or "") in ("strtol", "std::strtol", "strtoll", "std::strtoll", "strtoul", "std::strtoul") and len(c.get("args") or []) >= 2]
        endv = None
        for c in conv:
            m_ = _re.match(r"^&\s*(\w+)$", (c["args"][1].get("t") or "").strip())
            if m_:
                # (inside an expanded helper the local carries the helper's name as a suffix: take the resolved root)
                endv = c["args"][1].get("root") or c["args"][1].get("v") or m_.group(1)
        # ... and the text that is converted ends at the line terminator: the conversion is reached on the edge on which eol() is true
        # (from the mutation sweep: the scan loop's condition negated survives the suite -- no test parses a chunked message)
        eolt = lib.result_edges(g, "Pistache::StreamCursor::eol", True)
        for c in conv[:1]:
            oke = bool(eolt) and any(cfg.edge_dominates(g, bid, k, c) for bid, k in eolt)
            ck.ob("C03-R6", "Chunk::parse/size-text-ends-at-CRLF", oke, c.loc, g,
                  "the size is converted on the edge on which cursor.eol() is true" if oke else
                  "the chunk-size text is converted on a path that does not know the cursor stands on the CRLF behind it: the token is cut "
                  "somewhere else and every size line is misread")
        if endv:
            moved = [(b.id, k) for b in g.blocks.values() if b.term and len(b.succs) == 2 for k in (0, 1) if b.succs[k] is not None
                     and lib.edge_establishes(b.term, k, endv, ("!=", ">"))]
            okm = any(cfg.edge_dominates(g, bid, k, a) for bid, k in moved)
            ck.ob("C03-R6", "Chunk::parse/size-stored-only-after-digits", okm, a.loc, g,
                  "size = %s only on an edge that knows `%s` has moved past the start of the text" % (v, endv) if okm else
                  "the parsed chunk size is stored on a path that does not know the conversion consumed a digit (`%s` != start): a size line "
                  "without hex digits is taken for 0 -- or, with the test inverted, every valid size line is refused" % endv)

    # ---------------- R6 ----------------
    nsd = 0
    for f in prog.funcs.values():
        if not f.file.endswith("/common/http.cc"):
            continue
        for e in f.calls(lambda e: (e.get("callee") or "") == CUR + "advance" or e.base_callee() == "std::basic_string::append"):
            args = e.get("args") or []
            a = args[-1] if args else {}
            t = (a.get("t") or "")
            ty = (a.get("ty") or "")
            if " - " not in t or "size_t" in ty or "unsigned" in ty:
                continue
            if ty not in ("ssize_t", "long", "int", "ptrdiff_t", "long long"):
                continue
            nsd += 1
            lhs, rhs = [x.strip() for x in t.split(" - ", 1)]
            ok = False
            for b in f.blocks.values():
                tt = b.term
                if not tt or tt.get("k") not in ("if", "land", "lor") or tt.get("cmp") not in ("<", "<=", ">", ">="):
                    continue
                l, r = (tt.get("lhs") or {}).get("t", ""), (tt.get("rhs") or {}).get("t", "")
                if {l, r} == {lhs, rhs} and b.id in cfg.dominators(f).get(e.block, ()):
                    ok = True
            ck.ob("C03-R6", "%s/%s(%s)" % (f.base.replace(H + "Private::", ""), e.base_callee().rsplit("::", 1)[1], t), ok, e.loc, f,
                  "operands ordered by a dominating test" if ok else
                  "`%s` is signed (%s) and becomes an unsigned count; nothing on the path establishes %s >= %s" % (t, ty, lhs, rhs))
    ck.note("C03-R6: %d signed differences used as counts" % nsd)

    # ---------------- R12: nothing declared noexcept can throw ----------------
    ck.rule("C03-R12", "F effect check over the call graph (exception specifications)",
            "no library function declared noexcept contains a throw expression or calls a library function that may reach one: an "
            "exception that arrives at a noexcept boundary calls std::terminate, so one malformed value would take the whole server "
            "down instead of being answered with an error (throws inside a try block of the function itself are not followed)", 20)
    summ12 = lib.Summaries(prog)
    is_thr = lambda e: e["k"] == "throw"
    n12 = 0
    for f in prog.library_funcs():
        if not (f.d.get("noexcept") and f.blocks) or f.is_lambda:
            continue
        n12 += 1
        has_try = any((b.term or {}).get("k") == "try" for b in f.blocks.values())
        m = False if has_try else summ12.may(f, is_thr, "throw-expression")
        ck.ob("C03-R12", "noexcept:%s@%s" % (f.base.replace("Pistache::", ""), f.line), not m, f.loc, f,
              "cannot reach a throw expression" if not m else
              "declared noexcept, but a throw expression is reachable from it: the exception cannot leave the function and std::terminate ends "
              "the process", structural=True)
    ck.require(n12 >= 20, "noexcept functions in the library: %d" % n12)

    # ---------------- facts shared with other properties ----------------
    ck.borrow("C05", ["C05-R4"], "C03-R9",
              "the response buffer is never written past its end: DynamicStreamBuf::overflow stores a byte only while data_.size() < maxSize_ "
              "and reserve() clamps to maxSize_ (an error reply that quotes the request can be as large as the request makes it)",
              key_pred=lambda k: k.startswith("DynamicStreamBuf::"), min_instances=2)
    ck.borrow("C01", ["C01-R2"], "C03-R10",
              "what a step stores into the message while it may still be rolled back and re-parsed does not accumulate: a header block "
              "delivered byte by byte re-runs the step once per byte, so an appending store retains memory far beyond the request size limit",
              min_instances=4)
    ck.borrow("C18", ["C18-R1"], "C03-R11",
              "the literal matchers compare only bytes that are there: match_raw / match_string test remaining() < len before memcmp / "
              "strncmp (all typed-header and media-type parsers go through them)",
              key_pred=lambda k: k.startswith("match_raw") or k.startswith("match_string"), min_instances=4)

    # ---------------- R13: a header class that overrides neither parse nor parseRaw recurses until the stack is gone ----------------
    ck.rule("C03-R13", "exhaustiveness over the class hierarchy + must-call on the resolved virtual implementations",
            "Header::parse and Header::parseRaw are defaults that call each other; in every class derived from Header virtual dispatch "
            "resolves at least one of them to an override that does not unconditionally call the other — otherwise parsing that header "
            "line (any value, any segmentation) never returns and the process dies of stack exhaustion", 10)
    cyc, ncls = lib.virtual_default_cycles(prog, "Pistache::Http::Header::Header")
    bad = {c: (ms, site) for c, ms, site in cyc}
    for sub in sorted(prog.subclasses("Pistache::Http::Header::Header")):
        if not any((x.get("file") or "").startswith(facts.REPO + "/include/") or (x.get("file") or "").startswith(facts.REPO + "/src/")
                   for x in prog.classes_named(strip_tmpl(sub))):
            continue
        b_ = bad.get(sub)
        ck.ob("C03-R13", "header:%s" % sub.replace("Pistache::Http::Header::", ""), b_ is None, (b_[1] if b_ else ""), sub,
              "parse / parseRaw resolve to an override" if b_ is None else
              "for %s the virtual methods %s resolve to implementations that call each other unconditionally: parsing this header never returns" % (sub, " <-> ".join(b_[0])),
              structural=True)

    # ---------------- R14: no pointer into the receive buffer outlives the buffer ----------------
    ck.rule("C03-R14", "C typestate (dangling pointer into the receive buffer)",
            "a pointer into the parser's receive buffer (StreamCursor::offset(), Token::rawText(), or what a library function returns "
            "from them) is not used after a call that releases or re-allocates that buffer -- the parser's reset() and feed(): the bytes it "
            "points to are freed (reset) or moved (growth), and reading them is a use after free", 1)
    PTR_SRC = {CUR + "offset", CUR + "Token::rawText"}
    INVAL = {H + "Private::ParserBase::reset", H + "Private::ParserImpl::reset", H + "Private::ParserBase::feed", "Pistache::ArrayStreamBuf::feed",
             "Pistache::ArrayStreamBuf::reset"}
    # library functions that hand such a pointer out (one level)
    giver = set()
    for g_ in prog.library_funcs():
        for r_ in g_.events("return"):
            if any(x_.startswith("c:") and strip_tmpl(x_[2:]) in PTR_SRC for x_ in (r_.get("refs") or [])):
                giver.add(g_.base)
    nptr = 0
    for f in prog.library_funcs():
        if not f.blocks:
            continue
        for d_ in f.events("decl"):
            refs_ = [strip_tmpl(x_[2:]) for x_ in (d_.get("refs") or []) if x_.startswith("c:")]
            if not d_.get("var") or not (set(refs_) & (PTR_SRC | giver)):
                continue
            # (a std::string built from the pointer owns its bytes: only pointer-like and pair/tuple/view locals carry the address on)
            ty_ = (d_.get("ctype") or d_.get("type") or "")
            if "basic_string<" in ty_ and "basic_string_view" not in ty_ and "pair" not in ty_ and "tuple" not in ty_:
                continue
            if not ("*" in ty_ or "pair" in ty_ or "tuple" in ty_ or "basic_string_view" in ty_ or ty_.strip() in ("auto", "const auto")):
                continue
            nptr += 1
            v_ = d_["var"]
            bad = None
            for iv in [e for e in cfg.events_after(f, d_) if e["k"] == "call" and strip_tmpl(e.get("callee") or "") in INVAL]:
                for u_ in cfg.events_after(f, iv):
                    if u_ is d_:
                        break       # the local is given a new value on the way round a loop
                    if ("v:" + v_) in (u_.get("refs") or []) or (u_.get("v") == v_ and u_["k"] == "use") or (u_.get("root") == v_ and u_["k"] in ("use", "member")):
                        bad = (iv, u_)
                        break
                if bad:
                    break
            ck.ob("C03-R14", "%s/%s" % (f.base.replace("Pistache::", ""), v_), bad is None, d_.loc, f,
                  "not used after a reset() / feed() of the buffer it points into" if bad is None else
                  "`%s` points into the receive buffer (line %s); %s at line %s releases or moves that buffer, and `%s` is used again at line %s"
                  % (v_, d_.get("l"), (bad[0].get("callee") or "").rsplit("::", 2)[-1], bad[0].get("l"), v_, bad[1].get("l")))
    ck.ob("C03-R14", "pointers-into-the-buffer", True, "", "", "%d local pointer(s) into the receive buffer followed; %d function(s) hand one out" % (nptr, len(giver)), nontrivial=False)

    # ---------------- facts shared with C14 ----------------
    ck.borrow("C14", ["C14-R1"], "C03-R15",
              "the size budget of a connection is a budget for the request: the limit test in ArrayStreamBuf::feed measures everything fed "
              "for the current message (the buffer's size, or a fill counter that only reset() takes back) and nothing removes bytes from "
              "the measured buffer between two feeds -- otherwise a request of any size is accepted piecewise and its body retained",
              min_instances=2)
    ck.borrow("C18", ["C18-R6"], "C03-R16",
              "nothing the value parsers see is kept beyond the call: no static, thread_local or namespace-scope container in the media-type "
              "parser's closure grows with what peers send (a memo keyed by the text of a header value is a store the peer fills, one "
              "distinct value per request, without any limit)", min_instances=2)

