"""C06 — queued writes reach the peer completely, in order and exactly once.

Decides the code shape that makes it possible (single FIFO path, lock discipline on the pending-write table, per-iteration
settle discipline, resume offset); does not decide the byte stream for all short-write patterns."""
import re
from .. import cfg, lib, facts
from ..facts import AnalysisBroken, strip_tmpl

T = "Pistache::Tcp::Transport::"
PEER_GONE = {9, 32, 104}  # EBADF, EPIPE, ECONNRESET

# Socket-writing syscalls are allowed only in these functions (server-side transport).  The experimental client has its own
# single-request sender (asyncSendRequestImpl) covered by C15; NotifyFd/eventfd writes are not socket writes.
WRITE_OWNERS = {T + "sendRawBuffer", T + "sendFile"}
WRITE_EXEMPT = {
    "Pistache::Http::Experimental::Transport::asyncSendRequestImpl": "client-side single-request sender (C15 scope)",
    "Pistache::NotifyFd::notify": "eventfd notification, not a peer socket",
    "Pistache::PollableQueue::push": "eventfd notification, not a peer socket",
    "Pistache::Polling::Epoll::Epoll": "not a socket write",
}


def _refs_of_arg(a, pname):
    t = a.get("t") or ""
    return ["v:" + pname] if pname in t.replace("offset_", "") else []


def _is_exact_param(a, pname):
    t = (a.get("t") or "").replace(" ", "")
    return t == pname or t in ("static_cast<off_t>(%s)" % pname, "off_t(%s)" % pname, "(off_t)%s" % pname, "static_cast<long>(%s)" % pname)


def run(ck):
    prog = ck.prog
    ck.rule("C06-R1", "D who-may-call / who-may-write",
            "send/sendfile/SSL_write happen only in Transport::sendRawBuffer/sendFile, called only by asyncWriteImpl; asyncWrite only "
            "enqueues into writesQueue; per-connection FIFOs grow only by push_back in handleWriteQueue (and the would-block re-queue "
            "push_front in asyncWriteImpl)", 6)
    ck.rule("C06-R2", "A lockset / guarded access (with synchronous-lambda context)",
            "every access to Transport::toWrite and to references derived from it (queue, head entry, its buffer) is under toWriteLock; "
            "nothing derived from the table is used after the lock is released", 8)
    ck.rule("C06-R3", "C path automaton (per-iteration settle discipline)",
            "in asyncWriteImpl the moved-out deferred of the head entry is consumed exactly once per iteration — resolved, rejected or "
            "moved into the re-queued entry — except on the peer-gone arm; resolve is dominated by totalWritten >= buffer.size() and "
            "carries totalWritten; the re-queued entry carries detach(totalWritten); totalWritten starts at buffer.offset() and advances "
            "by the bytes written", 5)

    ck.rule("C06-R4", "C all-returns shape",
            "BufferHolder::detach(offset) returns on every path a holder over the same data (the _raw member itself / the same fd with "
            "size_) whose recorded offset is exactly the offset argument, so a resumed write neither skips nor repeats bytes and is "
            "fulfilled with the full byte count", 2)
    for f in prog.find(T + "BufferHolder::detach", 1):
        cons = [e for e in f.events("construct") if strip_tmpl(e.get("cls") or "") == T.rstrip(":") + "::BufferHolder" and not e.get("copymove")]
        rets = [e for e in f.events("return")]
        ck.require(cons and rets, "BufferHolder::detach: constructs=%d returns=%d" % (len(cons), len(rets)))
        pname = f.params[0]["name"] if f.params else "offset"
        for e in cons:
            args = e.get("args") or []
            off_args = [a for a in args if ("v:" + pname) in _refs_of_arg(a, pname)]
            uses_member_off = any((a.get("f") or "").endswith("BufferHolder::offset_") or "offset_" in (a.get("t") or "") for a in args)
            exact = any(_is_exact_param(a, pname) for a in args)
            same_data = any((a.get("f") or "").endswith("BufferHolder::_raw") for a in args) or \
                (any((a.get("f") or "").endswith("BufferHolder::_fd") for a in args) and any((a.get("f") or "").endswith("BufferHolder::size_") for a in args))
            ck.ob("C06-R4", "detach/holder@%s" % ("raw" if any((a.get("f") or "").endswith("_raw") or "raw" in (a.get("t") or "").lower() for a in args) else "file"),
                  exact and not uses_member_off and same_data, e.loc, f,
                  "constructed from (%s): offset is the argument=%s, adds the old offset=%s, same data and full size=%s" % (
                      ", ".join(a.get("t") or "" for a in args), exact, uses_member_off, same_data))

    # ---------------- R1 ----------------
    nsys = 0
    for f in prog.library_funcs():
        for e in f.calls(lambda e: (e.get("callee") or "") in ("send", "sendfile", "SSL_write", "SSL_sendfile", "sendmsg", "sendto", "writev", "write")
                         and not (e.get("cfile") or "").startswith(facts.REPO)):
            base = f.base
            if base in WRITE_EXEMPT or (f.is_lambda and strip_tmpl(f.d.get("parentName") or "") in WRITE_EXEMPT):
                continue
            if base not in WRITE_OWNERS and lib.only_reached_from(prog, f, set(WRITE_EXEMPT)):
                continue        # a private piece of an exempt function (e.g. the eventfd notification of PollableQueue::push)
            if f.file.startswith(facts.VERIF):
                continue
            nsys += 1
            ck.ob("C06-R1", "syscall:%s in %s" % (e["callee"], base.replace(T, "")), base in WRITE_OWNERS, e.loc, f,
                  "socket write syscall %s" % ("inside the transport's writer" if base in WRITE_OWNERS else "outside sendRawBuffer/sendFile"))
    ck.require(nsys >= 2, "socket write syscalls not found (%d)" % nsys)
    for w in sorted(WRITE_OWNERS):
        sites = prog.call_sites(w)
        ck.require(sites, "no caller of %s" % w)
        for e in sites:
            ck.ob("C06-R1", "caller-of:%s" % w.replace(T, ""), lib.only_reached_from(prog, e.func, {T + "asyncWriteImpl"}), e.loc, e.func, "called from %s" % prog.owner(e.func).base)
    # asyncWrite only enqueues
    aw = prog.find(T + "asyncWrite", 1)
    for f in aw:
        lams = prog.lambdas_in(f)
        bodies = [f] + lams
        pushes = [e for g in bodies for e in g.calls(lambda e: e.base_callee() == "Pistache::PollableQueue::push" and strip_tmpl((e.get("recv") or {}).get("f") or "") == T + "writesQueue")]
        direct = [e for g in bodies for e in g.calls(lambda e: (e.get("callee") or "") in (T + "asyncWriteImpl", T + "sendRawBuffer", T + "sendFile", T + "handleWriteQueue"))]
        touch = [e for g in bodies for e in g.events("member") if strip_tmpl(e.get("f") or "") in (T + "toWrite", T + "peers", T + "timers")]
        ck.ob("C06-R1", "asyncWrite-only-enqueues", len(pushes) >= 1 and not direct and not touch, f.loc, f,
              "writesQueue.push x%d, direct writes %d, table accesses %d" % (len(pushes), len(direct), len(touch)))
    # ... and only asyncWrite does: the mailbox is the way *into* the worker.  A write the worker has already filed in a connection's
    # FIFO (a tail left by a would-block, say) that is sent through the mailbox again comes back behind everything queued for that
    # connection in the meantime: its bytes reach the peer out of order
    wq_pushers = [(e, g) for g in prog.flat_library_funcs() for e in g.calls(
        lambda e: e.base_callee() == "Pistache::PollableQueue::push" and strip_tmpl((e.get("recv") or {}).get("f") or "") == T + "writesQueue")]
    ck.require(wq_pushers, "no push into Transport::writesQueue found")
    for e, g in wq_pushers:
        own = prog.owner(g).base
        ck.ob("C06-R1", "writesQueue-filled-only-by-asyncWrite@%s" % own.replace(T, ""), own == T + "asyncWrite", e.loc, g,
              "pushed by asyncWrite" if own == T + "asyncWrite" else
              "%s pushes into the cross-thread mailbox: a write that is already in a connection's FIFO and goes through the mailbox again is "
              "appended behind later writes of the same connection" % own.replace("Pistache::", ""))
    # the loop thread drains the whole queue on every notification (the eventfd was consumed by the first pop): a write queued behind
    # one that is skipped must still be moved to its connection's FIFO
    hw = lib.single(prog, T + "handleWriteQueue")
    pops = [e for e in hw.calls(lambda e: strip_tmpl(e.get("callee") or "") == "Pistache::Queue::popSafe" and strip_tmpl((e.get("recv") or {}).get("f") or "") == T + "writesQueue")]
    ck.require(pops, "writesQueue.popSafe() not found in handleWriteQueue")
    for e in pops:
        okd, why = lib.drain_loop_check(hw, e)
        ck.require(okd is not None, "%s: %s" % (hw.base, why))
        ck.ob("C06-R1", "handleWriteQueue/drains-until-empty", okd, e.loc, hw, why)
    # growth of the per-connection FIFOs
    for f in prog.funcs.values():
        if not (f.base.startswith(T) or (f.is_lambda and (f.d.get("parentName") or "").startswith(T))):
            continue
        for e in f.calls(lambda e: e.base_callee() in ("std::deque::push_back", "std::deque::push_front", "std::deque::emplace_back", "std::deque::emplace_front",
                                                       "std::deque::insert", "std::deque::emplace")):
            if "WriteEntry" not in (e.get("callee") or ""):
                continue
            nm = e.base_callee().rsplit("::", 1)[1]
            if nm == "push_back":
                ok = lib.only_reached_from(prog, f, {T + "handleWriteQueue"})
            elif nm == "push_front":
                ok = lib.only_reached_from(prog, f, {T + "asyncWriteImpl"})
            else:
                ok = False
            ck.ob("C06-R1", "fifo-growth:%s in %s" % (nm, f.base.replace(T, "")), ok, e.loc, f, "%s on a WriteEntry deque" % nm)

    # ---------------- R2 ----------------
    LOCK = T + "toWriteLock"
    nacc = 0
    for f in [x for x in prog.funcs.values() if x.base.startswith(T) and not x.is_lambda]:
        lams = {l.name: l for l in prog.lambdas_in(f)}
        touches = [e for e in f.events("member") if strip_tmpl(e.get("f") or "") == T + "toWrite"]
        ltouch = [l for l in lams.values() if any(strip_tmpl(e.get("f") or "") == T + "toWrite" for e in l.events("member"))]
        if not touches and not ltouch:
            continue
        ls = lib.locksets(f, lam_unlocks=lib.lambda_unlocks(prog, f))
        # references derived from the table
        alias = set()       # (name, decl position): references / iterators into the table
        changed = True
        while changed:
            changed = False
            for d in f.events("decl"):
                init = d.get("init") or {}
                refs = d.get("refs") or []
                derived = ("f:" + T + "toWrite") in [strip_tmpl(r) for r in refs] or (init.get("root"), init.get("rootd")) in alias
                isref = d.get("type", "").rstrip().endswith("&") or "iterator" in d.get("type", "")
                if derived and isref and (d["var"], d.get("vd")) not in alias:
                    alias.add((d["var"], d.get("vd")))
                    changed = True
        for e in f.events():
            if e["k"] == "member" and strip_tmpl(e.get("f") or "") == T + "toWrite":
                nacc += 1
                ok = lib.holds(ls.get((e.block, e.idx)), LOCK, "this") or lib.caller_holds(prog, f, LOCK, "this")
                ck.ob("C06-R2", "toWrite@%s" % f.base.replace(T, ""), ok, e.loc, f, "under toWriteLock" if ok else "access to toWrite without toWriteLock")
            elif e["k"] == "use" and (e.get("v"), e.get("vd")) in alias:
                ok = lib.holds(ls.get((e.block, e.idx)), LOCK, "this") or lib.caller_holds(prog, f, LOCK, "this")
                ck.ob("C06-R2", "alias '%s'@%s" % (e["v"], f.base.replace(T, "")), ok, e.loc, f,
                      "under toWriteLock" if ok else "'%s' refers into toWrite but is used after the lock was released" % e["v"])
        # synchronous lambdas inherit the lock context of their call sites
        for lname, lf in lams.items():
            calls = [e for e in f.calls(lambda e: e.get("callee") == lname)]
            if not calls:
                continue
            ctxs = [ls.get((e.block, e.idx)) or [] for e in calls]
            common = None
            for sts in ctxs:
                for st in sts:
                    common = set(st) if common is None else (common & set(st))
            init = frozenset(common or ())
            lls = lib.locksets(lf, initial=init)
            for e in lf.events():
                if (e["k"] == "member" and strip_tmpl(e.get("f") or "") == T + "toWrite") or (e["k"] == "use" and (e.get("v"), e.get("vd")) in alias):
                    nacc += 1
                    ok = lib.holds(lls.get((e.block, e.idx)), LOCK, "this")
                    ck.ob("C06-R2", "%s@%s/lambda" % ("toWrite" if e["k"] == "member" else "alias '%s'" % e["v"], f.base.replace(T, "")), ok, e.loc, lf,
                          "under the caller's toWriteLock" if ok else "used after lock.unlock() / without the lock")
    ck.require(nacc >= 8, "only %d accesses to toWrite analysed" % nacc)

    lib.guard_release_rule(ck, "C06-R11", lambda f_: f_.file.endswith(("/common/transport.cc", "/pistache/transport.h")),
                           "toWriteLock is always given back (a drain pass that keeps it blocks every later write of the worker)", 3)

    # ---------------- R3 ----------------
    f = lib.single(prog, T + "asyncWriteImpl")
    dd = [d for d in f.events("decl") if d.get("var") and "Deferred" in d.get("type", "")]
    ck.require(len(dd) == 1, "moved-out deferred not found in asyncWriteImpl")
    dv = dd[0]["var"]
    gone_arms = set(lib.errno_arms(f, PEER_GONE))
    ck.require(gone_arms, "peer-gone arm (EBADF/EPIPE/ECONNRESET) not found")

    def consumption(ev):
        if ev["k"] == "call":
            rv = ev.get("recv") or {}
            nm = (ev.get("callee") or "").rsplit("::", 1)[-1]
            if rv.get("v") == dv and nm in ("resolve", "reject"):
                return nm
            if ev.base_callee() == "std::move" and ev.get("args") and ev["args"][0].get("v") == dv:
                return "move"
        return None
    problems = []

    def step(st, ev):
        n, gone = st
        c = consumption(ev)
        if c:
            return (min(n + 1, 2), gone)
        if ev["k"] == "dtor" and ev.get("var") == dv:
            if n != 1 and not gone:
                problems.append("iteration ending at line %s consumes the deferred %d time(s)" % (ev.get("l"), n))
            return None
        return st

    def edge(st, blk, k, succ):
        if succ in gone_arms:
            return (st[0], True)
        return st
    cfg.run_automaton(f, (0, False), step, edge=edge, start=dd[0].block, start_idx=dd[0].idx + 1)
    ck.ob("C06-R3", "asyncWriteImpl/deferred-consumed-once", not problems, dd[0].loc, f, "; ".join(sorted(set(problems))) or
          "resolve | reject | move-into-requeue exactly once on every iteration path; only the peer-gone arm drops it")
    # ... and no entry leaves the FIFO before its deferred has been taken out of it: a removal that is not dominated by the move-out
    # discards a queued write without settling it (the caller's promise is never settled, the bytes never reach the peer)
    dom3 = cfg.dominators(f)
    REMOVERS = ("pop_front", "pop_back", "erase", "clear")

    def fifo_removal(ev):
        if ev["k"] != "call":
            return False
        rv = ev.get("recv") or {}
        nm = (ev.get("callee") or "").rsplit("::", 1)[-1]
        return nm in REMOVERS and "WriteEntry" in ((rv.get("ty") or "") + (rv.get("rootT") or "") + (ev.get("callee") or "")) and "map<" not in (ev.get("callee") or "")
    early = []
    nrem = 0
    for ev in f.events("call"):
        if fifo_removal(ev):
            nrem += 1
            if not cfg.ev_dominates(dom3, dd[0], ev):
                early.append(ev)
        elif (ev.get("callee") or "").startswith("lambda@"):
            for lf in prog.resolve_call(ev):
                if lf.blocks and any(fifo_removal(x) for x in lf.events("call")):
                    nrem += 1
                    if not cfg.ev_dominates(dom3, dd[0], ev):
                        early.append(ev)
    ck.require(nrem >= 2, "asyncWriteImpl: removals from the per-connection FIFO found: %d" % nrem)
    ck.ob("C06-R3", "asyncWriteImpl/no-entry-dropped-unsettled", not early, (early[0].loc if early else dd[0].loc), f,
          "every removal from the FIFO happens after the head entry's deferred was moved out (and is then settled or re-queued)" if not early else
          "the removal at line %s is reachable before the head entry's deferred is taken out: that queued write is discarded, its promise never "
          "settled and its bytes never sent" % early[0].get("l"))
    # names are derived, not assumed: the progress variable is the local initialised from buffer.offset(); the per-call result is
    # the local assigned from the writer calls
    twd = [d for d in f.events("decl") if strip_tmpl(d.get("icall") or "") == T + "BufferHolder::offset"]
    ck.require(len(twd) == 1, "progress variable (initialised from buffer.offset()) not found in asyncWriteImpl")
    TW = twd[0]["var"]
    # writers: the two owners, and local lambdas of the drain routine that (only) wrap them
    summ = lib.Summaries(prog)
    is_owner_call = lambda e: e["k"] == "call" and e.get("callee") in WRITE_OWNERS
    wrappers = {}        # lambda id -> local variable name
    for lf in prog.lambdas_in(f):
        if summ.may(lf, is_owner_call, "owner-write"):
            lid = lf.id.split("#in:")[0]
            for d in f.events("decl"):
                if d.get("var") and lid.replace("lambda@", "") in (d.get("type") or ""):
                    wrappers[lid] = d["var"]
    # ... and private members of the transport, introduced after the rules were written, that wrap them
    for c_ in f.events("call"):
        for g_ in prog.resolve_call(c_):
            if prog.expandable(f, c_, g_) and not g_.is_lambda and summ.may(g_, is_owner_call, "owner-write"):
                wrappers[c_.get("callee")] = g_.base.rsplit("::", 1)[1]
    wnames = [w.rsplit("::", 1)[1] for w in WRITE_OWNERS] + list(wrappers.values())
    wcallees = set(WRITE_OWNERS) | set(wrappers)
    bwv = {a["lhs"].get("v") for a in f.events("assign") if a.get("op") == "=" and any(re.search(r"\b%s\(" % re.escape(w), a["rhs"].get("t") or "") for w in wnames)}
    bwv |= {d["var"] for d in f.events("decl") if d.get("var") and (d.get("icall") or "").split("#in:")[0] in wcallees}
    bwv.discard(None)
    ck.require(len(bwv) == 1, "result variable of the writer calls not found in asyncWriteImpl (%s)" % bwv)
    BW = bwv.pop()
    # resolve is reachable only through an edge that establishes totalWritten >= buffer.size() (written either way round, as the
    # taken arm of `>=`/`==` or the not-taken arm of `<`), and carries totalWritten
    dom = cfg.dominators(f)
    res = [e for e in f.events("call") if consumption(e) == "resolve"]
    ck.require(res, "deferred.resolve not found")
    is_size = lambda r: "size" in (r.get("t") or "")
    tests = [(b, k) for b in f.blocks.values() if b.term and len(b.succs) == 2 for k in (0, 1)
             if b.succs[k] is not None and lib.edge_establishes(b.term, k, TW, (">=", "=="), is_size)]
    for e in res:
        t_ok = any(cfg.edge_dominates(f, b.id, k, e) for b, k in tests)
        a_ok = bool(re.search(r"\b%s\b" % re.escape(TW), e["args"][0].get("t") or ""))
        ck.ob("C06-R3", "asyncWriteImpl/resolve-after-last-byte", t_ok and a_ok, e.loc, f, "dominated by totalWritten >= buffer.size(): %s; argument is totalWritten: %s" % (t_ok, a_ok))
    # re-queue carries the unwritten tail
    pf = [e for e in f.calls(lambda e: e.base_callee() == "std::deque::push_front")]
    ck.require(pf, "re-queue push_front not found")
    for e in pf:
        det = [d for d in f.events("decl") if strip_tmpl(d.get("icall") or "") == T + "BufferHolder::detach"]
        dcall = [c for c in f.calls(lambda c: c.get("callee") == T + "BufferHolder::detach")]
        inline = [c for c in dcall if c.block == e.block and c.idx < e.idx and (c.get("t") or "") in (e.get("t") or "")]
        if det:
            ok = bool(dcall) and (dcall[0]["args"][0].get("v") == TW) and bool(re.search(r"\b%s\b" % re.escape(det[0]["var"].split("@")[0]), e.get("t") or "")) and cfg.ev_dominates(dom, det[0], e)
        else:
            ok = bool(inline) and inline[0]["args"][0].get("v") == TW
        if not ok:
            # the entry is built as a local first (`WriteEntry tail(std::move(deferred), buffer.detach(totalWritten), fd, flags);`) and
            # then pushed: the local's constructor arguments are judged
            pv_ = (e.get("args") or [{}])[0]
            lv_ = pv_.get("v") or (pv_.get("moved") or {}).get("v") or pv_.get("root")
            ld_ = [d for d in f.events("decl") if d.get("var") == lv_ and "WriteEntry" in ((d.get("ctor") or "") + (d.get("type") or ""))]
            if ld_:
                ctxt = " ".join((a_.get("t") or "") for a_ in (ld_[0].get("cargs") or []))
                viadet = any(re.search(r"\b%s\b" % re.escape(d_["var"].split("@")[0]), ctxt) for d_ in det) or ("detach(" in ctxt and re.search(r"detach\(\s*%s\s*\)" % re.escape(TW), ctxt))
                ok = bool(viadet) and bool(dcall) and dcall[0]["args"][0].get("v") == TW and cfg.ev_dominates(dom, ld_[0], e)
        ck.ob("C06-R3", "asyncWriteImpl/requeue-carries-tail", ok, e.loc, f, "push_front(WriteEntry(move(deferred), %s = buffer.detach(totalWritten), flags))" % (det[0]["var"] if det else "buffer.detach(..)"))
    # progress accounting
    tw = twd
    adv = [a for a in f.events("assign") if (a["lhs"].get("v") == TW)]
    ok = len(tw) == 1 and strip_tmpl(tw[0].get("icall") or "") == T + "BufferHolder::offset" and len(adv) == 1 and adv[0].get("op") == "+=" and adv[0]["rhs"].get("v") == BW
    ok = ok and all(cfg.ev_dominates(dom, adv[0], b.elems[-1]) for b, _k in tests if b.elems)
    ck.ob("C06-R3", "asyncWriteImpl/progress-accounting", ok, tw[0].loc if tw else f.loc, f,
          "totalWritten = buffer.offset(); totalWritten += bytesWritten before the completion test" if ok else "progress accounting shape not recognised")
    # the pointer/offset handed to the writers is based on totalWritten (directly, or through the parameter of a wrapping lambda
    # every call of which passes totalWritten)
    def based_on(fn_, w, name):
        defs = {d["var"]: d for d in fn_.events("decl") if d.get("var")}
        pat = re.compile(r"\b%s\b" % re.escape(name))
        for a in w.get("args", []):
            if pat.search(a.get("t") or ""):
                return True
            d = defs.get(a.get("v"))
            if d is not None and pat.search(" ".join(d.get("refs") or []) + " " + ((d.get("init") or {}).get("t") or "")):
                return True
        return False
    nw = 0

    def stale_operand(fn_, w, name):
        """a local computed from `name` is handed to the writer although `name` was advanced since the local was computed"""
        pat = re.compile(r"\b%s\b" % re.escape(name))
        for a_ in w.get("args", []):
            dl = [d_ for d_ in fn_.events("decl") if d_.get("var") == a_.get("v") and a_.get("v")]
            if not dl or pat.search(a_.get("t") or ""):
                continue
            d_ = dl[0]
            if not pat.search(" ".join(d_.get("refs") or []) + " " + ((d_.get("init") or {}).get("t") or "")):
                continue
            for up in [x for x in fn_.events("assign") if (x.get("lhs") or {}).get("v") == name]:
                hit = []

                def st_(st, ev, d_=d_):
                    if ev is d_:
                        return None         # recomputed
                    if ev is w:
                        hit.append(ev)
                        return None
                    return st
                cfg.run_automaton(fn_, 0, st_, start=up.block, start_idx=up.idx + 1)
                if hit:
                    return "'%s' is computed from %s at line %s, %s is advanced at line %s, and the old '%s' is used again at line %s" % (
                        d_["var"], name, d_.get("l"), name, up.get("l"), d_["var"], w.get("l"))
        return None
    for w in f.calls(lambda e: e.get("callee") in WRITE_OWNERS):
        nw += 1
        args = " ".join(a.get("t") or "" for a in w.get("args", []))
        stale = stale_operand(f, w, TW)
        ck.ob("C06-R3", "asyncWriteImpl/%s-starts-at-totalWritten" % w["callee"].replace(T, ""), based_on(f, w, TW) and not stale, w.loc, f,
              "arguments: %s" % args if not stale else "the resume position is stale: %s — after a short write the same bytes are sent again" % stale)
    for lf in prog.lambdas_in(f):
        lid = lf.id.split("#in:")[0]
        for w in lf.calls(lambda e: e.get("callee") in WRITE_OWNERS):
            nw += 1
            args = " ".join(a.get("t") or "" for a in w.get("args", []))
            ok = False
            for i, p_ in enumerate(lf.params):
                if based_on(lf, w, p_["name"]):
                    sites = [c for c in f.calls(lambda c: (c.get("callee") or "").split("#in:")[0] == lid)]
                    ok = bool(sites) and all(len(c.get("args", [])) > i and c["args"][i].get("v") == TW for c in sites)
            # captured by reference: the lambda names totalWritten itself
            ok = ok or based_on(lf, w, TW)
            ck.ob("C06-R3", "asyncWriteImpl/%s-starts-at-totalWritten" % w["callee"].replace(T, ""), ok, w.loc, lf, "arguments: %s (inside a local lambda)" % args)
    ck.require(nw >= 2, "writer calls of the drain routine: %d found" % nw)

    # ---------------- R7: one transmitting call per invocation, its result returned ----------------
    ck.rule("C06-R7", "C loop-freedom + all-returns",
            "Transport::sendRawBuffer and Transport::sendFile issue at most one transmitting call (send / sendfile / SSL_write / "
            "SSL_sendfile) per invocation and return its result: asyncWriteImpl keeps the offset, so bytes a call has put on the wire "
            "must be reported before anything else can fail -- a helper that loops and then returns the -1 of a later would-block makes "
            "the caller re-queue and send those bytes a second time", 2)
    TXC = ("send", "sendfile", "SSL_write", "SSL_sendfile", "sendmsg", "sendto", "writev", "write")
    for nm in ("sendRawBuffer", "sendFile"):
        f7 = lib.single(prog, T + nm)
        tx7 = [e for e in f7.calls(lambda e: (e.get("callee") or "") in TXC)]
        ck.require(tx7, "no transmitting call found in Transport::%s" % nm)
        loops7 = cfg.natural_loops(f7)
        inloop = [e for e in tx7 if cfg.innermost_loop(f7, e.block, loops7) is not None]
        # more than one on a path
        def cnt(st, ev):
            return min(st + 1, 2) if any(ev is x for x in tx7) else st
        ex7, _ = cfg.run_automaton(f7, 0, cnt)
        many = [x for x in ex7 if x.kind != "throw" and x.state > 1]
        ck.ob("C06-R7", "%s/one-transmitting-call" % nm, not inloop and not many, (inloop or tx7)[0].loc, f7,
              "one %s per invocation" % "/".join(sorted({e["callee"] for e in tx7})) if not inloop and not many else
              "%s is called %s: progress made before a later call fails or would block is not reported to the caller, which re-sends it"
              % (tx7[0]["callee"], "in a loop" if inloop else "more than once on a path"))

    # ---------------- facts shared with C13 ----------------
    ck.borrow("C13", ["C13-R1", "C13-R2"], "C06-R5",
              "writes queued from other threads travel through a PollableQueue: push links the entry with one atomic exchange and then "
              "signals the eventfd unconditionally; pop drains the eventfd before it looks at the queue -- otherwise a queued write can "
              "stay behind with its wake-up consumed and never reach the peer", min_instances=3)

    # ---------------- facts shared with C08 ----------------
    ck.borrow("C08", ["C08-R2"], "C06-R6",
              "what is still queued for a connection is dropped when the connection is released (removePeer erases toWrite[fd], for the same "
              "descriptor it closes): otherwise the next connection that is given the descriptor number is sent the old bytes first and the old "
              "promises are settled for the wrong peer",
              key_pred=lambda k: k in ("removePeer/toWrite.erase-once", "removePeer/same-descriptor"), min_instances=2)

    # ---------------- facts shared with C07 ----------------
    ck.borrow("C07", ["C07-R3"], "C06-R8",
              "a write that was parked by a would-block is resumed: nothing after the drain pass of the writable arm of onReady takes the "
              "write interest away again that the would-block arm has just armed -- otherwise the unsent tail and everything queued behind "
              "it never reach the peer", key_pred=lambda k: k.startswith("onReady/"), min_instances=2)

    # ---------------- R9: who may take something out of the pending-write table ----------------
    # ---------------- R12: a write taken from the mailbox is filed ----------------
    ck.rule("C06-R12", "C must-pass-through",
            "in Transport::handleWriteQueue a write popped from the mailbox whose connection is alive (the isPeerFd edge) is put into that "
            "connection's FIFO on every path to the next iteration: a second way round the push (no queue found for the descriptor, a "
            "limit reached) drops the write silently -- never sent, its promise never settled", 1)
    hw12 = lib.single(prog, T + "handleWriteQueue")
    live = lib.result_edges(hw12, T + "isPeerFd", True)
    ck.require(live, "handleWriteQueue: no test of isPeerFd found")
    push12 = lambda e: e["k"] == "call" and e.base_callee() in ("std::deque::push_back", "std::deque::emplace_back", "std::deque::push_front") and "WriteEntry" in (e.get("callee") or "")
    heads12 = {h for h, _b in cfg.natural_loops(hw12)}
    lost12 = []
    for bid, k in live:
        def st12(st, ev):
            return None if push12(ev) else st

        def ed12(st, blk, kk, succ):
            if succ in heads12:
                lost12.append(blk)
                return None
            return st
        ex12, _ = cfg.run_automaton(hw12, 0, st12, edge=ed12, start=hw12.blocks[bid].succs[k])
        lost12 += [x for x in ex12 if x.kind != "throw"]
    ck.ob("C06-R12", "handleWriteQueue/live-peer-write-is-filed", not lost12, hw12.loc, hw12,
          "every path from the isPeerFd edge passes the push into the connection's FIFO" if not lost12 else
          "a write for a live connection can go round the push into toWrite[fd] (next iteration or return reached without it): it is dropped")

    ck.rule("C06-R9", "D who-may-write (removing operations)",
            "entries leave Transport::toWrite only where the write they stand for has been dealt with: the drain routine (asyncWriteImpl and "
            "its clean-up lambda: fully sent, or failed and rejected) and the release path (removePeer). erase / clear / pop / assignment of "
            "the table, of a queue in it, or of an alias of either anywhere else drops bytes that were queued for the peer and leaves their "
            "promises unsettled -- whatever lock is held", 3)
    REMOVERS = ("erase", "clear", "pop_front", "pop_back", "swap", "operator=", "assign", "resize", "shrink_to_fit", "extract")
    OWNERS = (T + "asyncWriteImpl", T + "removePeer")
    for f in prog.funcs.values():
        if not (f.file.endswith("/common/transport.cc") or f.file.endswith("/pistache/transport.h")):
            continue
        alias = {d["var"] for d in f.events("decl") if ("f:" + T + "toWrite") in [strip_tmpl(r) for r in (d.get("refs") or [])]}
        for e in f.events("call"):
            nm = strip_tmpl(e.get("callee") or "").rsplit("::", 1)[-1]
            if nm not in REMOVERS:
                continue
            rv = e.get("recv") or {}
            into = strip_tmpl(rv.get("f") or "") == T + "toWrite" or "toWrite" in (rv.get("t") or "") or \
                (rv.get("root") in alias and rv.get("root") is not None) or (rv.get("v") in alias and rv.get("v") is not None)
            if not into:
                continue
            own = prog.owner(f)
            # (the owners themselves, lambdas written in them, and helpers all of whose call sites lie in them)
            ok = own.base in OWNERS or lib.only_reached_from(prog, own, OWNERS)
            ck.ob("C06-R9", "%s: %s" % ((own.base if own.base in OWNERS else "helper").replace(T, ""), nm) if ok else "%s: %s" % (own.base.replace(T, ""), nm), ok, e.loc, f,
                  "in the drain routine / the release path" if ok else
                  "`%s` in %s removes pending writes outside the drain routine and the release path: the bytes never reach the peer and their promises are never settled"
                  % ((e.get("t") or "")[:60], own.name))

    ck.borrow("C07", ["C07-R3"], "C06-R10",
              "a request to (re-)arm a descriptor always reaches epoll_ctl: the write interest that resumes a parked write is re-reported by "
              "the kernel only because of that call, so everything queued on the connection depends on it",
              key_pred=lambda k: k.startswith("Epoll::"), min_instances=3)
