"""C01 — HTTP message parsing does not depend on how the bytes are segmented.

Decides the integrity of the four anchored mechanisms on all paths (roll-back discipline, idempotent re-parse, incremental
body counters, re-base after growth) plus two exhaustion rules; does not decide equality of the parsed message over all cuts."""
import re
from .. import cfg, lib, facts
from ..facts import AnalysisBroken, strip_tmpl

H = "Pistache::Http::"
PR = H + "Private::"
CUR = "Pistache::StreamCursor::"
CONSUMERS = {CUR + "advance", "Pistache::match_raw", "Pistache::match_string", "Pistache::match_literal", "Pistache::match_until",
             "Pistache::match_double", "Pistache::skip_whitespaces"}
# matchers that report `false` both for a mismatch and for input that ended too early (verified below from their bodies)
SHORT_INPUT_FALSE = ["Pistache::match_raw", "Pistache::match_string", "Pistache::match_literal", "Pistache::match_until"]
INCREMENTAL = {PR + "BodyStep::apply"}
MSG_CLASSES = [H + "Message", H + "Request", H + "Response"]
IDEMPOTENT_HOW = {"assign", "whole", "init", "alias-assign", "call:insert", "call:clear", "call:erase", "call:operator=", "call:swap", "call:reserve", "call:reset"}


def again(ev):
    return ev["k"] == "return" and ev.get("const") == "e:" + PR + "State::Again"


def nxt(ev):
    return ev["k"] == "return" and ev.get("const") == "e:" + PR + "State::Next"


def run(ck):
    prog = ck.prog
    ck.rule("C01-R1", "C path automaton (roll-back discipline)",
            "every revert-guarded Step::apply constructs its function-level StreamCursor::Revert before consuming input, never returns "
            "State::Again after revert.ignore() and never returns State::Next without it", 3)
    ck.rule("C01-R2", "E/I idempotent re-parse",
            "everything a revert-guarded step does to the message is re-executed after a roll-back, so each reachable write to "
            "Message/Request/Response state (headers, raw headers, cookies, query, method, resource, version, code) is an assignment or a "
            "keyed insert/clear — no append, push_back, += or counter increment outside the incremental body step", 8)
    ck.rule("C01-R3", "C path automaton (incremental body counters)",
            "BodyStep::parseContentLength / Chunk::parse: an Again/Incomplete return after body_.append is preceded by an advance of the "
            "routine's progress counter on the same path; a progress counter is cleared only where no further append or Again/Incomplete "
            "follows (the Done path), or when a new chunk begins; the chunk-size line is revert-guarded; parseTransferEncoding resets the "
            "chunk after Complete/Final", 6)
    ck.rule("C01-R4", "C ordering (re-base after growth)",
            "ArrayStreamBuf::feed saves the read offset before the buffer grows and, on every `return true` path, calls setg with "
            "bytes.data()-based pointers and that offset after the last growth", 1)
    ck.rule("C01-R5", "C path automaton (no mutation at end of input)",
            "in a revert-guarded step no message write and no State::Next is reachable after the input may have been exhausted without "
            "returning State::Again — i.e. after an eof()-true exit of a scan loop or a cursor.advance() whose failure is ignored", 3)
    ck.rule("C01-R6", "C path automaton (segmentation-independent errors)",
            "in a revert-guarded step an error is raised on the failure edge of a matcher that also fails on short input only after the "
            "step has established that enough input is buffered (otherwise the same bytes give an error or a success depending on the cut)", 2)

    steps = prog.overriders(PR + "Step::apply")
    ck.require(len(steps) >= 4, "Step::apply overrides: %d" % len(steps))
    guarded = [f for f in steps if f.base not in INCREMENTAL]
    ck.require(len(guarded) >= 3, "revert-guarded steps: %d" % len(guarded))
    raise_fn = PR + "Step::raise"
    ck.require(cfg.always_throws(lib.single(prog, raise_fn)), "Step::raise no longer throws on every path")

    def is_raise(ev):
        return ev["k"] == "call" and (ev.get("callee") or "") == raise_fn

    # message-state fields
    msg_fields = set()
    for c in MSG_CLASSES:
        msg_fields |= lib.whole_object_cover(prog, c)
    ck.require(len(msg_fields) > 8, "message fields found: %d" % len(msg_fields))

    for f in guarded:
        short = f.base.replace(PR, "")
        guards = [d for d in f.events("decl") if strip_tmpl(d.get("ctor") or "") == CUR + "Revert"]
        dom = cfg.dominators(f)
        cons = [e for e in f.calls(lambda e: (e.get("callee") or "") in CONSUMERS)]
        outer = [g for g in guards if all(cfg.ev_dominates(dom, g, c) for c in cons)]
        ck.ob("C01-R1", "%s/guard-before-consume" % short, bool(outer) and bool(cons), f.loc, f,
              "Revert '%s' dominates all %d consuming calls" % (outer[0]["var"] if outer else "?", len(cons)))
        if not outer:
            continue
        gv = outer[0]["var"]
        problems = []

        def step(st, ev):
            if ev["k"] == "call" and (ev.get("callee") or "") == CUR + "Revert::ignore" and (ev.get("recv") or {}).get("v") == gv:
                return True
            if again(ev) and st:
                problems.append("State::Again at line %s after %s.ignore(): consumed input is lost" % (ev.get("l"), gv))
            if nxt(ev) and not st:
                problems.append("State::Next at line %s without %s.ignore(): the cursor rolls back and the step is parsed again" % (ev.get("l"), gv))
            return st
        cfg.run_automaton(f, False, step, start=outer[0].block, start_idx=outer[0].idx + 1)
        ck.ob("C01-R1", "%s/again-next-discipline" % short, not problems, f.loc, f, "; ".join(sorted(set(problems))) or "Again only before ignore(), Next only after it")

        # ---- R2 ----
        w, reach = lib.transitive_writes(prog, [f], stop=lambda e: (e.get("callee") or "").endswith("::parseRaw") or (e.get("callee") or "").endswith("::parse"))
        for fld in sorted(w):
            if fld not in msg_fields:
                continue
            for how, ev, chain in w[fld]:
                # re-executing a keyed store does not accumulate (map/set insert, emplace, operator[] ...); appending to a sequence does
                ok = how in IDEMPOTENT_HOW or (how.startswith("call:") and ev["k"] == "call" and lib.is_unique_assoc_call(ev) and
                                               how[5:] in ("emplace", "try_emplace", "emplace_hint", "insert_or_assign", "operator[]", "insert"))
                if how == "call:insert" and ev["k"] == "call" and not lib.is_unique_assoc_call(ev) and strip_tmpl(ev.get("callee") or "").startswith("std::"):
                    ok = False      # insert into a sequence container or a multimap / multiset accumulates
                ck.ob("C01-R2", "%s: %s %s" % (short, fld.replace(H, ""), how), ok, ev.loc, ev.func,
                      "idempotent under re-parse" if ok else
                      ("a stored value is replaced by one computed from itself (%s): every re-parse after a roll-back applies it again" % (ev.get("t") or "")[:60]
                       if how == "alias-assign-self" else "%s on message state is repeated after every roll-back (accumulates across re-parses)" % how), path=chain)

        # ---- R5 ----
        def writes_msg(ev):
            k = ev["k"]
            if k == "assign" and (ev["lhs"].get("f") in msg_fields):
                return True
            if k == "call":
                rv = ev.get("recv") or {}
                if rv.get("f") in msg_fields and not (ev.get("cid") or "").rstrip().endswith(" const"):
                    return True
            return False
        # events after which the input may be exhausted: eof()-true edges, ignored advance() results
        tested = set()
        for b in f.blocks.values():
            t = b.term
            if t and "c:" + CUR + "advance" in (t.get("refs") or []):
                for e in b.elems:
                    if e["k"] == "call" and (e.get("callee") or "") == CUR + "advance":
                        tested.add(id(e))
        # advance() calls whose value feeds a declaration / return are also "used"
        eof_edges = set()
        for b in f.blocks.values():
            t = b.term
            if t and t.get("k") in ("if", "while", "for", "land", "lor", "do") and (t.get("core") or {}).get("t", "").endswith(".eof()") and not t.get("cmp"):
                eof_edges.add((b.id, 1 if t.get("neg") else 0))
        probs5 = []

        def step5(st, ev):
            if ev["k"] == "call" and (ev.get("callee") or "") == CUR + "advance" and id(ev) not in tested:
                return "exhausted?"
            if st == "exhausted?":
                if again(ev) or is_raise(ev) or ev["k"] == "throw":
                    return None
                if writes_msg(ev):
                    probs5.append("message write `%s` at line %s is reachable after the input may have ended (no State::Again in between): a cut "
                                  "there stores a truncated value that the re-parse cannot replace" % ((ev.get("t") or "")[:60], ev.get("l")))
                    return None
                if nxt(ev):
                    probs5.append("State::Next at line %s is reachable after the input may have ended" % ev.get("l"))
                    return None
            return st

        def edge5(st, blk, k, succ):
            if (blk.id, k) in eof_edges:
                # `if (cursor.eof()) return Again` style: handled by the step function when the return is seen
                return "exhausted?"
            # a successful bounds test re-establishes that input is available
            t = blk.term or {}
            if st == "exhausted?" and "c:" + CUR + "advance" in (t.get("refs") or []) and k == (1 if t.get("neg") else 0):
                return "ok"
            return st
        cfg.run_automaton(f, "ok", step5, edge=edge5)
        ck.ob("C01-R5", "%s/no-write-after-exhaustion" % short, not probs5, f.loc, f, "; ".join(sorted(set(probs5))[:3]) or
              "every eof exit / unchecked advance is followed by Again (or an error) before any message write or Next")

        # ---- R6 ----
        probs6 = []
        for b in f.blocks.values():
            t = b.term
            if not t or t.get("k") not in ("if", "land", "lor"):
                continue
            m = [r[2:] for r in (t.get("refs") or []) if r.startswith("c:") and r[2:] in SHORT_INPUT_FALSE]
            if not m or t.get("cmp"):
                continue
            fail_k = 0 if t.get("neg") else 1
            start = b.succs[fail_k]
            if start is None:
                continue
            # from the failure edge: reach raise() without Again and without another (successful) matcher / bounds test?
            hits = []

            def step6(st, ev):
                if again(ev):
                    return None
                if is_raise(ev):
                    hits.append(ev)
                    return None
                if ev["k"] == "call" and (ev.get("callee") or "") in (CUR + "eof", CUR + "remaining", CUR + "advance"):
                    return None     # the step looks at how much input is left before deciding
                return st

            def edge6(st, blk, k, succ):
                tt = blk.term or {}
                mm = [r for r in (tt.get("refs") or []) if r.startswith("c:") and r[2:] in SHORT_INPUT_FALSE]
                if mm and k == (1 if tt.get("neg") else 0):
                    return None     # another alternative matched
                return st
            cfg.run_automaton(f, 0, step6, edge=edge6, start=start)
            # was enough input established before the matcher?  (a dominating remaining()/eof() bail-out)
            bail = [x for x in f.blocks.values() if x.term and ("c:" + CUR + "remaining" in (x.term.get("refs") or []) or "c:" + CUR + "eof" in (x.term.get("refs") or []))
                    and x.id in dom.get(b.id, ()) and x.id != b.id]
            if hits and not bail:
                probs6.append("%s fails on short input as well as on a mismatch, and its failure at line %s leads to raise() at line %s without "
                              "checking how much input is buffered" % (m[0].replace("Pistache::", ""), t.get("l"), hits[0].get("l")))
        # a decision on cursor.current() that can end in raise() must know that a character is there: current() yields a sentinel at
        # the end of the buffer, so either the same condition tests it against Eof, or an eof()/remaining() test with no consuming
        # call in between dominates it
        for b in f.blocks.values():
            t = b.term
            if not t or t.get("k") not in ("if", "land", "lor", "while") or ("c:" + CUR + "current") not in (t.get("refs") or []):
                continue
            if "Eof" in (t.get("cond") or ""):
                continue
            # does some arm reach raise() before Again / another consume?
            hits = []
            for k, s_ in enumerate(b.succs):
                if s_ is None:
                    continue

                def step6b(st, ev):
                    if again(ev) or (ev["k"] == "call" and (ev.get("callee") or "") in CONSUMERS):
                        return None
                    if is_raise(ev):
                        hits.append(ev)
                        return None
                    return st
                cfg.run_automaton(f, 0, step6b, start=s_)
            if not hits:
                continue
            guarded = False
            for e_ in f.blocks.values():
                te = e_.term
                if not te or ("c:" + CUR + "eof") not in (te.get("refs") or []) and ("c:" + CUR + "remaining") not in (te.get("refs") or []):
                    continue
                if e_.id not in dom.get(b.id, ()) or e_.id == b.id:
                    continue
                # region between the test and the decision is free of consuming calls
                seen_, work_, clean = set(), [x for x in e_.succs if x is not None], True
                while work_:
                    x = work_.pop()
                    if x in seen_ or x == b.id or x not in f.blocks:
                        continue
                    seen_.add(x)
                    if b.id not in cfg.reachable_blocks(f, x):
                        continue
                    if any(ev["k"] == "call" and (ev.get("callee") or "") in CONSUMERS for ev in f.blocks[x].elems):
                        clean = False
                    work_.extend(y for y in f.blocks[x].succs if y is not None)
                if clean and not any(ev["k"] == "call" and (ev.get("callee") or "") in CONSUMERS for ev in b.elems):
                    guarded = True
            if not guarded:
                probs6.append("the test `%s` at line %s reads cursor.current() without knowing that a character is buffered (no Eof / eof() test since "
                              "the last consume) and can end in raise() at line %s: a read that ends exactly there turns a valid message into an error"
                              % ((t.get("cond") or "")[:50], t.get("l"), hits[0].get("l")))
        ck.ob("C01-R6", "%s/errors-independent-of-cut" % short, not probs6, f.loc, f, "; ".join(sorted(set(probs6))[:2]) or
              "no error is raised on a matcher failure that a longer read could turn into a match")

    # R6 (look-ahead): StreamCursor::eol() needs two buffered bytes and answers false when they have not all arrived.  In the
    # incremental parser code a "not at end of line" answer may therefore only lead on to something that copes with exhausted input
    # (advance, another look at eof()/remaining(), "need more data", an error) -- never straight to a return that completes the
    # message or the chunk: the verdict would depend on whether the CRLF was in the same read
    def completes(ev):
        if ev["k"] != "return" or again(ev):
            return False
        c_ = ev.get("const")
        if isinstance(c_, str) and c_.startswith("e:"):
            return c_.rsplit("::", 1)[-1] in ("Done", "Next", "Final", "Complete")
        return False
    nla = 0
    for f in prog.funcs.values():
        if not f.file.endswith("/common/http.cc") or not f.blocks or not [p_ for p_ in f.params if "StreamCursor" in p_["type"]]:
            continue
        fdom = cfg.dominators(f)
        for b in f.blocks.values():
            t = b.term
            if not t or len(b.succs) != 2 or t.get("cmp") or ("c:" + CUR + "eol") not in (t.get("leafrefs") or t.get("refs") or []):
                continue
            k_not = 0 if t.get("neg") else 1        # the edge on which eol() answered false
            start = b.succs[k_not]
            if start is None:
                continue
            nla += 1
            hits = []

            def step_la(st, ev):
                if again(ev) or is_raise(ev) or ev["k"] == "throw":
                    return None
                if ev["k"] == "return" and (ev.get("const") is False or (isinstance(ev.get("const"), str) and ev["const"].endswith("::Incomplete"))):
                    return None
                if ev["k"] == "call" and (ev.get("callee") or "") in (CUR + "advance", CUR + "eof", CUR + "remaining"):
                    return None
                if completes(ev):
                    hits.append(ev)
                    return None
                return st
            cfg.run_automaton(f, 0, step_la, start=start)
            # two bytes known to be buffered: a dominating remaining() bail-out with no consuming call in between
            avail = False
            for x in f.blocks.values():
                if x.term and ("c:" + CUR + "remaining") in (x.term.get("refs") or []) and x.id in fdom.get(b.id, ()) and x.id != b.id:
                    between = [e_ for e_ in cfg.events_from_block(f, x.id) if e_["k"] == "call" and (e_.get("callee") or "") in CONSUMERS and
                               any(e2 is b.elems[-1] for e2 in cfg.events_after(f, e_))] if b.elems else []
                    if not between:
                        avail = True
            ok_la = not hits or avail
            ck.ob("C01-R6", "%s/eol-lookahead@%s" % (f.base.replace(PR, ""), t.get("l")), ok_la, "%s:%s" % (f.file, t.get("l")), f,
                  "a 'not at end of line' answer leads on to advance / a bounds test / need-more-data / an error" if ok_la else
                  "`%s` answers false both for other bytes and for a CRLF that has not arrived yet, and that answer leads straight to the "
                  "completing return at line %s: whether the message is complete depends on where the read ended" % ((t.get("cond") or "")[:40], hits[0].get("l")))
    ck.require(nla >= 3, "eol() look-ahead decisions found in the parser: %d" % nla)

    # premise of R6: the listed matchers do return false on short input
    for mname in SHORT_INPUT_FALSE:
        for mf in prog.by_base.get(mname, []):
            has = any(b.term and ("c:" + CUR + "remaining" in (b.term.get("refs") or []) or "c:" + CUR + "eof" in (b.term.get("refs") or [])) for b in mf.blocks.values()) or \
                any((e.get("callee") or "") in SHORT_INPUT_FALSE for e in mf.events("call"))
            ck.ob("C01-R6", "premise:%s-fails-on-short-input" % mname.replace("Pistache::", ""), has, mf.loc, mf, "bails out on remaining()/eof()", nontrivial=False)

    # ---------------- R3 ----------------
    BODY = H + "Message::body_"

    def is_append(ev):
        return ev["k"] == "call" and ev.base_callee() in ("std::basic_string::append", "std::basic_string::operator+=", "std::basic_string::push_back") \
            and (ev.get("recv") or {}).get("f") == BODY

    def counter_rules(fn, counters, incomplete, done_pred, lam_of=None, new_region_edges=()):
        """counters: field names; incomplete(ev)/done_pred(ev): classify returns."""
        bodies = [fn] + (prog.lambdas_in(fn) if lam_of else [])
        if new_region_edges:
            # private helpers of the same class the routine was split into
            bodies += [g for g in lib.region(prog, fn, within=lambda g: g.cls == fn.cls and g.cls) if g.id != fn.id and g not in bodies]
        for body in bodies:
            for cname in counters:
                adv = [e for e in body.events("assign") if (e["lhs"].get("f") or "").endswith("::" + cname) and e.get("op") in ("+=",)]
                clr = [e for e in body.events("assign") if (e["lhs"].get("f") or "").endswith("::" + cname) and e.get("op") == "=" and e.get("const") == 0]
                apps = [e for e in body.events("call") if is_append(e)]
                if not apps and not clr:
                    continue
                # (i) incomplete return after append => counter advanced in between
                for a in apps:
                    bad = []

                    def st1(st, ev):
                        if any(ev is x for x in adv):
                            return None
                        if incomplete(ev, body):
                            bad.append(ev)
                            return None
                        if ev["k"] == "return":
                            return None
                        return st
                    cfg.run_automaton(body, 0, st1, start=a.block, start_idx=a.idx + 1)
                    key = "%s%s/%s-advanced-after-append@%s" % (fn.base.replace(PR, ""), "/lambda" if body.is_lambda else "", cname, "short" if bad else "x")
                    ck.ob("C01-R3", "%s%s/%s-advanced-after-append" % (fn.base.replace(PR, ""), "/lambda" if body.is_lambda else "", cname), not bad, a.loc, body,
                          "no 'need more data' return after the append without `%s += n`" % cname if not bad else
                          "returns 'need more data' at line %s after appending to the body without advancing %s: the same bytes are expected again" % (bad[0].get("l"), cname))
                # (ii) clear only where nothing more is appended / no Again follows
                for c in clr:
                    if new_region_edges and lib.guard_dominates(prog, c, lambda g: new_region_edges if g.id == fn.id else []):
                        ck.ob("C01-R3", "%s/%s-cleared-at-new-chunk" % (fn.base.replace(PR, ""), cname), True, c.loc, body, "initialised when a new chunk starts")
                        continue
                    later = cfg.events_after(body, c, stop=lambda e: e["k"] == "return")
                    bad2 = [e for e in later if is_append(e) or incomplete(e, body) or (e["k"] == "call" and (e.get("callee") or "").startswith("lambda@") and
                            any(is_append(x) for lf in prog.lambda_by_id(e["callee"], body) for x in lf.events("call")))]
                    ck.ob("C01-R3", "%s/%s-cleared-only-when-done" % (fn.base.replace(PR, ""), cname), not bad2, c.loc, body,
                          "after `%s = 0` only the Done return follows" % cname if not bad2 else
                          "`%s = 0` at line %s is followed by %s at line %s: progress made by earlier reads is forgotten" % (cname, c.get("l"), "an append" if is_append(bad2[0]) or bad2[0]["k"] == "call" else "a 'need more data' return", bad2[0].get("l")))

    pcl = lib.single(prog, PR + "BodyStep::parseContentLength")

    def inc_cl(ev, body):
        if body.is_lambda:
            return ev["k"] == "return" and ev.get("const") is False
        return again(ev)
    counter_rules(pcl, ["bytesRead"], inc_cl, None, lam_of=True)
    cp = lib.single(prog, PR + "BodyStep::Chunk::parse")
    newchunk = lib.relation_edges(cp, lambda r_: (r_.get("f") or "").endswith("Chunk::size"), lambda r_: (r_.get("t") or "").replace(" ", "").strip("()") == "-1", ("==",))
    ck.require(newchunk, "`size == -1` test not found in Chunk::parse")

    def inc_chunk(ev, body):
        if body.id != cp.id and not body.is_lambda:
            return ev["k"] == "return" and ev.get("const") is False     # bool helper: false = not fully buffered yet
        return ev["k"] == "return" and ev.get("const") == "e:" + PR + "BodyStep::Chunk::Incomplete"
    counter_rules(cp, ["alreadyAppendedChunkBytes"], inc_chunk, None, new_region_edges=newchunk)
    # chunk-size line is revert-guarded: in the routine that stores the parsed size (Chunk::parse or the helper it was split into) a Revert
    # is declared, the consuming calls follow it, and it is ignored before size is set; that routine runs only on the new-chunk edge
    szf = [(g, e) for g in lib.region(prog, cp, within=lambda g: g.cls == cp.cls and g.cls) for e in g.events("assign")
           if (e["lhs"].get("f") or "").endswith("Chunk::size") and e.get("op") == "=" and e.get("const") is None]
    ck.require(szf, "store of the parsed chunk size not found in Chunk::parse or its helpers")
    for g, sz in szf:
        d = cfg.dominators(g)
        rv = [e for e in g.events("decl") if strip_tmpl(e.get("ctor") or "") == CUR + "Revert"]
        ig = [e for e in g.events("call") if (e.get("callee") or "") == CUR + "Revert::ignore"]
        cons = [e for e in g.events("call") if (e.get("callee") or "") == CUR + "advance"]
        ok = bool(rv) and bool(ig) and cfg.ev_dominates(d, rv[0], ig[0]) and cfg.ev_dominates(d, ig[0], sz) and \
            all(cfg.ev_dominates(d, rv[0], c) for c in cons if any(x is ig[0] for x in cfg.events_after(g, c))) and \
            lib.guard_dominates(prog, sz, lambda h: newchunk if h.id == cp.id else [])
        ck.ob("C01-R3", "Chunk::parse/size-line-revert-guarded", ok, rv[0].loc if rv else g.loc, g, "Revert; scan; ignore(); size = sz — an incomplete size line is rolled back")
    pte0 = lib.single(prog, PR + "BodyStep::parseTransferEncoding")
    # the chunk loop: in parseTransferEncoding or in a private helper of BodyStep it delegates to
    ptes = [g_ for g_ in lib.region(prog, pte0, within=lambda g_: g_.cls == pte0.cls and g_.cls) if [e for e in g_.calls(lambda e: (e.get("callee") or "") == PR + "BodyStep::Chunk::parse")]]
    ck.require(ptes, "chunk.parse not found in parseTransferEncoding or its helpers")
    pte = ptes[0]
    pc = [e for e in pte.calls(lambda e: (e.get("callee") or "") == PR + "BodyStep::Chunk::parse")]
    rs = [e for e in pte.calls(lambda e: (e.get("callee") or "") == PR + "BodyStep::Chunk::reset")]
    ck.require(pc and rs, "chunk.parse / chunk.reset not found in parseTransferEncoding")
    # after parse(): Incomplete -> Again without reset; otherwise reset before the next parse / Done
    bad = []

    def st3(st, ev):
        if any(ev is r for r in rs):
            return None
        if again(ev) and st == "incomplete":
            return None
        if any(ev is p for p in pc) or (ev["k"] == "return" and not again(ev)) or (again(ev) and st != "incomplete"):
            bad.append(ev)
            return None
        return st

    def ed3(st, blk, k, succ):
        t = blk.term or {}
        INC = "e:" + PR + "BodyStep::Chunk::Incomplete"
        if INC in (t.get("refs") or []) and t.get("cmp") in ("==", "!=") and k == ((0 if t["cmp"] == "==" else 1) if not t.get("neg") else (1 if t["cmp"] == "==" else 0)):
            return "incomplete"
        # `switch (chunk.parse(cursor)) { case Chunk::Incomplete: ...`
        if t.get("k") == "switch" and succ in pte.blocks and (pte.blocks[succ].label or {}).get("const") == INC:
            return "incomplete"
        return st
    for p0 in pc:
        cfg.run_automaton(pte, "parsed", st3, edge=ed3, start=p0.block, start_idx=p0.idx + 1)
    ck.ob("C01-R3", "parseTransferEncoding/reset-after-complete-chunk", not bad, pc[0].loc, pte,
          "chunk.reset() after every Complete/Final chunk, none after Incomplete" if not bad else
          "line %s is reached after a completed chunk without chunk.reset()" % bad[0].get("l"))

    # ---------------- R7: what the body routines skip without looking is known to be buffered ----------------
    ck.rule("C01-R7", "B guard dominates sink (symbolic amounts)",
            "in the incremental body routines (BodyStep::parseContentLength, Chunk::parse and their helpers) a cursor.advance(n) whose "
            "result is not looked at is covered by a test that establishes n bytes are buffered (remaining() >= the sum of what is "
            "skipped after the test, the eol() edge for a CRLF, or n = min(remaining, ..)): an uncovered one silently does nothing "
            "when a read ends inside what it skips, and the bytes are then parsed as something else", 5)
    breg = []
    for root_ in (pcl, cp):
        for g_ in lib.region(prog, root_, within=lambda g_: g_.cls == cp.cls or g_.cls == pcl.cls):
            if g_.id not in {x.id for x in breg} and g_.id not in getattr(root_, "inlined_funcs", ()):
                breg.append(g_)
    n7 = 0
    for g_ in breg:
        for c_, ok_, why_ in lib.unchecked_advances(
                g_, lambda e: (e.get("callee") or "") == CUR + "advance",
                lambda d_: strip_tmpl(d_.get("icall") or "") == CUR + "remaining" or re.sub(r"\s+", "", (d_.get("init") or {}).get("t") or "").endswith(".remaining()"),
                None):
            n7 += 1
            ck.ob("C01-R7", "%s/advance(%s)@%s" % (g_.base.replace(PR, "") if not g_.is_lambda else "lambda", (c_.get("args") or [{}])[0].get("t"), c_.get("l")), ok_, c_.loc, g_, why_)
    ck.require(n7 >= 5, "unchecked advance() calls in the body routines: %d" % n7)

    # ---------------- R4 ----------------
    for f in prog.find("Pistache::ArrayStreamBuf::feed", 1):
        grow = [e for e in f.events("call") if (e.get("callee") or "") in ("std::back_inserter", "std::inserter") and strip_tmpl((e["args"][0].get("f") or "")).endswith("ArrayStreamBuf::bytes")]
        grow += [e for e in f.calls(lambda e: lib.is_stl_mutation(e) and strip_tmpl((e.get("recv") or {}).get("f") or "").endswith("ArrayStreamBuf::bytes"))]
        # the copy that uses the inserter
        copies = [e for e in f.calls(lambda e: (e.get("callee") or "") in ("std::copy", "std::copy_n"))]
        sg = [e for e in f.calls(lambda e: e.base_callee() == "std::basic_streambuf::setg")]
        def is_offset_expr(dd):
            it = (dd.get("init") or {}).get("t") or ""
            if "gptr" in it and "eback" in it:
                return True
            # or a member of the buffer that returns that difference (StreamBuf::position())
            for h_ in prog.by_base.get(strip_tmpl(dd.get("icall") or ""), []):
                rets_ = [r_ for r_ in h_.events("return")]
                if rets_ and all("gptr" in (r_.get("t") or "") and "eback" in (r_.get("t") or "") for r_ in rets_):
                    return True
            return False
        off = [dd for dd in f.events("decl") if dd.get("var") and is_offset_expr(dd)]
        # setg may be wrapped in a private helper of the buffer that takes the read offset as a parameter
        via = None
        if not sg:
            for c_ in f.events("call"):
                for h_ in prog.resolve_call(c_):
                    hs_ = [e for e in h_.calls(lambda e: e.base_callee() == "std::basic_streambuf::setg")] if h_.blocks and h_.cls == f.cls else []
                    if len(hs_) == 1 and via is None:
                        via = (c_, h_, hs_[0])
        d = cfg.dominators(f)
        nsg = len(sg) if via is None else 1
        ok = bool(grow) and nsg == 1 and len(off) == 1
        detail = "growth=%d setg=%d saved-offset=%d" % (len(grow), nsg, len(off))
        if ok:
            last = (copies or grow)
            sg_ev = sg[0] if via is None else via[0]
            ok = all(cfg.ev_dominates(d, off[0], g) for g in grow) and all(cfg.ev_dominates(d, g, sg_ev) for g in last)
            a = (sg[0] if via is None else via[2])["args"]
            sgf = (sg[0] if via is None else via[2]).func
            data_vars = {d_["var"] for d_ in sgf.events("decl") if d_.get("var") and "bytes.data()" in ((d_.get("init") or {}).get("t") or "")}
            on_data = lambda x: "bytes.data()" in (x.get("t") or "") or any(re.search(r"\b%s\b" % re.escape(v_.split("@")[0]), x.get("t") or "") for v_ in data_vars)
            # the end of the readable area: the vector's size, or a fill counter feed() advances by `len` (which of the two the limit test
            # uses, and that both agree, is C03-R3's clause)
            fillc = {strip_tmpl(a_["lhs"].get("f") or "").rsplit("::", 1)[-1] for a_ in f.events("assign") if a_.get("op") == "+=" and len(f.params) > 1
                     and (a_.get("rhs") or {}).get("v") == f.params[1]["name"] and a_["lhs"].get("f")}
            ends_at_fill = "size()" in (a[2].get("t") or "") or any(re.search(r"\b%s\b" % re.escape(c_), a[2].get("t") or "") for c_ in fillc)
            ok = ok and len(a) == 3 and all(on_data(x) for x in a) and ends_at_fill
            if via is None:
                ok = ok and off[0]["var"] in (a[1].get("t") or "")
            else:
                # the helper's get pointer is bytes.data() + <param>, and feed passes the saved offset for that parameter
                pidx = [i for i, p_ in enumerate(via[1].params) if re.search(r"\b%s\b" % re.escape(p_["name"]), a[1].get("t") or "")]
                ok = ok and bool(pidx) and len(via[0].get("args", [])) > pidx[0] and via[0]["args"][pidx[0]].get("v") == off[0]["var"]
            rets = [e for e in f.events("return") if e.get("const") is True]
            ok = ok and bool(rets) and all(cfg.ev_dominates(d, sg_ev, r) for r in rets)
            detail = "offset '%s' saved before growth; setg(%s) after it on every `return true` path" % (off[0]["var"], ", ".join(x.get("t") or "" for x in a))
        ck.ob("C01-R4", "ArrayStreamBuf::feed/rebase", ok, f.loc, f, detail)

    # ---------------- facts shared with C17 ----------------
    # Set-Cookie lines of a response are added to the jar without clearing it first (only the request's Cookie header is): a header block
    # that is rolled back and parsed again adds the same cookies again, which is harmless exactly because the jar keeps one entry per
    # (name, value)
    ck.borrow("C17", ["C17-R3"], "C01-R8",
              "re-parsing a rolled-back header block leaves the cookie jar as it was: CookieJar::add is a keep-first insert into containers "
              "with unique keys (and the request's Cookie header clears the jar before it is read again)",
              key_pred=lambda k: k.startswith("CookieJar::add/") or k.endswith("/unique-keys") or k.startswith("HeadersStep/"), min_instances=3)
    # what the incremental body copy remembers between two reads starts from zero for every chunk and every message
    ck.borrow("C04", ["C04-R2"], "C01-R9",
              "the counters that carry a body across reads (bytes of the body read, size of the current chunk, bytes of it already "
              "copied) are re-initialised by the reset routines -- Chunk::reset(), which the chunked-body loop calls between two chunks, "
              "clears every counter Chunk::parse advances: a count left over from the previous chunk makes the copy of the next one depend "
              "on where the reads were cut", key_pred=lambda k: "BodyStep::" in k, min_instances=6)

