"""C15 — every client request is answered by exactly its own response.

Decides the single-outstanding-request protocol of a pooled connection (claim/release typestate): atomic claim, who may start a
request on a connection, settle-once and release order in the three completion routines, clean hand-back, persistent timer
registration.  Does not decide response<->request matching over server behaviours."""
import re
from .. import cfg, lib, facts
from ..facts import AnalysisBroken, strip_tmpl

E = "Pistache::Http::Experimental::"
CONN = E + "Connection::"
POOL = E + "ConnectionPool::"
CLIENT = E + "Client::"


def run(ck):
    prog = ck.prog
    ck.rule("C15-R1", "I type-level + C shape",
            "Connection::tryUse is a single compare_exchange_strong Idle->Used on a std::atomic; ConnectionPool::pickConnection returns a "
            "connection only on the tryUse()==true edge; a host's pool is created under connsLock with maxConnectionsPerHost elements and "
            "Connections never grow anywhere else", 4)
    ck.rule("C15-R2", "D who-may-call",
            "Connection::performImpl (which overwrites requestEntry) is called only on a connection just obtained from pickConnection, from "
            "Connection::perform on such a connection, or from the connection's own processRequestQueue", 3)
    ck.rule("C15-R3", "C path automaton (settle once, then release, then hand back)",
            "handleResponsePacket / handleError / handleTimeout touch requestEntry only under `if (requestEntry)`, settle it exactly once "
            "(resolve xor reject), reset requestEntry, and only then call onDone; the time-out timer is disarmed and released before; all "
            "onDone callbacks release the connection to the pool and then process the queue", 9)
    ck.rule("C15-R4", "C must-pass-through (shared with C04-R1)",
            "before onDone hands the connection back, the response parser was reset or the socket closed", 3)
    ck.rule("C15-R5", "C shape (persistent registration under a once-flag)",
            "TimerPool::Entry::registerReactor registers the timerfd once (guarded by `registered`), so the registration must be "
            "persistent (Reactor::registerFd, not registerFdOneShot): a one-shot registration would deliver only the first expiry", 1)

    # ---------------- R1 ----------------
    f = lib.single(prog, CONN + "tryUse")
    cas = [e for e in f.calls(lambda e: e.base_callee() in ("std::atomic::compare_exchange_strong", "std::__atomic_base::compare_exchange_strong"))]
    other = [e for e in f.calls(lambda e: e.base_callee().startswith("std::atomic") or e.base_callee().startswith("std::__atomic_base")) if e not in cas]
    ok = len(cas) == 1 and not other and strip_tmpl((cas[0].get("recv") or {}).get("f") or "") == CONN + "state_"
    if ok:
        d = {x["var"]: x for x in f.events("decl")}
        a0, a1 = cas[0]["args"][0].get("v"), cas[0]["args"][1].get("v")
        # expected: a local holding State::Idle; desired: State::Used, named or written in place
        desired = ((d[a1].get("init") or {}).get("t") or "") if a1 in d else (cas[0]["args"][1].get("t") or "")
        ok = a0 in d and "State::Idle" in ((d[a0].get("init") or {}).get("t") or "") and "State::Used" in desired and "State::Idle" not in desired
        rets = [e for e in f.events("return")]
        ok = ok and len(rets) == 1 and "compare_exchange_strong" in (rets[0].get("t") or "")
    ck.ob("C15-R1", "tryUse/single-CAS-Idle->Used", ok, f.loc, f, "return state_.compare_exchange_strong(Idle, Used)")
    cc = prog.cls(E + "Connection")
    sf = [x for x in cc["fields"] if x["name"] == "state_"]
    ck.ob("C15-R1", "type:Connection::state_", bool(sf) and re.match(r"^(std::)?atomic<", (sf[0].get("ctype") or sf[0]["type"]).replace(" ", "")) is not None, "%s:%s" % (cc["file"], sf[0]["line"] if sf else 0), "",
          "declared %s" % (sf[0]["type"] if sf else "?"), nontrivial=False)
    g = lib.single(prog, POOL + "pickConnection")
    # edges on which a connection is known to be claimed: tryUse() returned true (tested directly / through a local), or a
    # std::find_if over the candidates whose predicate is `tryUse()` found an element (its result differs from end())
    claimed_edges = lib.result_edges(g, CONN + "tryUse", True)
    for d_ in g.events("decl"):
        if strip_tmpl(d_.get("icall") or "") in ("std::find_if",) and d_.get("var"):
            preds = [lf for c_ in lib.init_calls(g, d_) if c_.base_callee() == "std::find_if"
                     for a_ in c_.get("args", []) if a_.get("lam") for lf in prog.lambda_by_id(a_["lam"].split("#in:")[0], g)]
            if preds and all(any(("c:" + CONN + "tryUse") in (r_.get("refs") or []) for r_ in lf.events("return")) and
                             all(("c:" + CONN + "tryUse") in (r_.get("refs") or []) for r_ in lf.events("return")) for lf in preds):
                for b in g.blocks.values():
                    if b.term and len(b.succs) == 2 and (b.term.get("lhs") or {}).get("v") == d_["var"] and "end" in ((b.term.get("rhs") or {}).get("t") or ""):
                        for k_ in (0, 1):
                            r_ = lib.rel_on_edge(b.term, k_)
                            if r_ is not None and r_[1] == "!=" and b.succs[k_] is not None:
                                claimed_edges.append((b.id, k_))
    rets = [e for e in g.events("return") if e.get("const") != "nullptr" and (e.get("t") or "").strip() != "nullptr"]
    ok = bool(claimed_edges) and len(rets) >= 1 and all(any(cfg.edge_dominates(g, bid, k_, r) for bid, k_ in claimed_edges) for r in rets)
    ck.ob("C15-R1", "pickConnection/returns-only-claimed", ok, g.loc, g, "a non-null connection is returned only on the tryUse() edge")
    # pool creation under the lock with the configured size; no other growth
    ls = lib.locksets(g)
    grows = []
    for fn in prog.funcs.values():
        if not fn.file.endswith("client.cc") and not fn.file.endswith("client.h"):
            continue
        for e in fn.calls(lambda e: e.base_callee() in ("std::vector::push_back", "std::vector::emplace_back", "std::vector::insert", "std::vector::resize")
                          and (e.get("callee") or "").startswith("std::vector<std::shared_ptr<Pistache::Http::Experimental::Connection>>::")):
            grows.append((fn, e))
    # (or through an inserter handed to a counted algorithm: std::generate_n(std::back_inserter(v), n, make))
    CONNVEC = re.compile(r"vector<std::shared_ptr<(Pistache::Http::Experimental::)?Connection>")
    for fn in prog.funcs.values():
        if not fn.file.endswith("client.cc") and not fn.file.endswith("client.h"):
            continue
        for e in fn.calls(lambda e: e.base_callee() in ("std::generate_n", "std::fill_n", "std::generate", "std::copy", "std::copy_n", "std::transform") and
                          any("insert_iterator<" in (a.get("ty") or "") and CONNVEC.search(a.get("ty") or "") for a in (e.get("args") or []))):
            grows.append((fn, e))
    ck.require(grows, "creation of pooled connections not found")
    # growth written in a private helper that only pickConnection reaches is judged in the flattened view of pickConnection
    grows = [(fn, e) for fn, e in grows if fn.base == POOL + "pickConnection" or not lib.only_reached_from(prog, fn, {POOL + "pickConnection"})]
    seen_locs = {e.loc for _f, e in grows}
    for e in g.calls(lambda e: e.base_callee() in ("std::vector::push_back", "std::vector::emplace_back", "std::vector::insert", "std::vector::resize")
                     and (e.get("callee") or "").startswith("std::vector<std::shared_ptr<Pistache::Http::Experimental::Connection>>::")):
        if e.loc not in seen_locs:
            grows.append((g, e))
    for fn, e in grows:
        ok = fn.base == POOL + "pickConnection"
        detail = "pool grows in %s" % fn.base
        if ok:
            # the creating loop is bounded by the configured pool size: its condition mentions maxConnectionsPerHost, or a counter that
            # was initialised from it
            MAXF = "f:" + POOL + "maxConnectionsPerHost"
            from_max = {d2["var"] for d2 in g.events("decl") if d2.get("var") and MAXF in (d2.get("refs") or [])}
            lp_ = cfg.innermost_loop(g, e.block)
            loops = []
            if lp_ is not None:
                for bid_ in lp_[1]:
                    t_ = g.blocks[bid_].term
                    if t_ and t_.get("k") in ("for", "while", "do") and t_.get("cmp") and \
                            (MAXF in (t_.get("refs") or []) or any(("v:" + v_) in (t_.get("refs") or []) for v_ in from_max)):
                        loops.append(g.blocks[bid_])
            if not loops and e.base_callee() in ("std::generate_n", "std::fill_n"):
                # a counted algorithm writing through an inserter: its count is the configured pool size
                cnt = (e.get("args") or [{}, {}])[1]
                if strip_tmpl(cnt.get("f") or "") == POOL + "maxConnectionsPerHost" or cnt.get("v") in from_max:
                    loops.append(g.blocks[e.block])
            ins = [x for x in g.calls(lambda x: x.base_callee() in ("std::unordered_map::insert", "std::unordered_map::emplace", "std::unordered_map::try_emplace")
                                      and strip_tmpl((x.get("recv") or {}).get("f") or "") == POOL + "conns")]
            ok = bool(loops) and bool(ins) and lib.holds(ls.get((ins[0].block, ins[0].idx)), POOL + "connsLock", "this") \
                and lib.holds(ls.get((e.block, e.idx)), POOL + "connsLock", "this")
            detail = "created inside `for (i < maxConnectionsPerHost)` and inserted into conns under connsLock"
        ck.ob("C15-R1", "pool-growth:%s" % fn.base.replace(E, ""), ok, e.loc, fn, detail)

    # ---------------- R2 ----------------
    sites = prog.call_sites(CONN + "performImpl")
    ck.require(len(sites) >= 3, "performImpl call sites: %d" % len(sites))
    for e in sites:
        fn = e.func
        where = fn.base if not fn.is_lambda else "lambda in " + strip_tmpl(fn.d.get("parentName") or "")
        ok = False
        why = "unexpected caller"
        own_entries = {CONN + "processRequestQueue", CONN + "perform", CONN + "asyncPerform"}
        if prog.owner(fn).base.startswith(CONN) and (e.get("recv") or {}).get("t") == "this" and lib.only_reached_from(prog, fn, own_entries):
            # inside the connection itself: its own queue drained after connect, or perform()/asyncPerform() (directly, in their
            # promise lambda, or in a private helper only they reach) -- which are only called on a freshly claimed connection (below)
            ok, why = True, "the connection's own entry points (perform / asyncPerform / processRequestQueue), on this"
        elif where == CLIENT + "processRequestQueue" or (not fn.is_lambda and lib.only_reached_from(prog, fn, {CLIENT + "processRequestQueue"})):
            if where != CLIENT + "processRequestQueue":
                # a private piece of Client::processRequestQueue: analysed in the flattened view of that function
                F_ = lib.single(prog, CLIENT + "processRequestQueue")
                m_ = [x for x in F_.events("call") if x.get("callee") == e.get("callee") and x.get("l") == e.get("l") and x.get("c") == e.get("c")]
                if m_:
                    fn, e = F_, m_[0]
            rv = (e.get("recv") or {}).get("root")

            def picked_and_tested(var, at, vd=None):
                d = [x for x in fn.events("decl") if x.get("var") == var and (vd is None or x.get("vd") == vd) and strip_tmpl(x.get("icall") or "") == POOL + "pickConnection"]
                # edges on which the picked connection is known not to be null: `if (!c) break;` not taken, `if (c)` / `while (auto c = pick())` taken
                nonnull = [(b.id, 1 if b.term.get("neg") else 0) for b in fn.blocks.values() if b.term and b.term.get("k") in ("if", "while", "for") and
                           (b.term.get("core") or {}).get("root") == var and not b.term.get("cmp") and len(b.succs) == 2
                           and (not d or (b.term.get("core") or {}).get("rootd") in (None, d[0].get("vd")))]
                return bool(d) and bool(nonnull) and any(cfg.edge_dominates(fn, bid_, k_, at) for bid_, k_ in nonnull)
            ok = picked_and_tested(rv, e, (e.get("recv") or {}).get("rootd"))
            why = "connection '%s' picked (claimed) on this path and tested for null" % rv
            if not ok:
                # the connection may travel through a local work list filled only with freshly picked connections
                d = [x for x in fn.events("decl") if x.get("var") == rv and x.get("vd") == (e.get("recv") or {}).get("rootd")]
                src = ((d[0].get("init") or {}).get("root")) if d else None
                lists = [x for x in fn.events("decl") if x.get("var") and "vector" in (x.get("ctype") or x.get("type") or "") and "Connection" in (x.get("ctype") or x.get("type") or "")]
                # work lists handed from one piece of the function to the next (returned by a helper, passed to another) are one list
                all_adds = [c for lst in lists for c in fn.calls(lambda c: (c.get("recv") or {}).get("v") == lst["var"] and lib.is_stl_mutation(c) and c.get("args"))]
                for lst in lists:
                    adds = [c for c in fn.calls(lambda c: (c.get("recv") or {}).get("v") == lst["var"] and lib.is_stl_mutation(c) and c.get("args"))]
                    if not adds and getattr(fn, "flattened", False):
                        adds = all_adds
                    from_list = any((r_.get("init") or {}).get("v") == lst["var"] or ("v:" + lst["var"]) in (r_.get("refs") or []) for r_ in list(fn.events("decl")) + list(fn.events("bind"))
                                    if r_.get("var") in (src, rv, "__range1", "__range2", "__range3") or (r_.get("var") or "").split("@")[0] in ("__range1", "__range2", "__range3"))
                    okadds = bool(adds) and all(picked_and_tested(((a_["args"][0].get("moved") or a_["args"][0]).get("v")), a_, ((a_["args"][0].get("moved") or a_["args"][0]).get("vd"))) for a_ in adds)
                    if okadds and (from_list or src):
                        ok = True
                        why = "connection comes from the local list '%s', which only receives connections picked (claimed) and null-tested in this function" % lst["var"]
        ck.ob("C15-R2", "caller-of:performImpl<-%s" % where.replace(E, ""), ok, e.loc, fn, why)
    for name in ("perform", "asyncPerform"):
        for e in prog.call_sites(CONN + name):
            fn = e.func
            rv = (e.get("recv") or {}).get("root")
            d = [x for x in fn.events("decl") if x.get("var") == rv and strip_tmpl(x.get("icall") or "") == POOL + "pickConnection"]
            ck.ob("C15-R2", "caller-of:%s<-%s" % (name, fn.base.replace(E, "")), fn.base == CLIENT + "doRequest" and bool(d), e.loc, fn,
                  "called on the connection returned by pickConnection in the same function")

    # ---------------- R3 / R4 ----------------
    RE = CONN + "requestEntry"

    def is_req_access(ev):
        return ev["k"] == "member" and strip_tmpl(ev.get("f") or "") == RE

    def is_reset(ev):
        c = strip_tmpl(ev.get("callee") or "") if ev["k"] == "call" else ""
        return c in ("Pistache::Http::Private::ParserBase::reset", "Pistache::Http::Private::ParserImpl::reset") or c in (CONN + "close", CONN + "handleError")
    done_direct, done_via_helper = lib.completion_callback_pred(prog, CONN)
    summ15 = lib.Summaries(prog)
    HANDLERS = {CONN + n_ for n_ in ("handleResponsePacket", "handleError", "handleTimeout", "close", "connect")}

    # ---------------- R14: the finished request lets go of the timer before the connection is handed on ----------------
    ck.rule("C15-R14", "C ordering (including implicit destructors)",
            "onDone hands the connection -- and with it the connection's pooled time-out timer -- to the next queued request, which arms it "
            "at once: everything the finished request does to its timer (disarm, releaseTimer, also from the destructor of the request "
            "entry when that goes out of scope) happens before the completion callback is invoked, never after it", 3)
    TIMER_TOUCH = ("Pistache::TimerPool::Entry::disarm", "Pistache::TimerPool::releaseTimer", "Pistache::TimerPool::Entry::arm", "Pistache::TimerPool::Entry::armMs")
    touches_timer = lambda ev: ev["k"] == "call" and strip_tmpl(ev.get("callee") or "") in TIMER_TOUCH
    may_touch = summ15.lift_may(touches_timer, "touches-timer")
    entry_dtors = [g_ for g_ in prog.funcs.values() if g_.blocks and g_.base.endswith("RequestEntry::~RequestEntry")]
    dtor_touches = any(summ15.may(g_, touches_timer, "touches-timer") for g_ in entry_dtors)
    for name in ("handleResponsePacket", "handleError", "handleTimeout"):
        fn = lib.single(prog, CONN + name)
        dones = [e for e in fn.events("call") if done_direct(e) or done_via_helper(e)]
        ck.require(dones, "%s does not invoke the completion callback" % name)
        late = []
        for d_ in dones:
            for x in cfg.events_after(fn, d_):
                if x["k"] == "call" and not done_direct(x) and not done_via_helper(x) and may_touch(x) and not (x.get("callee") or "").startswith("std::function"):
                    late.append((x, "%s at line %s" % ((x.get("callee") or "").rsplit("::", 2)[-1], x.get("l"))))
                elif x["k"] == "dtor" and "RequestEntry" in (x.get("type") or "") and dtor_touches:
                    late.append((x, "the destructor of `%s` (a request entry, whose destructor touches the timer) at line %s" % (x.get("var"), x.get("l"))))
        # ... and the callback is invoked when it is set (not when it is empty): a test of the callback that guards the call guards it
        # with its true edge (from the mutation sweep: `if (onDone)` negated survives the suite in handleError / handleTimeout)
        for d_ in dones:
            cbv = (d_.get("recv") or {}).get("v") or (d_.get("recv") or {}).get("root")
            wrong = [b_ for b_ in fn.blocks.values() if b_.term and len(b_.succs) == 2 and not b_.term.get("cmp") and cbv and
                     ((b_.term.get("core") or {}).get("v") == cbv or (b_.term.get("core") or {}).get("root") == cbv) and
                     b_.succs[0 if b_.term.get("neg") else 1] is not None and cfg.edge_dominates(fn, b_.id, 0 if b_.term.get("neg") else 1, d_)]
            ck.ob("C15-R14", "%s/onDone-called-when-set" % name, not wrong, d_.loc, fn,
                  "the completion callback is invoked on the edge on which it is non-empty (or unconditionally)" if not wrong else
                  "the completion callback is invoked on the edge on which `%s` is EMPTY and skipped when it is set: the connection is never "
                  "handed back and the host's queued requests never start" % cbv)
        ck.ob("C15-R14", "%s/timer-released-before-onDone" % name, not late, (late[0][0].loc if late else dones[0].loc), fn,
              "nothing touches the timer after the completion callback" if not late else
              "%s runs after onDone(): the next request has already armed the same timer, which is disarmed under it" % late[0][1])

    for name in ("handleResponsePacket", "handleError", "handleTimeout"):
        fn = lib.single(prog, CONN + name)
        # edges on which requestEntry is known to be set: `if (requestEntry)`, `requestEntry != nullptr`, or a predicate member of the
        # connection that returns one of the two (`bool hasPendingRequest() const { return requestEntry != nullptr; }`)
        preds_ = {}
        for g_ in prog.funcs.values():
            if g_.cls == CONN.rstrip(":") and not g_.params and not g_.is_lambda:
                rs_ = [x for x in g_.events("return")]
                if len(rs_) == 1:
                    tx_ = re.sub(r"\s+|this->", "", rs_[0].get("t") or "")
                    if tx_ in ("requestEntry!=nullptr", "nullptr!=requestEntry", "static_cast<bool>(requestEntry)", "bool(requestEntry)", "requestEntry.operatorbool()", "!!requestEntry"):
                        preds_[g_.base] = True
                    elif tx_ in ("requestEntry==nullptr", "nullptr==requestEntry", "!requestEntry"):
                        preds_[g_.base] = False
        guards = []
        for b in fn.blocks.values():
            t_ = b.term
            if not t_ or t_.get("k") not in ("if", "land", "lor", "while") or len(b.succs) != 2:
                continue
            truth = 1 if t_.get("neg") else 0
            if strip_tmpl((t_.get("core") or {}).get("f") or "") == RE and not t_.get("cmp"):
                guards.append((b, truth))
            elif t_.get("cmp") in ("!=", "==") and strip_tmpl((t_.get("lhs") or {}).get("f") or "") == RE and (t_.get("rconst") == "nullptr" or "nullptr" in ((t_.get("rhs") or {}).get("t") or "")):
                guards.append((b, truth if t_["cmp"] == "!=" else 1 - truth))
            else:
                for r_ in (t_.get("leafrefs") or t_.get("refs") or []):
                    if r_.startswith("c:") and strip_tmpl(r_[2:]) in preds_ and not t_.get("cmp"):
                        guards.append((b, truth if preds_[strip_tmpl(r_[2:])] else 1 - truth))
        ck.require(guards, "no test of requestEntry (`if (requestEntry)`, `!= nullptr`, a predicate member) found in %s" % name)
        gb = guards[0][0]
        inside = gb.succs[guards[0][1]]
        # all other accesses of requestEntry are reached only through the non-null edge of such a test
        gids = {g_.id for g_, _k in guards}
        # (the test itself may have been expanded from a predicate member: the straight-line blocks that lead into the testing block and
        # come after the call of the predicate belong to the test)
        for g_, _k in guards:
            cur_ = g_
            for _hop in range(6):
                ps_ = [p_ for p_ in cur_.preds if len([x for x in fn.blocks[p_].succs if x is not None]) == 1]
                if len(cur_.preds) != 1 or not ps_:
                    break
                cur_ = fn.blocks[ps_[0]]
                if any(x["k"] == "call" and x.get("inlined") for x in cur_.elems):
                    break
                if all(x.get("k") in ("member", "call", "use", "cmp", "iret", "bind") for x in cur_.elems):
                    gids.add(cur_.id)
                else:
                    break
        acc = [e for e in fn.events("member") if is_req_access(e) and e.block not in gids]
        okg = all(any(cfg.edge_dominates(fn, g_.id, k_, e) for g_, k_ in guards) for e in acc) and bool(acc)
        ck.ob("C15-R3", "%s/guarded-by-requestEntry" % name, okg, "%s:%s" % (fn.file, gb.term.get("l")), fn, "%d accesses, all under `if (requestEntry)`" % len(acc))

        def settle(ev):
            if ev["k"] != "call":
                return None
            c = ev.get("callee") or ""
            if c in (CONN + "RequestEntry::resolve", CONN + "RequestEntry::reject"):
                return c.rsplit("::", 1)[1]
            if c.startswith(CONN + "RequestEntry::") and c.rsplit("::", 1)[1] in ("resolve", "reject"):
                return c.rsplit("::", 1)[1]
            # Async::Resolver / Rejection members invoked through requestEntry
            rv = ev.get("recv") or {}
            if strip_tmpl(rv.get("f") or "").endswith("RequestEntry::resolve") or strip_tmpl(rv.get("f") or "").endswith("RequestEntry::reject"):
                return strip_tmpl(rv["f"]).rsplit("::", 1)[1]
            return None

        def is_entry_reset(ev):
            return ev["k"] == "call" and ev.base_callee() == "std::unique_ptr::reset" and strip_tmpl((ev.get("recv") or {}).get("f") or "") == RE

        is_done = done_direct

        def is_timer_release(ev):
            return ev["k"] == "call" and (ev.get("callee") or "") == "Pistache::TimerPool::releaseTimer"
        problems = []

        def step(st, ev):
            settled, reset, done = st
            s = settle(ev)
            if s:
                if settled:
                    problems.append("request settled twice (second at line %s)" % ev.get("l"))
                return (s, reset, done)
            if is_entry_reset(ev):
                if not settled:
                    problems.append("requestEntry released at line %s before it was settled" % ev.get("l"))
                return (settled, True, done)
            if is_done(ev):
                if not settled:
                    problems.append("onDone at line %s before the request is settled" % ev.get("l"))
                if not reset:
                    problems.append("onDone() at line %s runs while requestEntry still holds the finished request: a request started from the "
                                    "callback is destroyed by the reset that follows" % ev.get("l"))
                return (settled, reset, True)
            return st
        # private helpers of the connection that the settle / release / callback steps were moved into are walked through
        def relevant(g_):
            return g_.base.startswith(CONN) and g_.base not in HANDLERS and any(settle(x) or is_entry_reset(x) or is_done(x) for x in g_.events("call"))
        step = lib.inlined_step(prog, step, relevant)
        # handleResponsePacket settles the request only once a complete response has been parsed: a return that waits for more bytes is
        # not a lost request.  (Whether the test of requestEntry lies inside the `parse() == Done` arm or in front of everything, as an
        # early return, makes no difference: the obligation starts where both are known.)
        done_edges = set()
        if name == "handleResponsePacket":
            for pc_ in ("Pistache::Http::Private::ParserBase::parse", "Pistache::Http::Private::ParserImpl::parse"):
                done_edges |= set(lib.value_edges(fn, pc_, "e:Pistache::Http::Private::State::Done"))
        complete0 = True
        if done_edges:
            ins_ev = [e_ for e_ in fn.blocks[inside].elems][:1]
            complete0 = bool(ins_ev) and any(cfg.edge_dominates(fn, b_, k_, ins_ev[0]) for b_, k_ in done_edges)
        user_step = step

        def step_c(st, ev):
            r_ = user_step(st[0], ev)
            if r_ is None:
                return None
            if isinstance(r_, list):
                return [(x_, st[1]) for x_ in r_]
            return (r_, st[1])

        def edge_c(st, blk, k, succ):
            return (st[0], True) if (blk.id, k) in done_edges else st
        exits, _ = cfg.run_automaton(fn, ((None, False, False), complete0), step_c, edge=edge_c, start=inside)
        for x in exits:
            if x.kind == "throw":
                continue
            (settled, reset, done), complete = x.state
            if not settled and not complete:
                continue        # still waiting for the rest of the response
            if not settled:
                problems.append("a path through the guarded block leaves the request unsettled")
            elif not reset:
                problems.append("a path settles the request but keeps requestEntry")
        ck.ob("C15-R3", "%s/settle-reset-onDone" % name, not problems, fn.loc, fn, "; ".join(sorted(set(problems))) or
              "exactly one of resolve/reject, then requestEntry.reset, then onDone on every path")
        # timer released before the request is settled
        may_rel = summ15.lift_may(is_timer_release, "timer-release")
        is_disarm = lambda e: e["k"] == "call" and (e.get("callee") or "") == "Pistache::TimerPool::Entry::disarm"
        rel = [e for e in fn.events("call") if may_rel(e)]
        st_evs = [e for e in fn.events("call") if settle(e)]
        okt = bool(rel) and bool(st_evs)
        if okt:
            # every settle is preceded (on the timer path) by disarm+release: a release lies before it
            for s_ in st_evs:
                before = [r for r in rel if (r.block == s_.block and r.idx < s_.idx) or (r.block != s_.block and s_.block in cfg.reachable_blocks(fn, r.block))]
                if not before:
                    okt = False
            # wherever the release itself is written (here or in a helper), a disarm dominates it
            for g_ in lib.region(prog, fn, within=lambda g_: g_.base.startswith(CONN) and g_.base not in HANDLERS):
                dg = cfg.dominators(g_)
                for r in [e for e in g_.events("call") if is_timer_release(e)]:
                    if not any(cfg.ev_dominates(dg, d_, r) for d_ in g_.events("call") if is_disarm(d_)):
                        okt = False
        ck.ob("C15-R3", "%s/timer-released-first" % name, okt, fn.loc, fn, "timer->disarm() then releaseTimer before the request is settled")
        # a request that is still pending keeps its time-out armed: once the timer is disarmed, every way on settles the request
        lifted_settle = summ15.lift_must(lambda e: bool(settle(e)), "settle-request")
        for g_ in lib.region(prog, fn, within=lambda g_: g_.base.startswith(CONN) and g_.base not in HANDLERS):
            for d_ in [e for e in g_.events("call") if is_disarm(e)]:
                if g_.id != fn.id:
                    continue        # a helper: its callers are looked at where they disarm through it (may-summary below)
                loose = [x for x in cfg.exits_without(fn, lifted_settle, start_block=d_.block, start_idx=d_.idx + 1) if x.kind != "throw"]
                ck.ob("C15-R3", "%s/disarm-only-when-settling" % name, not loose, d_.loc, fn,
                      "after timer->disarm() every path settles the request" if not loose else
                      "after timer->disarm() at line %s the handler can return with the request still pending: nothing will reject it when "
                      "the server stalls, so its promise may never be settled" % d_.get("l"))
        # R4
        dones = [e for e in fn.events("call") if done_direct(e) or done_via_helper(e)]
        for e in dones:
            reached = []

            def step4(st, ev, name=name):
                # (on the time-out path the late response is still to come: only closing the connection counts, see C04-R1)
                if (is_reset(ev) and name != "handleTimeout") or (ev["k"] == "call" and (ev.get("callee") or "").endswith("Connection::close")):
                    return None
                if ev is e:
                    reached.append(ev)
                    return None
                return st
            for ent in cfg.region_entries(fn):
                cfg.run_automaton(fn, 0, step4, start=ent)
            ck.ob("C15-R4", "Connection::%s/onDone-with-clean-parser" % name, not reached, e.loc, fn,
                  "parser reset (or connection closed) before the connection is handed back" if not reached else
                  "the connection is handed back to the pool on a path that never reset the response parser: a late response is delivered to the next request")

    # onDone callbacks: release then process the queue
    # the completion callbacks handed to the connection: the lambdas written (at any nesting depth: directly as the argument, or
    # returned by a local factory lambda) in doRequest / processRequestQueue that give the connection back to the pool
    def nested_lambdas(fn_):
        out_ = []
        for lf_ in prog.lambdas_in(fn_):
            out_.append(lf_)
            out_ += nested_lambdas(lf_)
        return out_
    lam_sites = []
    for fn in prog.find(CLIENT + "doRequest", 1) + prog.find(CLIENT + "processRequestQueue", 1):
        users = [e for g_ in [fn] + nested_lambdas(fn) for e in g_.calls(lambda e: (e.get("callee") or "") in (CONN + "perform", CONN + "asyncPerform", CONN + "performImpl"))]
        ck.require(users, "no perform/asyncPerform/performImpl call in %s" % fn.base)
        cbs = [lf for lf in nested_lambdas(fn) if [x for x in lf.calls(lambda x: (x.get("callee") or "") == POOL + "releaseConnection")]]
        ck.require(cbs, "no completion callback (a lambda that releases the connection) found in %s" % fn.base)
        for lf in cbs:
            lam_sites.append((fn, users[0], lf))
    for fn, e, lf in lam_sites:
        rel = [x for x in lf.calls(lambda x: (x.get("callee") or "") == POOL + "releaseConnection")]
        prq = [x for x in lf.calls(lambda x: (x.get("callee") or "") == CLIENT + "processRequestQueue")]
        d = cfg.dominators(lf)
        ok = len(rel) == 1 and len(prq) == 1 and cfg.ev_dominates(d, rel[0], prq[0])
        ck.ob("C15-R3", "onDone-lambda:%s" % fn.base.replace(E, ""), ok, lf.loc, lf,
              "pool.releaseConnection(conn) then processRequestQueue()")

    # ---------------- R6: no self-deadlock through the completion callbacks ----------------
    lib.guard_release_rule(ck, "C15-R13", lambda f_: f_.file.endswith(("/client/client.cc", "/pistache/client.h")),
                           "the client's mutexes (timeoutsLock, queuesLock, connsLock, the handler's) are always given back", 3)

    ck.rule("C15-R6", "A lockset + call-graph reachability through the onDone callbacks (lock re-entrancy)",
            "no call made while holding a client mutex (Transport::timeoutsLock, Client::queuesLock, ConnectionPool::connsLock) can reach — "
            "through resolved calls, the Promise constructor's synchronous callback and the onDone lambdas — a function that acquires the "
            "same non-recursive member mutex again: completion paths run on the reactor thread and would dead-lock it", 3)

    def extra(ev):
        if ev["k"] == "call" and ev.base_callee() == "std::function::operator()":
            rv = ev.get("recv") or {}
            copies = {d["var"] for d in ev.func.events("decl") if strip_tmpl((d.get("init") or {}).get("f") or "").endswith("RequestEntry::onDone")}
            if rv.get("v") in copies or strip_tmpl(rv.get("f") or "").endswith("RequestEntry::onDone"):
                return [lf for _fn, _e, lf in lam_sites]
        return []
    nlocked = 0
    for fn in prog.funcs.values():
        if not fn.file.endswith("/client/client.cc") or fn.is_lambda:
            continue
        for d_ in fn.events("decl"):
            g_ = lib.guard_of_decl(d_)
            if not g_ or g_[2] != "this":
                continue
            mtx = g_[1]
            nlocked += 1
            hits = lib.reentrant_acquisitions(prog, fn, mtx, extra)
            ck.ob("C15-R6", "%s holds %s" % (fn.base.replace(E, ""), mtx.rsplit("::", 1)[1]), not hits, d_.loc, fn,
                  "no call under the lock can come back to it" if not hits else
                  "the call at %s, made with %s held, reaches %s which locks it again on the same thread" % (hits[0][0].loc, mtx.rsplit("::", 1)[1], hits[0][2].func.name.replace(E, "")),
                  path=hits[0][1] if hits else None)
    ck.require(nlocked >= 3, "guarded regions found in client.cc: %d" % nlocked)

    # ---------------- R7: a claimed connection is used or given back on every path ----------------
    ck.rule("C15-R7", "C typestate (claim / use-or-release)",
            "in Client::processRequestQueue every connection claimed by pickConnection (non-null) is, on every path, either put to work "
            "(performImpl / handed to the work list) or released with releaseConnection: a claimed and forgotten connection stays Used "
            "forever and the host's later requests are queued and never sent", 1)
    prq = lib.single(prog, CLIENT + "processRequestQueue")
    picks = [d_ for d_ in prq.events("decl") if strip_tmpl(d_.get("icall") or "") == POOL + "pickConnection"]
    ck.require(picks, "pickConnection not found in Client::processRequestQueue")
    for d_ in picks:
        var = d_["var"]
        nulls = {(b.id, 0 if b.term.get("neg") else 1) for b in prq.blocks.values() if b.term and b.term.get("k") in ("if", "while", "for") and (b.term.get("core") or {}).get("root") == var and not b.term.get("cmp")}

        def disposes(ev):
            if ev["k"] != "call":
                return False
            c = ev.get("callee") or ""
            if c == POOL + "releaseConnection" and any((a.get("v") == var or (a.get("moved") or {}).get("v") == var) for a in ev.get("args", [])):
                return True
            if c == CONN + "performImpl" and (ev.get("recv") or {}).get("root") == var:
                return True
            return lib.is_stl_mutation(ev) and any((a.get("v") == var or (a.get("moved") or {}).get("v") == var) for a in ev.get("args", []))
        lost = []
        heads = {h for h, _b in cfg.natural_loops(prq)}

        def step7(st, ev):
            if disposes(ev):
                return None
            if ev["k"] == "dtor" and ev.get("var") == var and ev.get("vd") == d_.get("vd"):
                lost.append(ev)
                return None
            return st

        def edge7(st, blk, k, succ):
            if (blk.id, k) in nulls:
                return None
            return st
        cfg.run_automaton(prq, 0, step7, edge=edge7, start=d_.block, start_idx=d_.idx + 1)
        ck.ob("C15-R7", "processRequestQueue/claimed-connection-used-or-released", not lost, d_.loc, prq,
              "every non-null pick is performed, queued for performing, or released" if not lost else
              "the connection claimed at line %s goes out of scope (line %s) on a path that neither uses nor releases it" % (d_.get("l"), lost[0].get("l")))

    # ... and in Client::doRequest a connection that was given a request (perform / asyncPerform / performImpl) is not released by
    # doRequest itself afterwards: from then on it belongs to that request, and only its completion callback gives it back.  A release
    # after the hand-over puts a connection with a request queued on it into the pool: the next user sends a second request on the
    # same socket and overwrites requestEntry.  (A catch handler has no CFG predecessor here -- no exception edges -- so for a release
    # inside one, "afterwards" is judged by source order: the try statement that the handler belongs to lies after the use.)
    dr7 = lib.single(prog, CLIENT + "doRequest")
    USE7 = (CONN + "perform", CONN + "asyncPerform", CONN + "performImpl")
    uses7 = [e for e in dr7.events("call") if (e.get("callee") or "") in USE7]
    ck.require(uses7, "Client::doRequest does not hand a request to the claimed connection")
    rels7 = [e for e in dr7.events("call") if (e.get("callee") or "") == POOL + "releaseConnection"]
    handler_blocks7 = set()
    for hb in [b for b in dr7.blocks.values() if b.label and b.label.get("k") == "catch"]:
        handler_blocks7 |= set(cfg.reachable_blocks(dr7, hb.id)) | {hb.id}
    late7 = []
    for r_ in rels7:
        if r_.block in handler_blocks7 and not any(any(x is r_ for x in cfg.events_after(dr7, u_)) for u_ in uses7):
            if any((u_.get("l") or 0) < (r_.get("l") or 0) for u_ in uses7):
                late7.append(r_)
        elif any(any(x is r_ for x in cfg.events_after(dr7, u_)) for u_ in uses7):
            late7.append(r_)
    ck.ob("C15-R7", "doRequest/used-connection-not-released-by-the-caller", not late7, (late7[0].loc if late7 else uses7[0].loc), dr7,
          "after the hand-over only the completion callback releases the connection" if not late7 else
          "releaseConnection at line %s gives back a connection that was already handed a request at line %s: the pool hands it to the next "
          "request while the first is still queued on it" % (late7[0].get("l"), uses7[0].get("l")))

    # ---------------- R15: the request is parked on the connection before the connect is started ----------------
    ck.rule("C15-R15", "C ordering",
            "on the arm of Client::doRequest that uses a connection which still has to connect, the request is handed to the connection "
            "(asyncPerform parks it in the connection's queue) before Connection::connect is called: the reactor thread drains that "
            "queue once, when the connect completes -- a request parked after that is never sent, never times out and keeps its slot", 1)
    conn_calls = [e for e in dr7.events("call") if (e.get("callee") or "") == CONN + "connect"]
    parks = [e for e in dr7.events("call") if (e.get("callee") or "") == CONN + "asyncPerform"]
    ck.require(conn_calls and parks, "Client::doRequest: connect (%d) / asyncPerform (%d) not found" % (len(conn_calls), len(parks)))
    dom15 = cfg.dominators(dr7)
    for c_ in conn_calls:
        okp = any(cfg.ev_dominates(dom15, p_, c_) for p_ in parks)
        ck.ob("C15-R15", "doRequest/parked-before-connect@%s" % c_.get("l"), okp, c_.loc, dr7,
              "asyncPerform precedes connect" if okp else
              "connect() at line %s is started before the request is parked on the connection: if the connect completes first, the drain of the "
              "connection's queue finds nothing and nothing looks at the queue again" % c_.get("l"))

    # ---------------- R9: check-then-enqueue is followed by a re-check ----------------
    ck.rule("C15-R9", "C must-pass-through (lost wake-up)",
            "in Client::doRequest, on the arm where no connection could be claimed, the enqueue of the request is followed on every path by "
            "processRequestQueue(): the completion that frees a connection may run between the failed pick and the enqueue and then finds "
            "the queue still empty", 1)
    dr = lib.single(prog, CLIENT + "doRequest")
    enq_lams = [lf for lf in prog.lambdas_in(dr) if [e for e in lf.calls(lambda e: e.base_callee() == "Pistache::MPMCQueue::enqueue")]]
    ck.require(enq_lams, "enqueue of the waiting request not found in Client::doRequest")
    # the place in doRequest where the queuing lambda is handed to the promise (it runs synchronously in the Promise constructor)
    sites = []
    for ev in dr.events():
        if ev["k"] in ("call", "construct", "decl"):
            for a_ in (ev.get("args") or []) + (ev.get("cargs") or []):
                if a_.get("lam") and any(lf.id.split("#in:")[0] == a_["lam"].split("#in:")[0] for lf in enq_lams):
                    sites.append(ev)
    ck.require(sites, "the queuing lambda is not handed to anything in Client::doRequest")
    recheck = lambda e: e["k"] == "call" and (e.get("callee") or "") == CLIENT + "processRequestQueue"
    for ev in sites[:1]:
        bad = [x for x in cfg.exits_without(dr, recheck, start_block=ev.block, start_idx=ev.idx + 1) if x.kind != "throw"]
        ck.ob("C15-R9", "doRequest/recheck-after-enqueue", not bad, ev.loc, dr,
              "processRequestQueue() follows the enqueue on every path" if not bad else
              "the request is queued and doRequest returns without looking at the pool again: if the last busy connection finished in between, "
              "nothing ever starts the queued request")

    # ---------------- R8: a fired time-out is unregistered before its callback ----------------
    ck.rule("C15-R8", "C ordering",
            "Transport::handleReadableEntry erases the expired timer's entry from `timeouts` before it calls Connection::handleTimeout: the "
            "callback may start the next queued request on the same connection and timer, whose registration (a keep-first insert) must "
            "find the slot free and must not be erased afterwards", 1)
    hre = lib.single(prog, E + "Transport::handleReadableEntry")
    hto = [e for e in hre.calls(lambda e: (e.get("callee") or "") == CONN + "handleTimeout")]
    is_terase = lambda e: e["k"] == "call" and e.base_callee() == "std::unordered_map::erase" and strip_tmpl((e.get("recv") or {}).get("f") or "") == E + "Transport::timeouts"
    s8 = lib.Summaries(prog)
    may_erase = s8.lift_may(is_terase, "timeouts-erase")
    ers = [e for e in hre.events("call") if may_erase(e)]
    ck.require(hto and ers, "handleTimeout call / timeouts.erase not found in handleReadableEntry (or the helpers it calls)")
    # no erase (direct or inside a helper) can run after the callback; one lies before it
    after = [e for e in cfg.events_after(hre, hto[0]) if any(e is x for x in ers)]
    before = [x for x in ers if cfg.ev_dominates(cfg.dominators(hre), x, hto[0]) or hto[0].block in cfg.reachable_blocks(hre, x.block)]
    ck.ob("C15-R8", "handleReadableEntry/erase-before-callback", bool(before) and not after, hto[0].loc, hre,
          "timeouts.erase(fd) precedes handleTimeout()" if before and not after else
          "timeouts.erase at line %s runs after handleTimeout(): it removes the registration of the request the callback has just started"
          % (after[0].get("l") if after else "?"))

    # ---------------- R5 ----------------
    rr = lib.single(prog, "Pistache::TimerPool::Entry::registerReactor")
    once = [b for b in rr.blocks.values() if b.term and b.term.get("k") == "if" and strip_tmpl((b.term.get("core") or {}).get("f") or "") == "Pistache::TimerPool::Entry::registered"]
    regs = [e for e in rr.calls(lambda e: (e.get("callee") or "").startswith("Pistache::Aio::Reactor::registerFd"))]
    ck.require(regs, "registration call not found in TimerPool::Entry::registerReactor")
    ok = all((e.get("callee") or "") == "Pistache::Aio::Reactor::registerFd" for e in regs) if once else True
    ck.ob("C15-R5", "TimerPool::Entry::registerReactor/persistent", ok, regs[0].loc, rr,
          "registered once under `registered`, with %s" % ", ".join(sorted({(e.get("callee") or "").rsplit("::", 1)[1] for e in regs})))

    # ---------------- R10: units of the armed time-out; "not connected" only together with close ----------------
    ck.rule("C15-R10", "H unit agreement + D who-may-write",
            "a std::chrono value converted for a timespec member is converted to that member's unit (tv_sec <- seconds, tv_nsec <- "
            "nanoseconds, tv_usec <- microseconds): a request time-out with a sub-second part would otherwise fire at once; and the "
            "connection's state is set back to NotConnected only where its socket is closed (or was never opened), so a connection "
            "that is told to reconnect does not leave its old socket open beside the new one", 2)
    UNIT = {"tv_sec": "seconds", "tv_nsec": "nanoseconds", "tv_usec": "microseconds"}
    nun = 0
    for fn_ in prog.library_funcs():
        if fn_.file.startswith(facts.VERIF):
            continue
        for e in fn_.events("assign"):
            fld_ = ((e.get("lhs") or {}).get("f") or "").rsplit("::", 1)[-1]
            if fld_ not in UNIT:
                continue
            rhs = (e.get("rhs") or {}).get("t") or ""
            m_ = re.findall(r"duration_cast<\s*(?:std::chrono::)?(\w+)\s*>", rhs)
            if not m_:
                continue
            nun += 1
            ok_ = all(u_ == UNIT[fld_] for u_ in m_)
            ck.ob("C15-R10", "%s/%s-unit" % (fn_.base.replace("Pistache::", ""), fld_), ok_, e.loc, fn_,
                  "%s <- %s" % (fld_, ", ".join(m_)) if ok_ else "%s is given a count of %s: the timer fires after the wrong time" % (fld_, ", ".join(m_)))
    ck.require(nun >= 2, "chrono -> timespec conversions found: %d" % nun)
    for fn_ in prog.library_funcs():
        if not fn_.file.endswith("/client/client.cc"):
            continue
        for e in fn_.events("call"):
            if e.base_callee() in ("std::atomic::store", "std::__atomic_base::store") and strip_tmpl((e.get("recv") or {}).get("f") or "") == CONN + "connectionState_" and \
                    any("NotConnected" in (a_.get("t") or "") or str(a_.get("const") or "").endswith("NotConnected") for a_ in e.get("args", [])):
                own = prog.owner(fn_)
                closes = [c_ for c_ in own.events("call") if (c_.get("callee") or "") == "close" and not (c_.get("cfile") or "").startswith(facts.REPO)]
                ok_ = bool(closes) or own.d.get("ctor") or own.base == CONN + "close"
                ck.ob("C15-R10", "connectionState_=NotConnected in %s" % own.base.replace(E, ""), ok_, e.loc, fn_,
                      "together with close(fd)" if ok_ else
                      "%s marks the connection NotConnected without closing its socket: the next request connects again and the old socket stays open "
                      "(more connections per host than the configured maximum)" % own.base.replace(E, ""))

    # ---------------- R12: a time-out timer belongs to one connection ----------------
    ck.rule("C15-R12", "I ownership (type-level)",
            "the client's Transport files time-out timers under their descriptor with a keep-first insert (timeouts.insert(fd -> "
            "connection)), which is right only while a timer descriptor is always used by the same connection: every TimerPool is a member "
            "of a Connection, none is shared between connections (a pool in the Transport or the Client would hand a descriptor to another "
            "connection while the table still names the first one, and the time-out would be delivered to the wrong request)", 1)
    owners = []
    for c_ in prog.class_list:
        if c_.get("dependent") or not c_["name"].startswith("Pistache::"):
            continue
        for x in c_["fields"]:
            ct = (x.get("ctype") or x["type"]).replace(" ", "")
            if re.search(r"(^|[<,:])Pistache::TimerPool($|[>,&*])", ct) or ct in ("TimerPool", "Pistache::TimerPool"):
                owners.append((c_, x))
    ck.require(owners, "no class holds a TimerPool")
    for c_, x in owners:
        okc = c_["name"] == E + "Connection"
        ck.ob("C15-R12", "type:%s::%s" % (c_["name"].replace("Pistache::", ""), x["name"]), okc, "%s:%s" % (c_["file"], x.get("line") or 0), "",
              "one pool per connection" if okc else
              "%s holds a TimerPool: its timers travel between connections while Transport::timeouts keeps the first connection it saw for "
              "a descriptor" % c_["name"].replace("Pistache::", ""), nontrivial=False)

    # ---------------- facts shared with C04 ----------------
    ck.borrow("C04", ["C04-R1"], "C15-R11",
              "a pooled connection whose transfer failed starts its next request with an empty response parser: handleError resets the "
              "parser on every path, also when no request is in flight (the remote end closing an idle connection after a time-out) -- "
              "otherwise the bytes of the abandoned response are spliced in front of the next request's answer",
              key_pred=lambda k: k in ("Connection::handleError/always-resets", "Connection::handleResponsePacket/Done-resets"), min_instances=2)
