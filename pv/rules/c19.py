"""C19 — address and port text forms are parsed exactly or rejected.

Decides: range- and garbage-checked narrowing of the port, empty-port rejection, default port constant, bracket discipline,
conversion only through inet_pton / inet_ntop with a rejection arm.  Correctness for every literal form is value-level."""
import re
from .. import cfg, lib, facts
from ..facts import AnalysisBroken, strip_tmpl

P = "Pistache::"


def run(ck):
    prog = ck.prog
    ck.rule("C19-R1", "B range check dominates narrowing",
            "every static_cast<uint16_t> of a value produced by a text-to-number conversion (Port::Port(const std::string&), "
            "Address::init) is reached only past a bail-out that throws std::invalid_argument and whose condition tests the end pointer "
            "(trailing garbage) and the value against Port::min() and Port::max(); the conversion is strtol with an end pointer", 1)
    ck.rule("C19-R2", "C path facts",
            "an empty port after a colon is rejected with invalid_argument (AddressParser and Address::init); without a port the default is "
            "Const::HTTP_STANDARD_PORT; an empty port string is rejected by Port::Port; only ':port' may follow a bracketed literal", 5)
    ck.rule("C19-R3", "D who-may-call",
            "text-to-binary conversion happens only through inet_pton in GetIPv4/GetIPv6 with a rejection arm on its result; binary-to-text "
            "only through inet_ntop", 3)

    def in_net(f):
        return f.file.endswith("/common/net.cc") or f.file.endswith("/pistache/net.h")
    CONVS = ("strtol", "strtoul", "strtoll", "std::stol", "std::stoi", "std::stoul", "atoi", "atol", "std::strtol", "sscanf", "std::from_chars")
    # every function of the address/port parser that narrows a converted number to a port (Port(const std::string&), Address::init or
    # the helper it delegates to)
    U16 = ("uint16_t", "unsigned short")
    is_inv = lambda e: e["k"] == "throw" and "invalid_argument" in (e.get("type") or "")

    def throwing_guards(f, sink, entry=None):
        """references of the decisions that stand between the function's entry and `sink` and whose other way out always throws
        invalid_argument -- whatever the spelling (`if (bad || bad2) throw;` before the sink, or `if (ok && ok2) <sink>; throw;`)"""
        refs, txt = set(), []
        for b in f.blocks.values():
            t = b.term
            if not t or len(b.succs) != 2 or None in b.succs:
                continue
            for k in (0, 1):
                if cfg.edge_dominates(f, b.id, k, sink, entry=entry):
                    other = b.succs[1 - k]
                    # following the rest of a short-circuit chain on the other side is fine as long as every way out throws
                    quiet = [x for x in cfg.exits_without(f, is_inv, start_block=other) if x.kind != "throw"]
                    reaches = any(x is sink for x in cfg.events_from_block(f, other))
                    if not quiet and not reaches or (reaches and t.get("k") in ("lor", "land")):
                        refs |= set(t.get("leafrefs") or t.get("refs") or [])
                        txt.append(t.get("cond") or "")
        # a decision on a bool local is a decision on what the local was computed from (`const bool inRange = a && b; if (!inRange) throw`)
        grown = True
        while grown:
            grown = False
            for d_ in f.events("decl"):
                if d_.get("var") and ("v:" + d_["var"]) in refs and "bool" in (d_.get("ctype") or d_.get("type") or ""):
                    more = set(d_.get("refs") or [])
                    # the operands of the initialiser are evaluated in the blocks before the declaration (short-circuit chains)
                    for e_ in f.events(("cmp", "call", "member", "deref")):
                        if e_.get("l") == d_.get("l") and e_.get("fl") == d_.get("fl"):
                            more |= set(e_.get("refs") or [])
                            for side in ("lhs", "rhs"):
                                sv = e_.get(side) or {}
                                if sv.get("v"):
                                    more.add("v:" + sv["v"])
                                if sv.get("root"):
                                    more.add("v:" + sv["root"])
                                if "Port::max()" in (sv.get("t") or ""):
                                    more.add("c:" + P + "Port::max")
                                if "Port::min()" in (sv.get("t") or ""):
                                    more.add("c:" + P + "Port::min")
                    if not more <= refs:
                        refs |= more
                        grown = True
        return refs, txt

    def conversion_facts(f):
        """(value variable, end-pointer / result variable, kind) of the text-to-number conversion in f, or None"""
        for e in f.calls(lambda e: (e.get("callee") or "") in ("strtol", "std::strtol")):
            d = [x for x in f.events("decl") if x.get("icall") in ("strtol", "std::strtol") and x.block == e.block and x.idx > e.idx]
            a1 = e["args"][1] if len(e.get("args", [])) > 1 else {}
            endp = ((a1.get("t") or "").lstrip("&")) if (a1.get("t") or "").startswith("&") else None
            if d:
                return d[0]["var"], endp, "strtol"
            # `long port = <default>; ... port = strtol(..)`: the value is assigned, not declared, from the conversion
            a_ = [x for x in f.events("assign") if x.block == e.block and x.idx > e.idx and (x.get("lhs") or {}).get("v") and
                  re.sub(r"\s+", "", e.get("t") or "") in re.sub(r"\s+", "", (x.get("rhs") or {}).get("t") or "")]
            if a_:
                return a_[0]["lhs"]["v"], endp, "strtol"
        for e in f.calls(lambda e: strip_tmpl(e.get("callee") or "") == "std::from_chars"):
            if len(e.get("args", [])) >= 3 and e["args"][2].get("v"):
                rv_ = [x["var"] for x in f.events("decl") if strip_tmpl(x.get("icall") or "") == "std::from_chars" and x.get("var")]
                return e["args"][2]["v"], (rv_[0] if rv_ else None), "from_chars"
        return None

    def check_sink(f, sink, src, endp, kind):
        # the decisions between the conversion and the sink (a way to the sink that by-passes the conversion -- a default value --
        # has nothing to validate)
        conv_ = [e for e in f.calls(lambda e: (e.get("callee") or "") in ("strtol", "std::strtol") or strip_tmpl(e.get("callee") or "") == "std::from_chars")]
        chain_refs, _txt = throwing_guards(f, sink, entry=conv_[0].block if conv_ else None)
        end_derived = lib.derived_vars(f, {endp}) if endp else set()
        has_val = ("v:" + src) in chain_refs
        has_max = "c:" + P + "Port::max" in chain_refs
        has_min = "c:" + P + "Port::min" in chain_refs
        if kind == "strtol":
            has_end = endp is not None and any(("v:" + v_) in chain_refs for v_ in end_derived)
            ok_ = has_end and has_min and has_max and has_val
            return ok_, "conversion by strtol with end pointer: %s; bail-out tests *%s: %s, Port::min(): %s, Port::max(): %s" % (endp is not None, endp, has_end, has_min, has_max)
        has_ec = "f:std::from_chars_result::ec" in chain_refs
        has_ptr = "f:std::from_chars_result::ptr" in chain_refs
        d = [x for x in f.events("decl") if x.get("var") == src]
        unsigned_ = bool(d) and "unsigned" in (d[0].get("ctype") or d[0].get("type") or "")
        ok_ = has_ec and has_ptr and has_max and has_val and (has_min or unsigned_)
        return ok_, "conversion by std::from_chars: bail-out tests result.ec: %s, result.ptr: %s, Port::max(): %s%s" % (
            has_ec, has_ptr, has_max, "" if has_ec else " — an out-of-range text is reported only through ec; the value keeps its initial value and passes the range test")
    # every function of the address/port parser that converts text to a number: the converted value reaches a narrowing cast or is
    # returned (a validating helper) only past decisions that test the end of the conversion and both bounds and otherwise throw
    targets = []
    validated_helpers = set()
    nconv = 0
    for f in [f for f in prog.library_funcs() if in_net(f) and f.blocks]:
        cf = conversion_facts(f)
        if not cf:
            continue
        src, endp, kind = cf
        casts = [e for e in f.events("cast") if (e.get("to") or "").replace("std::", "") in U16 and (e.get("sub") or {}).get("v") == src]
        rets = [e for e in f.events("return") if (e.get("val") or {}).get("v") == src or (e.get("t") or "").strip() == src]
        if not casts and not rets:
            continue
        targets.append(f)
        nconv += 1
        all_ok = True
        for snk in casts + rets:
            ok_, detail = check_sink(f, snk, src, endp, kind)
            all_ok = all_ok and ok_
            ck.ob("C19-R1", "%s/range-checked-narrowing" % f.base.replace(P, ""), ok_, snk.loc, f, detail)
        if rets and all_ok:
            validated_helpers.add(f.base)
    # a conversion routine that cannot report trailing text or overflow (stol / stoi / atoi / strtoul without end pointer ...)
    for f in [f for f in prog.library_funcs() if in_net(f) and f.blocks and f not in targets]:
        weak = {}
        for d_ in f.events("decl"):
            if d_.get("var") and (d_.get("icall") or "") in CONVS and (d_.get("icall") or "") not in ("strtol", "std::strtol"):
                weak[d_["var"]] = d_["icall"]
        for a_ in f.events("assign"):
            m_ = re.search(r"\b((?:std::)?(?:stol|stoi|stoul|stoll|atoi|atol|strtoul|strtoll))\(", (a_.get("rhs") or {}).get("t") or "")
            if m_ and (a_.get("lhs") or {}).get("v"):
                weak[a_["lhs"]["v"]] = m_.group(1)
        for var_, conv_ in weak.items():
            for c in [e for e in f.events("cast") if (e.get("to") or "").replace("std::", "") in U16 and (e.get("sub") or {}).get("v") == var_]:
                nconv += 1
                targets.append(f)
                ck.ob("C19-R1", "%s/range-checked-narrowing" % f.base.replace(P, ""), False, c.loc, f,
                      "the port number is converted with %s, which gives no end position to test: digits followed by other text are accepted" % conv_)
    ck.require(nconv >= 1, "functions that convert text to a port number: %d found" % nconv)
    # the bounds themselves are valid ports: the converted value is compared with Port::max() only by `>` / `<=` and with Port::min()
    # only by `<` / `>=` (whichever way round and on whichever arm) -- `<` / `>=` against max or `>` / `<=` against min puts the bound on
    # the rejecting side
    SWP = {"<": ">", ">": "<", "<=": ">=", ">=": "<=", "==": "==", "!=": "!="}
    nb = 0
    for f in targets:
        cf = conversion_facts(f)
        if not cf:
            continue
        src = cf[0]
        comps = [(e.get("op"), e.get("lhs") or {}, e.get("rhs") or {}, e) for e in f.events("cmp")]
        comps += [(b.term.get("cmp"), b.term.get("lhs") or {}, b.term.get("rhs") or {}, b.elems[-1] if b.elems else None) for b in f.blocks.values() if b.term and b.term.get("cmp")]
        seen_ = set()
        for op, l_, r_, ev_ in comps:
            for a_, o_, op_ in ((l_, r_, op), (r_, l_, SWP.get(op))):
                if a_.get("v") != src or op_ is None:
                    continue
                ot = re.sub(r"\s+", "", o_.get("t") or "")
                which = "max" if ot.endswith("Port::max()") or ot in ("65535", "UINT16_MAX") or "numeric_limits<uint16_t>::max()" in ot else \
                        "min" if ot.endswith("Port::min()") or ot == "0" else None
                key_ = (f.id, which, op_, (ev_.get("l") if ev_ is not None else 0))
                if which is None or key_ in seen_:
                    continue
                seen_.add(key_)
                nb += 1
                good = op_ in ((">", "<=") if which == "max" else ("<", ">="))
                ck.ob("C19-R1", "%s/bound-%s-is-a-valid-port" % (f.base.replace(P, ""), which), good, ev_.loc if ev_ is not None else f.loc, f,
                      "%s %s Port::%s()" % (src, op_, which) if good else
                      "`%s %s Port::%s()`: the %s valid port number itself falls on the rejecting side of this test" % (src, op_, which, "largest" if which == "max" else "smallest"))
    ck.require(nb >= 1, "comparisons of the converted number with the port bounds: %d found" % nb)
    # narrowing casts elsewhere in the parser take the result of such a validating helper (directly or through a local)
    for f in [f for f in prog.library_funcs() if in_net(f) and f.blocks and f not in targets]:
        hv = {d_["var"] for d_ in f.events("decl") if d_.get("var") and strip_tmpl(d_.get("icall") or "") in validated_helpers}
        for c in [e for e in f.events("cast") if (e.get("to") or "").replace("std::", "") in U16]:
            sub = c.get("sub") or {}
            from_helper = sub.get("v") in hv or any(("c:" + h_) in (c.get("refs") or []) or h_.rsplit("::", 1)[1] + "(" in (sub.get("t") or "") for h_ in validated_helpers)
            if from_helper:
                targets.append(f)
                ck.ob("C19-R1", "%s/narrows-a-validated-number" % f.base.replace(P, ""), True, c.loc, f, "the operand is the result of a helper that validates end and range before it returns")

    # ---------------- R2 ----------------
    # (a) no conversion of an empty string: every strtol in these functions is reached only on an edge that knows `.empty()` is false
    for f in targets:
        for e in f.calls(lambda e: (e.get("callee") or "") in ("strtol", "std::strtol")):
            # in the function itself, or -- for a conversion helper -- at every place the helper is called
            ok = lib.guard_dominates(prog, e, lambda g_: lib.result_edges(g_, "std::basic_string::empty", False))
            ck.ob("C19-R2", "%s/empty-never-converted" % f.base.replace(P, ""), ok, e.loc, f,
                  "strtol is reached only when the port text is not empty" if ok else "an empty port string reaches strtol and is accepted as port 0")
    pcs = [f for f in targets if f.base == P + "Port::Port"]
    for pc in pcs:
        emp = lib.result_edges(pc, "std::basic_string::empty", True)
        ok = bool(emp) and all(not [x for x in cfg.exits_without(pc, lambda e: e["k"] == "throw" and "invalid_argument" in (e.get("type") or ""), start_block=pc.blocks[bid].succs[k]) if x.kind != "throw"]
                               for bid, k in emp)
        ck.ob("C19-R2", "Port::Port/empty-rejected-before-conversion", ok, pc.loc, pc, "data.empty() throws invalid_argument before strtol")
    # (b) the function that decides what a missing port means (it asks the parser hasColon()): colon without port -> invalid_argument,
    # no colon -> the standard port
    hcf = [f for f in prog.library_funcs() if in_net(f) and [e for e in f.calls(lambda e: (e.get("callee") or "") == P + "AddressParser::hasColon")]]
    ck.require(hcf, "no caller of AddressParser::hasColon")
    for ai in hcf:
        colon = lib.result_edges(ai, P + "AddressParser::hasColon", True)
        nocolon = lib.result_edges(ai, P + "AddressParser::hasColon", False)
        empt = lib.result_edges(ai, "std::basic_string::empty", True)
        ck.require(colon and nocolon, "hasColon() test not found in %s" % ai.base)
        thr_ok = all(not [x for x in cfg.exits_without(ai, lambda e: e["k"] == "throw" and "invalid_argument" in (e.get("type") or ""), start_block=ai.blocks[bid].succs[k]) if x.kind != "throw"]
                     for bid, k in colon)
        hc_call = [e for e in ai.calls(lambda e: (e.get("callee") or "") == P + "AddressParser::hasColon")]
        nonempty = lib.result_edges(ai, "std::basic_string::empty", False)
        # the colon test concerns the empty-port case only: it is reached on the `.empty()` edge, or not reachable from the non-empty one
        reached_on_empty = all(any(cfg.edge_dominates(ai, bid, k, e) for bid, k in empt) or
                               not any(any(x is e for x in cfg.events_from_block(ai, ai.blocks[bid].succs[k])) for bid, k in nonempty) for e in hc_call) and bool(empt or nonempty)
        ck.ob("C19-R2", "Address::init/empty-port-after-colon-rejected", thr_ok and reached_on_empty, ai.loc, ai, "portPart.empty() && hasColon() throws invalid_argument")
        # the default is taken (stored directly, or put into the local that is stored) on the way that has neither a port nor a colon:
        # an event that mentions the constant and lies neither on the non-empty-port edge nor on the colon edge
        def mentions_default(e):
            return "HTTP_STANDARD_PORT" in ((e.get("t") or "") + ((e.get("init") or {}).get("t") or "")) or any("HTTP_STANDARD_PORT" in r_ for r_ in (e.get("refs") or []))
        dflt = [e for e in ai.events(("call", "assign", "construct", "return", "decl")) if mentions_default(e)
                and not any(cfg.edge_dominates(ai, bid, k, e) for bid, k in nonempty) and not any(cfg.edge_dominates(ai, bid, k, e) for bid, k in colon)]
        ck.ob("C19-R2", "Address::init/default-port-constant", bool(dflt), dflt[0].loc if dflt else ai.loc, ai, "port_ = Const::HTTP_STANDARD_PORT when no port is given")
    ap = [f for f in prog.find(P + "AddressParser::AddressParser", 1)][0]
    pt = [b for b in ap.blocks.values() if b.term and b.term.get("k") == "if" and "empty" in (b.term.get("cond") or "") and ("f:" + P + "AddressParser::port_") in (b.term.get("refs") or [])]
    thr = [e for e in cfg.events_from_block(ap, pt[0].succs[0], stop=lambda e: e["k"] == "throw") if e["k"] == "throw" and "invalid_argument" in (e.get("type") or "")] if pt else []
    ck.ob("C19-R2", "AddressParser/empty-port-rejected", bool(pt) and bool(thr), ap.loc, ap, "port_.empty() after a colon throws invalid_argument")
    # bracket discipline: in the IPv6 branch a bail-out tests the character after ']' against ':'
    pname = ap.params[0]["name"] if ap.params else "data"
    # edges on which a character of the input (data[...]) is known to differ from ':'
    bad_edges = []
    for b in ap.blocks.values():
        if not b.term or len(b.succs) != 2 or b.term.get("rconst") != "c:58":
            continue
        for k in (0, 1):
            r = lib.rel_on_edge(b.term, k)
            if b.succs[k] is not None and r is not None and r[1] == "!=" and ((r[0].get("root") == pname) or (r[0].get("t") or "").startswith(pname + "[")):
                bad_edges.append((b, k))
    br = [b for b, _k in bad_edges]
    is_inv = lambda e: e["k"] == "throw" and "invalid_argument" in (e.get("type") or "")
    all_throw = bool(bad_edges) and all(not [x for x in cfg.exits_without(ap, is_inv, start_block=b.succs[k]) if x.kind != "throw"] for b, k in bad_edges)
    fam6 = [e for e in ap.events("assign") if strip_tmpl(e["lhs"].get("f") or "") == P + "AddressParser::family_" and "10" in str(e.get("const"))]
    # the test may be the right-hand side of a `size check && char check` chain: the chain's first block must dominate acceptance
    heads = list(br)
    for b in ap.blocks.values():
        if b.term and b.term.get("k") == "land" and any(s_ in [x.id for x in br] for s_ in b.succs if s_ is not None):
            heads.append(b)
    ok = all_throw and bool(fam6) and all(not any(x is fam6[0] for x in cfg.events_from_block(ap, b.succs[k])) for b, k in bad_edges) and \
        any(b.id in cfg.dominators(ap).get(fam6[0].block, ()) for b in heads)
    ck.ob("C19-R2", "AddressParser/only-colon-after-bracket", ok, br[0].term and "%s:%s" % (ap.file, br[0].term.get("l")) if br else ap.loc, ap,
          "text after ']' that does not start with ':' throws invalid_argument before the literal is accepted" if ok else
          "nothing checks the character after ']': junk between the bracket and the port is silently dropped")

    # ---------------- R3 ----------------
    # scope: the address/port text parser (net.cc / net.h); Peer::hostname's reverse lookup is not address parsing
    def in_scope(f):
        return f.file.endswith("/common/net.cc") or f.file.endswith("/pistache/net.h")
    ptons = [e for f in prog.funcs.values() for e in f.calls(lambda e: (e.get("callee") or "") == "inet_pton") if in_scope(f)]
    ck.require(len(ptons) >= 2, "inet_pton call sites: %d" % len(ptons))
    for e in ptons:
        f = e.func
        okf = f.base.rsplit("::", 1)[-1] in ("GetIPv4", "GetIPv6")
        # result tested
        d = [x for x in f.blocks[e.block].elems[e.idx + 1:] if x["k"] == "decl" and x.get("icall") == "inet_pton"]
        tested = False
        if d:
            v = d[0]["var"]
            tests = [b for b in f.blocks.values() if b.term and b.term.get("k") in ("if", "lor") and ("v:" + v) in (b.term.get("refs") or [])]
            tested = any(any(x["k"] == "throw" for x in cfg.events_from_block(f, b.succs[0], stop=lambda x: x["k"] == "throw")) for b in tests)
        else:
            # the result is handed straight to a checking helper (`check(inet_pton(..), "message")`): in the flattened function the
            # helper's parameter is bound to the call, tested, and one arm of the test throws
            ff = prog.flat(f) if not f.is_lambda else f
            ct = re.sub(r"\s+", "", e.get("t") or "")
            pv_ = {x.get("var") for x in ff.events("bind") if ct and ct in re.sub(r"\s+", "", (x.get("init") or {}).get("t") or "")}
            tests = [b for b in ff.blocks.values() if b.term and b.term.get("k") in ("if", "lor", "land") and len(b.succs) == 2 and
                     any(r_.startswith("v:") and r_[2:].split("@")[0] in pv_ for r_ in (b.term.get("refs") or []))]
            tested = any(any(x["k"] == "throw" for x in cfg.events_from_block(ff, s_, stop=lambda x: x["k"] == "throw")) for b in tests for s_ in b.succs if s_ is not None)
        ck.ob("C19-R3", "inet_pton in %s" % f.base.replace(P, ""), okf and tested, e.loc, f, "result tested, failure throws" if tested else "result of inet_pton is not checked")
    ntops = [e for f in prog.funcs.values() for e in f.calls(lambda e: (e.get("callee") or "") == "inet_ntop") if in_scope(f)]
    ck.require(ntops, "inet_ntop not found")
    for e in ntops:
        ck.ob("C19-R3", "inet_ntop in %s" % e.func.base.replace(P, ""), True, e.loc, e.func, "binary-to-text through inet_ntop")
    # inet_ntop is given room for the longest text of its family and never more than its destination holds
    import re as _re
    for e in ntops:
        a = e.get("args") or []
        dst_ty = (a[2].get("ty") or "") if len(a) > 2 else ""
        m_ = _re.search(r"\[(\d+)\]", dst_ty)
        cap = int(m_.group(1)) if m_ else None
        szt = (a[3].get("t") or "") if len(a) > 3 else ""
        szc = a[3].get("const") if len(a) > 3 else None
        fam = a[0].get("const") if a else None
        need = 16 if fam == 2 else (46 if fam == 10 else 16)
        if isinstance(szc, int):
            size = szc
        elif szt.replace(" ", "") == "sizeof(%s)" % (a[2].get("t") or ""):
            size = cap
        else:
            size = None
        ok = size is not None and cap is not None and need <= size <= cap
        ck.ob("C19-R3", "inet_ntop-size in %s/%s" % (e.func.base.replace(P, ""), "v4" if need == 16 else "v6"), ok, e.loc, e.func,
              "destination %s, size argument %s (needs %d)" % (dst_ty, szt, need) if ok else
              "size argument `%s` does not give inet_ntop the %d bytes the longest literal needs (destination %s): long addresses fail to print" % (szt, need, dst_ty))
    others = [e for f in prog.funcs.values() for e in f.calls(lambda e: (e.get("callee") or "") in ("inet_addr", "inet_aton", "inet_ntoa")) if in_scope(f)]
    ck.ob("C19-R3", "no-legacy-converters", not others, others[0].loc if others else ai.loc, others[0].func if others else ai, "inet_addr/inet_aton/inet_ntoa are not used", nontrivial=False)

    # ---------------- R2 (text constructors delegate entirely to init) ----------------
    AD = P + "Address::"
    ini = lib.single(prog, AD + "init")
    for fn_ in prog.library_funcs():
        if not in_net(fn_):
            continue
        for e in fn_.events(("assign", "call")):
            tgt = (e.get("lhs") or {}).get("f") if e["k"] == "assign" else ((e.get("recv") or {}).get("f") if e.get("op") == "=" else None)
            if strip_tmpl(tgt or "") in (AD + "port_", AD + "ip_") and ((e.get("lhs") or e.get("recv") or {}).get("b") in ("this", None)):
                ok_ = lib.only_reached_from(prog, fn_, {AD + "init"})
                ck.ob("C19-R2", "Address::%s written in %s" % (strip_tmpl(tgt).rsplit("::", 1)[1], prog.owner(fn_).base.replace(P, "")), ok_, e.loc, fn_,
                      "set by the text parser (init)" if ok_ else
                      "%s overwrites what Address::init parsed from the text: a port or host that the text itself carries is accepted and then "
                      "silently replaced instead of being rejected" % prog.owner(fn_).base.replace(P, ""))

    # binary-to-text: the text of an address family is produced by inet_ntop on every path of its arm of IP::toString (a hand-written
    # formatter is a second implementation of the presentation format: signed octets, zero compression, ...)
    its = lib.single(prog, P + "IP::toString")
    is_ntop = lambda e: e["k"] == "call" and (e.get("callee") or "") == "inet_ntop"
    summ_n = lib.Summaries(prog).lift_must(is_ntop, "inet_ntop")
    fam_edges = lib.relation_edges(its, lambda r_: (r_.get("f") or "").endswith("IP::family") or (r_.get("t") or "").strip() in ("family", "this->family"),
                                   lambda r_: re.sub(r"[\s()]", "", r_.get("t") or "") in ("AF_INET", "AF_INET6", "2", "10"), ("==",))
    arms_ = [(bid_, its.blocks[bid_].succs[k_], re.sub(r"\s+", "", (its.blocks[bid_].term or {}).get("cond") or "family")) for bid_, k_ in fam_edges]
    # `switch (family) { case AF_INET: ... case AF_INET6: ... }`: the case labels are the family tests
    for b_ in its.blocks.values():
        t_ = b_.term or {}
        if t_.get("k") == "switch" and ((t_.get("core") or {}).get("f") or "").endswith("IP::family") or \
                (t_.get("k") == "switch" and re.sub(r"\s+|this->", "", (t_.get("cond") if isinstance(t_.get("cond"), str) else " ".join(t_.get("cond") or [])) or "") == "family"):
            for s_ in b_.succs:
                lab_ = (its.blocks[s_].label or {}) if s_ in its.blocks else {}
                if lab_.get("k") == "case" and lab_.get("const") in (2, 10):
                    arms_.append((b_.id, s_, "family==%s" % lab_.get("const")))
    ck.require(arms_, "family tests not found in IP::toString")
    for bid_, arm_, name_ in arms_:
        loose_ = [x for x in cfg.exits_without(its, summ_n, start_block=arm_) if x.kind != "throw"]
        ck.ob("C19-R3", "IP::toString/%s-by-inet_ntop" % name_, not loose_,
              "%s:%s" % (its.file, (its.blocks[bid_].term or {}).get("l")), its,
              "the arm's text comes from inet_ntop" if not loose_ else
              "this arm of IP::toString produces the text without inet_ntop: a second, hand-written rendering of the address")
    lib.no_stale_static_rule(ck, "C19-R4", ('net.cc',), "the address and port parsers")

    # ---------------- value classes do not point into themselves ----------------
    lib.self_view_rule(ck, "C19-R5", ['Pistache::Address', 'Pistache::IP', 'Pistache::Port'],
                       "addresses are stored and passed by value (Endpoint options, Peer)")

    # ---------------- R6: whatever is rejected is rejected as std::invalid_argument ----------------
    ck.rule("C19-R6", "F effect check over the call graph (exception types)",
            "every throw expression in a library function reachable from the address / port parsers (Address constructors and init, "
            "AddressParser, Port(const std::string&)) throws std::invalid_argument, or is thrown by a helper all of whose callers in that "
            "closure catch its type and answer with std::invalid_argument -- the caller of Address(text) is promised one exception type "
            "for 'not an address'", 8)
    roots6 = [f_ for f_ in prog.funcs.values() if f_.base in ("Pistache::Address::init", "Pistache::AddressParser::AddressParser", "Pistache::Port::Port",
                                                               "Pistache::Address::Address") and f_.blocks]
    ck.require(len(roots6) >= 4, "address parser entry points found: %d" % len(roots6))
    reach6 = lib.callgraph_reach(prog, roots6)
    inlib = lambda f_: (f_.file.startswith(facts.REPO + "/src/") or f_.file.startswith(facts.REPO + "/include/"))

    def covers(handler_type, thrown):
        h = handler_type.replace("const ", "").replace("&", "").strip()
        if h in ("...", "std::exception", thrown):
            return True
        return h == "std::runtime_error" and thrown in ("std::system_error", "std::range_error", "std::overflow_error", "std::underflow_error")

    def converts(fn_, thrown):
        hs = [b for b in fn_.blocks.values() if b.label and b.label.get("k") == "catch" and covers(b.label.get("type") or "", thrown)]
        for hb in hs:
            evs = cfg.events_from_block(fn_, hb.id)
            if any(e["k"] == "throw" and e.get("type") == "std::invalid_argument" for e in evs):
                return True
        return False
    nthrow = 0
    for fid, (f2, chain) in sorted(reach6.items()):
        if not inlib(f2) or not f2.blocks:
            continue
        for e in f2.events("throw"):
            ty = e.get("type") or "?"
            nthrow += 1
            ok = ty == "std::invalid_argument"
            if not ok and ty != "?":
                callers = [c_.func for c_ in prog.call_sites(f2.base) if prog.owner(c_.func).id in reach6 or c_.func.id in reach6]
                ok = bool(callers) and f2 not in roots6 and all(converts(prog.owner(c_), ty) for c_ in callers)
            if ty == "?" and not e.get("t", "").strip().rstrip(";") == "throw":
                ok = False
            elif ty == "?":
                ok = True       # a bare `throw;` re-raises what was already judged
            ck.ob("C19-R6", "throw@%s:%s" % (f2.base.replace("Pistache::", ""), ty), ok, e.loc, f2,
                  "std::invalid_argument (or converted to it by every caller)" if ok else
                  "%s throws %s on the way of an address text through the parser and no caller turns it into std::invalid_argument: "
                  "malformed text is rejected with another exception type" % (f2.name, ty), path=chain)
    ck.require(nthrow >= 8, "throw expressions in the address parser closure: %d" % nthrow)

    # ---------------- R7: the parser hands init() only families init() knows ----------------
    ck.rule("C19-R7", "H writer/reader agreement (address family)",
            "Address::init builds the address on the `family == AF_INET` and `family == AF_INET6` arms; what falls through is stopped by an "
            "assert only, which the release build compiles out (the result is then 0.0.0.0 with the default port).  So every value the "
            "AddressParser stores into its family is one init() compares against -- a third verdict ('unspecified', 'malformed') must be "
            "an exception, not a family", 2)
    apc = [f_ for f_ in prog.funcs.values() if f_.base == "Pistache::AddressParser::AddressParser" and f_.blocks]
    ini = lib.single(prog, "Pistache::Address::init")
    handled = {b_.term.get("rconst") for b_ in ini.blocks.values() if b_.term and b_.term.get("cmp") in ("==", "!=") and "family" in (b_.term.get("cond") or "") and isinstance(b_.term.get("rconst"), int)}
    # (`switch (parser.family()) { case AF_INET6: .. case AF_INET: .. }`: the labels are the comparisons)
    for b_ in ini.blocks.values():
        if (b_.term or {}).get("k") == "switch" and "family" in str(b_.term.get("cond") or ""):
            for s_ in b_.succs:
                lab_ = (ini.blocks[s_].label or {}) if s_ in ini.blocks else {}
                if lab_.get("k") == "case" and isinstance(lab_.get("const"), int):
                    handled.add(lab_["const"])
    ck.require(apc and len(handled) >= 2, "AddressParser constructor / family tests of Address::init not found (%s)" % sorted(handled))
    nfam = 0
    for f_ in apc:
        for e in f_.events("assign"):
            if not ((e.get("lhs") or {}).get("f") or "").endswith("AddressParser::family_"):
                continue
            nfam += 1
            c_ = e.get("const")
            ok_ = isinstance(c_, int) and c_ in handled
            ck.ob("C19-R7", "AddressParser/family@%s" % e.get("l"), ok_, e.loc, f_,
                  "stores %s, which Address::init handles" % c_ if ok_ else
                  "stores %s into the family, which Address::init does not handle (it knows %s): with NDEBUG the text is accepted as the "
                  "all-zero address" % ((e.get("rhs") or {}).get("t") if c_ is None else c_, sorted(handled)))
    ck.require(nfam >= 2, "stores to AddressParser::family_: %d" % nfam)

