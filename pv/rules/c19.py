"""C19 — address and port text forms are parsed exactly or rejected.

Decides: range- and garbage-checked narrowing of the port, empty-port rejection, default port constant, bracket discipline,
conversion only through inet_pton / inet_ntop with a rejection arm.  Correctness for every literal form is value-level."""
from .. import cfg, lib, facts
from ..facts import AnalysisBroken, strip_tmpl

P = "Pistache::"


def run(ck):
    prog = ck.prog
    ck.rule("C19-R1", "B range check dominates narrowing",
            "every static_cast<uint16_t> of a value produced by a text-to-number conversion (Port::Port(const std::string&), "
            "Address::init) is reached only past a bail-out that throws std::invalid_argument and whose condition tests the end pointer "
            "(trailing garbage) and the value against Port::min() and Port::max(); the conversion is strtol with an end pointer", 2)
    ck.rule("C19-R2", "C path facts",
            "an empty port after a colon is rejected with invalid_argument (AddressParser and Address::init); without a port the default is "
            "Const::HTTP_STANDARD_PORT; an empty port string is rejected by Port::Port; only ':port' may follow a bracketed literal", 5)
    ck.rule("C19-R3", "D who-may-call",
            "text-to-binary conversion happens only through inet_pton in GetIPv4/GetIPv6 with a rejection arm on its result; binary-to-text "
            "only through inet_ntop", 3)

    def in_net(f):
        return f.file.endswith("/common/net.cc") or f.file.endswith("/pistache/net.h")
    CONVS = ("strtol", "strtoul", "strtoll", "std::stol", "std::stoi", "std::stoul", "atoi", "atol", "std::strtol", "sscanf", "std::from_chars")
    # every function of the address/port parser that narrows a converted number to a port (Port(const std::string&), Address::init or
    # the helper it delegates to)
    targets = [f for f in prog.library_funcs() if in_net(f) and
               [e for e in f.events("cast") if (e.get("to") or "").replace("std::", "") in ("uint16_t", "unsigned short")] and
               [e for e in f.calls(lambda e: (e.get("callee") or "") in CONVS)]]
    ck.require(len(targets) >= 1, "functions that convert text to a port number: %d found" % len(targets))
    for f in targets:
        casts = [e for e in f.events("cast") if (e.get("to") or "").replace("std::", "") in ("uint16_t", "unsigned short")]
        convs = [e for e in f.calls(lambda e: (e.get("callee") or "") in CONVS)]
        for c in casts:
            src = (c.get("sub") or {}).get("v")
            d = [x for x in f.events("decl") if x.get("var") == src]
            conv_ok = bool(d) and (d[0].get("icall") in ("strtol", "std::strtol"))
            call = [e for e in convs if e.get("callee") in ("strtol", "std::strtol")]
            endp = None
            fc = [e for e in convs if strip_tmpl(e.get("callee") or "") == "std::from_chars" and len(e.get("args", [])) >= 3 and e["args"][2].get("v") == src]
            if call:
                a1 = call[0]["args"][1]
                endp = ((a1.get("t") or "").lstrip("&")) if (a1.get("t") or "").startswith("&") else None
                conv_ok = conv_ok and endp is not None
            elif fc:
                # std::from_chars: the value is an out-parameter; failure (including overflow, which leaves the value untouched) is
                # reported only through the result's `ec`, the end of the conversion through its `ptr`
                conv_ok = True
                rv_ = [x["var"] for x in f.events("decl") if strip_tmpl(x.get("icall") or "") == "std::from_chars" and x.get("var")]
                endp = rv_[0] if rv_ else None
            # bail-out
            guard_ok = False
            detail = "no dominating bail-out"
            for b in f.blocks.values():
                t = b.term
                if not t or t.get("k") not in ("if", "lor"):
                    continue
            # collect the `if`/lor chain whose true edge throws invalid_argument and whose false edge dominates the cast
            chain_refs = set()
            chain_txt = []
            for b in f.blocks.values():
                t = b.term
                if t and t.get("k") in ("if", "lor") and b.succs[0] is not None:
                    thr = [e for e in cfg.events_from_block(f, b.succs[0], stop=lambda e: e["k"] == "throw") if e["k"] == "throw" and "invalid_argument" in (e.get("type") or "")]
                    reach_cast = any(x is c for x in cfg.events_from_block(f, b.succs[0]))
                    if thr and not reach_cast and (b.id in cfg.dominators(f).get(c.block, ())):
                        chain_refs |= set(t.get("refs") or [])
                        chain_txt.append(t.get("cond") or "")
            full = " ".join(chain_txt)
            # the end pointer is tested in the bail-out itself, or through a bool local computed from it
            end_derived = lib.derived_vars(f, {endp}) if endp else set()
            has_end = endp is not None and any(("v:" + v_) in chain_refs for v_ in end_derived)
            has_min = "c:" + P + "Port::min" in chain_refs
            has_max = "c:" + P + "Port::max" in chain_refs
            has_val = src is not None and ("v:" + src) in chain_refs
            guard_ok = has_end and has_min and has_max and has_val
            detail = "conversion by strtol with end pointer: %s; bail-out tests *%s: %s, Port::min(): %s, Port::max(): %s" % (conv_ok, endp, has_end, has_min, has_max)
            if fc:
                has_ec = "f:std::from_chars_result::ec" in chain_refs
                has_ptr = "f:std::from_chars_result::ptr" in chain_refs
                unsigned_ = bool(d) and "unsigned" in (d[0].get("ctype") or d[0].get("type") or "")
                guard_ok = has_ec and has_ptr and has_max and has_val and (has_min or unsigned_)
                detail = "conversion by std::from_chars: bail-out tests result.ec: %s, result.ptr: %s, Port::max(): %s%s" % (
                    has_ec, has_ptr, has_max, "" if has_ec else " — an out-of-range text is reported only through ec; the value keeps its initial value and passes the range test")
            ck.ob("C19-R1", "%s/range-checked-narrowing" % f.base.replace(P, ""), conv_ok and guard_ok, c.loc, f, detail)

    # ---------------- R2 ----------------
    # (a) no conversion of an empty string: every strtol in these functions is reached only on an edge that knows `.empty()` is false
    for f in targets:
        nonempty = lib.result_edges(f, "std::basic_string::empty", False)
        for e in f.calls(lambda e: (e.get("callee") or "") in ("strtol", "std::strtol")):
            ok = any(cfg.edge_dominates(f, bid, k, e) for bid, k in nonempty)
            ck.ob("C19-R2", "%s/empty-never-converted" % f.base.replace(P, ""), ok, e.loc, f,
                  "strtol is reached only when the port text is not empty" if ok else "an empty port string reaches strtol and is accepted as port 0")
    pcs = [f for f in targets if f.base == P + "Port::Port"]
    for pc in pcs:
        emp = lib.result_edges(pc, "std::basic_string::empty", True)
        ok = bool(emp) and all(not [x for x in cfg.exits_without(pc, lambda e: e["k"] == "throw" and "invalid_argument" in (e.get("type") or ""), start_block=pc.blocks[bid].succs[k]) if x.kind != "throw"]
                               for bid, k in emp)
        ck.ob("C19-R2", "Port::Port/empty-rejected-before-conversion", ok, pc.loc, pc, "data.empty() throws invalid_argument before strtol")
    # (b) the function that decides what a missing port means (it asks the parser hasColon()): colon without port -> invalid_argument,
    # no colon -> the standard port
    hcf = [f for f in prog.library_funcs() if in_net(f) and [e for e in f.calls(lambda e: (e.get("callee") or "") == P + "AddressParser::hasColon")]]
    ck.require(hcf, "no caller of AddressParser::hasColon")
    for ai in hcf:
        colon = lib.result_edges(ai, P + "AddressParser::hasColon", True)
        nocolon = lib.result_edges(ai, P + "AddressParser::hasColon", False)
        empt = lib.result_edges(ai, "std::basic_string::empty", True)
        ck.require(colon and nocolon, "hasColon() test not found in %s" % ai.base)
        thr_ok = all(not [x for x in cfg.exits_without(ai, lambda e: e["k"] == "throw" and "invalid_argument" in (e.get("type") or ""), start_block=ai.blocks[bid].succs[k]) if x.kind != "throw"]
                     for bid, k in colon)
        hc_call = [e for e in ai.calls(lambda e: (e.get("callee") or "") == P + "AddressParser::hasColon")]
        nonempty = lib.result_edges(ai, "std::basic_string::empty", False)
        # the colon test concerns the empty-port case only: it is reached on the `.empty()` edge, or not reachable from the non-empty one
        reached_on_empty = all(any(cfg.edge_dominates(ai, bid, k, e) for bid, k in empt) or
                               not any(any(x is e for x in cfg.events_from_block(ai, ai.blocks[bid].succs[k])) for bid, k in nonempty) for e in hc_call) and bool(empt or nonempty)
        ck.ob("C19-R2", "Address::init/empty-port-after-colon-rejected", thr_ok and reached_on_empty, ai.loc, ai, "portPart.empty() && hasColon() throws invalid_argument")
        dflt = [e for bid, k in nocolon for e in cfg.events_from_block(ai, ai.blocks[bid].succs[k]) if e["k"] in ("call", "assign", "construct", "return") and "HTTP_STANDARD_PORT" in (e.get("t") or "")]
        ck.ob("C19-R2", "Address::init/default-port-constant", bool(dflt), dflt[0].loc if dflt else ai.loc, ai, "port_ = Const::HTTP_STANDARD_PORT when no port is given")
    ap = [f for f in prog.find(P + "AddressParser::AddressParser", 1)][0]
    pt = [b for b in ap.blocks.values() if b.term and b.term.get("k") == "if" and "empty" in (b.term.get("cond") or "") and ("f:" + P + "AddressParser::port_") in (b.term.get("refs") or [])]
    thr = [e for e in cfg.events_from_block(ap, pt[0].succs[0], stop=lambda e: e["k"] == "throw") if e["k"] == "throw" and "invalid_argument" in (e.get("type") or "")] if pt else []
    ck.ob("C19-R2", "AddressParser/empty-port-rejected", bool(pt) and bool(thr), ap.loc, ap, "port_.empty() after a colon throws invalid_argument")
    # bracket discipline: in the IPv6 branch a bail-out tests the character after ']' against ':'
    pname = ap.params[0]["name"] if ap.params else "data"
    # edges on which a character of the input (data[...]) is known to differ from ':'
    bad_edges = []
    for b in ap.blocks.values():
        if not b.term or len(b.succs) != 2 or b.term.get("rconst") != "c:58":
            continue
        for k in (0, 1):
            r = lib.rel_on_edge(b.term, k)
            if b.succs[k] is not None and r is not None and r[1] == "!=" and ((r[0].get("root") == pname) or (r[0].get("t") or "").startswith(pname + "[")):
                bad_edges.append((b, k))
    br = [b for b, _k in bad_edges]
    is_inv = lambda e: e["k"] == "throw" and "invalid_argument" in (e.get("type") or "")
    all_throw = bool(bad_edges) and all(not [x for x in cfg.exits_without(ap, is_inv, start_block=b.succs[k]) if x.kind != "throw"] for b, k in bad_edges)
    fam6 = [e for e in ap.events("assign") if strip_tmpl(e["lhs"].get("f") or "") == P + "AddressParser::family_" and "10" in str(e.get("const"))]
    # the test may be the right-hand side of a `size check && char check` chain: the chain's first block must dominate acceptance
    heads = list(br)
    for b in ap.blocks.values():
        if b.term and b.term.get("k") == "land" and any(s_ in [x.id for x in br] for s_ in b.succs if s_ is not None):
            heads.append(b)
    ok = all_throw and bool(fam6) and all(not any(x is fam6[0] for x in cfg.events_from_block(ap, b.succs[k])) for b, k in bad_edges) and \
        any(b.id in cfg.dominators(ap).get(fam6[0].block, ()) for b in heads)
    ck.ob("C19-R2", "AddressParser/only-colon-after-bracket", ok, br[0].term and "%s:%s" % (ap.file, br[0].term.get("l")) if br else ap.loc, ap,
          "text after ']' that does not start with ':' throws invalid_argument before the literal is accepted" if ok else
          "nothing checks the character after ']': junk between the bracket and the port is silently dropped")

    # ---------------- R3 ----------------
    # scope: the address/port text parser (net.cc / net.h); Peer::hostname's reverse lookup is not address parsing
    def in_scope(f):
        return f.file.endswith("/common/net.cc") or f.file.endswith("/pistache/net.h")
    ptons = [e for f in prog.funcs.values() for e in f.calls(lambda e: (e.get("callee") or "") == "inet_pton") if in_scope(f)]
    ck.require(len(ptons) >= 2, "inet_pton call sites: %d" % len(ptons))
    for e in ptons:
        f = e.func
        okf = f.base.rsplit("::", 1)[-1] in ("GetIPv4", "GetIPv6")
        # result tested
        d = [x for x in f.blocks[e.block].elems[e.idx + 1:] if x["k"] == "decl" and x.get("icall") == "inet_pton"]
        tested = False
        if d:
            v = d[0]["var"]
            tests = [b for b in f.blocks.values() if b.term and b.term.get("k") in ("if", "lor") and ("v:" + v) in (b.term.get("refs") or [])]
            tested = any(any(x["k"] == "throw" for x in cfg.events_from_block(f, b.succs[0], stop=lambda x: x["k"] == "throw")) for b in tests)
        ck.ob("C19-R3", "inet_pton in %s" % f.base.replace(P, ""), okf and tested, e.loc, f, "result tested, failure throws" if tested else "result of inet_pton is not checked")
    ntops = [e for f in prog.funcs.values() for e in f.calls(lambda e: (e.get("callee") or "") == "inet_ntop") if in_scope(f)]
    ck.require(ntops, "inet_ntop not found")
    for e in ntops:
        ck.ob("C19-R3", "inet_ntop in %s" % e.func.base.replace(P, ""), True, e.loc, e.func, "binary-to-text through inet_ntop")
    # inet_ntop is given room for the longest text of its family and never more than its destination holds
    import re as _re
    for e in ntops:
        a = e.get("args") or []
        dst_ty = (a[2].get("ty") or "") if len(a) > 2 else ""
        m_ = _re.search(r"\[(\d+)\]", dst_ty)
        cap = int(m_.group(1)) if m_ else None
        szt = (a[3].get("t") or "") if len(a) > 3 else ""
        szc = a[3].get("const") if len(a) > 3 else None
        fam = a[0].get("const") if a else None
        need = 16 if fam == 2 else (46 if fam == 10 else 16)
        if isinstance(szc, int):
            size = szc
        elif szt.replace(" ", "") == "sizeof(%s)" % (a[2].get("t") or ""):
            size = cap
        else:
            size = None
        ok = size is not None and cap is not None and need <= size <= cap
        ck.ob("C19-R3", "inet_ntop-size in %s/%s" % (e.func.base.replace(P, ""), "v4" if need == 16 else "v6"), ok, e.loc, e.func,
              "destination %s, size argument %s (needs %d)" % (dst_ty, szt, need) if ok else
              "size argument `%s` does not give inet_ntop the %d bytes the longest literal needs (destination %s): long addresses fail to print" % (szt, need, dst_ty))
    others = [e for f in prog.funcs.values() for e in f.calls(lambda e: (e.get("callee") or "") in ("inet_addr", "inet_aton", "inet_ntoa")) if in_scope(f)]
    ck.ob("C19-R3", "no-legacy-converters", not others, others[0].loc if others else ai.loc, others[0].func if others else ai, "inet_addr/inet_aton/inet_ntoa are not used", nontrivial=False)

    # ---------------- R2 (text constructors delegate entirely to init) ----------------
    AD = P + "Address::"
    ini = lib.single(prog, AD + "init")
    for fn_ in prog.library_funcs():
        if not in_net(fn_):
            continue
        for e in fn_.events(("assign", "call")):
            tgt = (e.get("lhs") or {}).get("f") if e["k"] == "assign" else ((e.get("recv") or {}).get("f") if e.get("op") == "=" else None)
            if strip_tmpl(tgt or "") in (AD + "port_", AD + "ip_") and ((e.get("lhs") or e.get("recv") or {}).get("b") in ("this", None)):
                ok_ = lib.only_reached_from(prog, fn_, {AD + "init"})
                ck.ob("C19-R2", "Address::%s written in %s" % (strip_tmpl(tgt).rsplit("::", 1)[1], prog.owner(fn_).base.replace(P, "")), ok_, e.loc, fn_,
                      "set by the text parser (init)" if ok_ else
                      "%s overwrites what Address::init parsed from the text: a port or host that the text itself carries is accepted and then "
                      "silently replaced instead of being rejected" % prog.owner(fn_).base.replace(P, ""))
