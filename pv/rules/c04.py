"""C04 — successive messages on a persistent connection are parsed independently.

R1: every completion path resets the parser (server onInput; client connection routines).
R2: reset completeness — every field of the parser's ownership closure that parsing may write is re-initialised by the reset
    that virtual dispatch selects for that parser (mod-set inclusion)."""
import re
from .. import cfg, lib, facts
from ..facts import AnalysisBroken, strip_tmpl

H = "Pistache::Http::"
PB = H + "Private::ParserBase::"
CONN = H + "Experimental::Connection::"


def is_reset(ev):
    return is_reset_direct(ev)


def is_reset_direct(ev):
    if ev["k"] != "call":
        return False
    c = strip_tmpl(ev.get("callee") or "")
    return c in (PB + "reset", H + "Private::ParserImpl::reset")


def run(ck):
    prog = ck.prog
    summ = lib.Summaries(prog)
    global is_reset
    _direct_reset = is_reset_direct
    is_reset = summ.lift_must(_direct_reset, "parser-reset")
    ck.rule("C04-R1", "C must-pass-through (catch handlers are separate entry regions)",
            "Http::Handler::onInput resets the parser on every path that leaves after onRequest, after a refused feed and in every catch "
            "handler; client Connection routines reset the response parser (or close) on every path on which a complete response was parsed "
            "and on every path that hands the connection back through onDone", 6)
    ck.rule("C04-R2", "E mod-set inclusion over the call graph",
            "W_parse(P) ∩ closure(P) ⊆ W_reset(P): every field of the parser, its steps and nested state, its buffer/cursor and its message "
            "object that ParserBase::parse/feed may write (through every Step::apply override) is written by P's reset (whole-object "
            "assignment covers all fields of the assigned class)", 12)

    # ---------------- R1: server ----------------
    f = lib.single(prog, H + "Handler::onInput")
    onreq = [e for e in f.calls(lambda e: (e.get("callee") or "") == H + "Handler::onRequest")]
    ck.require(onreq, "onRequest call not found in Handler::onInput")
    handlers = [b for b in f.blocks.values() if b.label and b.label.get("k") == "catch"]
    for e in onreq:
        bad = [x for x in cfg.exits_without(f, is_reset, start_block=e.block, start_idx=e.idx + 1) if x.kind != "throw"]
        ck.ob("C04-R1", "onInput/after-onRequest", not bad, e.loc, f, "parser->reset() on every normal path after onRequest" if not bad else
              "a path returns after onRequest without resetting the parser")
    feeds = lib.result_edges(f, PB + "feed", False)
    ck.require(feeds, "feed() test not found in Handler::onInput")
    for bid, k in feeds:
        arm = f.blocks[bid].succs[k]
        exits = cfg.exits_without(f, is_reset, start_block=arm)
        # a throw inside the try block lands in a local handler, which is checked below
        bad = [x for x in exits if x.kind != "throw" or not handlers]
        ck.ob("C04-R1", "onInput/feed-refused", not bad, "%s:%s" % (f.file, f.blocks[bid].term.get("l")), f,
              "refused feed resets the parser or throws into a resetting handler" if not bad else "refused feed leaves without reset")
    ck.require(len(handlers) >= 2, "catch handlers of Handler::onInput not found")
    for hb in handlers:
        bad = [x for x in cfg.exits_without(f, is_reset, start_block=hb.id) if x.kind != "throw"]
        ck.ob("C04-R1", "onInput/catch(%s)" % hb.label.get("type"), not bad, "%s:%s" % (f.file, hb.label.get("l")), f,
              "handler resets the parser on every path" if not bad else "handler can finish without resetting the parser")
    # handlers cover HttpError and std::exception (anything thrown by parse/feed/onRequest)
    types = " | ".join(hb.label.get("type") or "" for hb in handlers)
    ck.ob("C04-R1", "onInput/handlers-cover", "HttpError" in types and "std::exception" in types, f.loc, f, "handlers: " + types, nontrivial=False)

    # ---------------- R1: client ----------------
    def is_done_call(ev):
        # the completion callback: RequestEntry::onDone itself or a local copy of it
        if ev["k"] != "call" or ev.base_callee() != "std::function::operator()":
            return False
        rv = ev.get("recv") or {}
        if strip_tmpl(rv.get("f") or "").endswith("RequestEntry::onDone"):
            return True
        copies = {d["var"] for d in ev.func.events("decl") if strip_tmpl((d.get("init") or {}).get("f") or "").endswith("RequestEntry::onDone")}
        return rv.get("v") in copies

    def invoked_params(fn_):
        names = {p_["name"] for p_ in fn_.params}
        return {(e.get("recv") or {}).get("v") for e in fn_.events("call") if e.base_callee() == "std::function::operator()" and (e.get("recv") or {}).get("v") in names}

    def is_done_event(ev):
        """the completion callback is run: directly, or by a helper of the connection that is handed it and invokes that parameter"""
        if is_done_call(ev):
            return True
        if ev["k"] != "call" or not (ev.get("callee") or "").startswith(CONN):
            return False
        copies = {d["var"] for d in ev.func.events("decl") if strip_tmpl((d.get("init") or {}).get("f") or "").endswith("RequestEntry::onDone")}
        for g_ in prog.resolve_call(ev):
            inv = invoked_params(g_)
            for i, a in enumerate(ev.get("args", [])):
                if i < len(g_.params) and g_.params[i]["name"] in inv and (a.get("v") in copies or strip_tmpl(a.get("f") or "").endswith("RequestEntry::onDone")):
                    return True
        return False

    def is_clean(ev):
        if is_reset(ev):
            return True
        return ev["k"] == "call" and (ev.get("callee") or "") in (CONN + "close", CONN + "handleError")
    for name in ("handleResponsePacket", "handleError", "handleTimeout"):
        g = lib.single(prog, CONN + name)
        dones = [e for e in g.events("call") if is_done_event(e)]
        if name != "handleResponsePacket":
            ck.require(dones, "onDone() call not found in Connection::%s" % name)
        for e in dones:
            # every path from entry to this onDone() passes a reset/close
            reached = []

            # (after a time-out the response may still be on its way: resetting the parser *now* does not help, what arrives later is
            # parsed into the next exchange -- only closing the connection makes the hand-back clean)
            only_close = name == "handleTimeout"

            def step(st, ev, only_close=only_close):
                if is_clean(ev) and not (only_close and is_reset(ev)):
                    return None
                if ev is e:
                    reached.append(ev)
                    return None
                return st
            for ent in cfg.region_entries(g):
                cfg.run_automaton(g, 0, step, start=ent)
            ck.ob("C04-R1", "Connection::%s/onDone-with-clean-parser" % name, not reached, e.loc, g,
                  "parser reset (or connection closed) before the connection is handed back" if not reached else
                  "the connection is handed back to the pool (onDone) on a path that never reset the response parser")
    # handleError abandons whatever exchange was going on: it leaves a clean parser on every path, request in flight or not
    he = lib.single(prog, CONN + "handleError")
    bad = [x for x in cfg.exits_without(he, is_clean) if x.kind != "throw"]
    ck.ob("C04-R1", "Connection::handleError/always-resets", not bad, he.loc, he,
          "the parser is reset on every path" if not bad else
          "handleError can return without resetting the parser (e.g. when no request is in flight): the remains of the failed response are "
          "parsed as the beginning of the next one")
    # complete response parsed => parser reset, whether or not a request was waiting
    g = lib.single(prog, CONN + "handleResponsePacket")
    done_edges = lib.value_edges(g, PB + "parse", "e:" + H + "Private::State::Done", ("==",))
    ck.require(done_edges, "parse() == State::Done test not found in handleResponsePacket")
    for bid, k in done_edges:
        arm = g.blocks[bid].succs[k]
        bad = [x for x in cfg.exits_without(g, is_clean, start_block=arm) if x.kind != "throw"]
        ck.ob("C04-R1", "Connection::handleResponsePacket/Done-resets", not bad, "%s:%s" % (g.file, g.blocks[bid].term.get("l")), g,
              "a completely parsed response always resets the parser" if not bad else
              "a complete response parsed while no request is waiting leaves the parser in its Done state (the next response is parsed against it)")

    # ---------------- R2 (premise): the generic reset reaches *every* step, whatever the progress of the abandoned message ----------------
    pr0 = lib.single(prog, PB + "reset")
    # the loop over the steps may sit in ParserBase::reset itself or in a private helper of the parser it calls
    preg = lib.region(prog, pr0, within=lambda g_: g_.cls == pr0.cls and g_.cls)
    sr = [e for e in pr0.calls(lambda e: (e.get("callee") or "") == H + "Private::Step::reset")] or \
        [e for g_ in preg for e in g_.calls(lambda e: (e.get("callee") or "") == H + "Private::Step::reset")]
    pr_ = pr0
    if not sr:
        ck.ob("C04-R2", "ParserBase::reset/covers-every-step", False, pr_.loc, pr_,
              "ParserBase::reset does not reach the steps at all: whatever a step remembers about the message in progress survives the reset")
    for e in sr:
        pr_ = e.func
        lp = cfg.innermost_loop(pr_, e.block)
        ok = False
        detail = "Step::reset is not called in a loop over the steps"
        if lp is not None:
            hdr = pr_.blocks[lp[0]]
            t = hdr.term or {}
            refs = t.get("refs") or []
            if t.get("k") == "rangefor":
                rng = [d for d in pr_.events("decl") if d.get("var", "").startswith("__range") and (d.get("init") or {}).get("f") == PB + "allSteps"]
                ok = bool(rng)
                detail = "range-for over allSteps" if ok else "range-for over something other than allSteps"
            else:
                bounded_by_progress = ("f:" + PB + "currentStep") in refs
                whole = ("f:" + PB + "allSteps") in refs or "StepsCount" in (t.get("cond") or "")
                ok = whole and not bounded_by_progress
                detail = "index loop bounded by `%s`" % t.get("cond")
                if bounded_by_progress:
                    detail += ": steps at or beyond the current one (the body step of a message abandoned mid-body) are never reset"
        ck.ob("C04-R2", "ParserBase::reset/covers-every-step", ok, e.loc, pr_, detail)

    # ---------------- R2 ----------------
    # what is written while a message is being received: by the parser (parse / feed) and by the per-connection routines that drive it
    # (the server's Handler::onInput, the client's Connection::handleResponsePacket), which may keep parser-owned state of their own
    parse_roots = prog.find(PB + "parse", 1) + prog.find(PB + "feed", 1) + prog.find(H + "Handler::onInput", 1) + \
        prog.find(H + "Experimental::Connection::handleResponsePacket", 1)
    wparse, reach = lib.transitive_writes(prog, parse_roots)
    ck.require(len(reach) > 40, "call graph from ParserBase::parse too small (%d functions)" % len(reach))
    MSG_PREFIXES = [H + "Message::", H + "Request::", H + "Response::", H + "Uri::", H + "Header::Collection::", H + "CookieJar::", H + "Cookie::"]
    _ir = {}

    def storage_only_buffer():
        """the receive buffer keeps its storage across reset(): sound when its content is reachable only through a get area that ends at a
        fill counter -- feed() advances the counter by `len`, tests the limit on it and ends every get area at data() + counter -- and
        reset() sets the counter to 0 and re-seats the get area"""
        feeds_ = [g_ for g_ in prog.by_base.get("Pistache::ArrayStreamBuf::feed", []) if g_.blocks]
        resets_ = [g_ for g_ in prog.by_base.get("Pistache::ArrayStreamBuf::reset", []) if g_.blocks]
        if not feeds_ or not resets_:
            return False
        fd_ = feeds_[0]
        if len(fd_.params) < 2:
            return False
        ctrs = {strip_tmpl(a_["lhs"].get("f") or "") for a_ in fd_.events("assign") if a_.get("op") == "+=" and (a_.get("rhs") or {}).get("v") == fd_.params[1]["name"] and a_["lhs"].get("f")}
        if len(ctrs) != 1:
            return False
        c_ = list(ctrs)[0]
        cshort = c_.rsplit("::", 1)[-1]
        for g_ in prog.funcs.values():
            if g_.blocks and strip_tmpl(g_.cls or "") == "Pistache::ArrayStreamBuf":
                for e_ in g_.events("call"):
                    if (e_.get("callee") or "").endswith("::setg") and len(e_.get("args") or []) == 3:
                        t3 = re.sub(r"\s+|this->", "", e_["args"][2].get("t") or "")
                        if g_.base.endswith("::reset"):
                            continue
                        if g_.d.get("ctor"):
                            continue
                        if not re.search(r"\b%s\b" % re.escape(cshort), t3):
                            return False
        rs_ = resets_[0]
        zeroed = any(strip_tmpl(a_["lhs"].get("f") or "") == c_ and a_.get("const") == 0 for a_ in rs_.events("assign"))
        reseated = any((e_.get("callee") or "").endswith("::setg") for e_ in rs_.events("call"))
        return zeroed and reseated

    def influencing_reads():
        """fields that some function reachable from the parse roots *looks at* (an access that is not just the target of an assignment or
        of ++ / -- / += on the same line)"""
        if "v" not in _ir:
            out = set()
            for f_, _chain in reach.values():
                self_upd = set()
                for e in f_.events(("assign", "incdec")):
                    tgt = (e.get("lhs") or e.get("operand") or {})
                    if tgt.get("f"):
                        self_upd.add((strip_tmpl(tgt["f"]), e.get("l")))
                for e in f_.events("member"):
                    q = strip_tmpl(e.get("f") or "")
                    if q and (q, e.get("l")) not in self_upd:
                        out.add(q)
            _ir["v"] = out
        return _ir["v"]
    applies = [x for x in reach.values() if x[0].base.endswith("Step::apply")]
    ck.require(len(applies) >= 4, "Step::apply overrides reached: %d" % len(applies))
    step_classes = set(prog.subclasses(H + "Private::Step"))
    parsers = [c for c in prog.class_list if strip_tmpl(c["name"]) == H + "Private::ParserImpl" and not c.get("dependent")]
    ck.require(len(parsers) >= 2, "ParserImpl specialisations found: %d" % len(parsers))
    byname = {c["name"]: c for c in prog.class_list if not c.get("dependent")}
    for pc in parsers:
        pname = pc["name"]
        short = pname.replace(H + "Private::", "").replace(H, "")
        # ownership closure: the parser, its bases and by-value members, every Step subclass (held in allSteps) and their nested state
        closure = lib.class_closure(prog, [pname, H + "Private::Step"] + sorted(step_classes))
        # reset selected by virtual dispatch for this parser
        own = [f for f in prog.funcs.values() if f.cls == pname and f.name.endswith("::reset")]
        roots = own or prog.find(PB + "reset", 1)
        wreset, rreach = lib.transitive_writes(prog, roots)
        covered = set()

        def reinitialises(fld, how, ev):
            """the write gives the field a value that does not depend on what it held: assignment / whole-object assignment of an
            expression that does not mention the field, clear(), reset(), swap with a fresh object -- not erase / resize / insert /
            append, and not a swap with (or assignment of) something computed from the field's old contents"""
            if fld == lib.STREAMBUF_AREA:
                return True
            selfref = "f:" + fld
            if how in ("assign", "whole", "init", "alias-assign", "call:operator="):
                return selfref not in [r for r in (ev.get("refs") or []) if r != selfref] or \
                    not any(fld.rsplit("::", 1)[1] in (a_.get("t") or "") for a_ in (ev.get("args") or [])) and \
                    fld.rsplit("::", 1)[1] not in ((ev.get("rhs") or {}).get("t") or "")
            if how in ("call:clear", "call:reset"):
                return True
            if how == "call:swap":
                others = [a_ for a_ in (ev.get("args") or [])] + ([ev.get("recv")] if ev.get("recv") else [])
                for o in others:
                    v = (o or {}).get("v")
                    if v:
                        d = [x for x in ev.func.events("decl") if x.get("var") == v]
                        if d and selfref in (d[0].get("refs") or []):
                            return False      # swapped with a local built from the field's old contents
                return True
            return False
        for fld, lst in wreset.items():
            if any(reinitialises(fld, how, ev) for how, ev, _c in lst):
                covered.add(fld)
            for how, ev, _chain in lst:
                if how == "whole":
                    # class of the assigned member object: resolve through the declaring class' field list
                    cls, _, fname = fld.rpartition("::")
                    for fl in lib.fields_of(prog, cls):
                        if fl["name"] == fname and fl.get("rec"):
                            covered |= lib.whole_object_cover(prog, fl["rec"])
        # ... and it does so whatever state the parser is in: in the reset routines themselves nothing that re-initialises is skipped on
        # some path (an early return for "nothing to forget yet" keeps exactly the state of an abandoned message)
        for rf in sorted({x[0].id: x[0] for x in rreach.values() if x[0].name.endswith("::reset") and (x[0].cls or "").startswith(H)}.values(), key=lambda f_: f_.id):
            inloop = set()
            for _h, body in cfg.natural_loops(rf):
                inloop |= body
            for how_f, evs in sorted(((fld, [ev for how, ev, _c in lst if ev.func.id == rf.id and reinitialises(fld, how, ev)]) for fld, lst in wreset.items()), key=lambda x: x[0]):
                for ev in evs:
                    if ev.block in inloop:
                        continue
                    loose = [x for x in cfg.exits_without(rf, lambda e, ev=ev: e is ev or (e.get("i") == ev.get("i") and e.get("l") == ev.get("l") and e["k"] == ev["k"])) if x.kind != "throw"]
                    ck.ob("C04-R2", "%s/unconditional: %s" % (rf.base.replace(H, ""), how_f.replace(H, "")), not loose, ev.loc, rf,
                          "re-initialised on every path of %s" % rf.name if not loose else
                          "%s returns without re-initialising %s on some path (%s): what an abandoned message left there reaches the next one"
                          % (rf.name, how_f.replace(H, ""), (loose[0].event or {}).get("t") if getattr(loose[0], "event", None) else "early return"))
        n = 0
        for fld in sorted(wparse):
            if fld == lib.STREAMBUF_AREA:
                inclosure = True
            else:
                inclosure = fld.rpartition("::")[0] in closure
            if not inclosure:
                continue
            how, ev, chain = wparse[fld][0]
            ok = fld in covered
            if not ok and strip_tmpl(fld) == "Pistache::ArrayStreamBuf::bytes" and storage_only_buffer():
                ck.note("C04-R2: ArrayStreamBuf::bytes is kept by reset() as storage only: the readable area ends at a fill counter that reset() "
                        "takes back to 0 (limit test and every setg() agree on it), so nothing of the old content can be read again")
                continue
            if not ok and fld != lib.STREAMBUF_AREA and not fld.startswith(tuple(MSG_PREFIXES)) and strip_tmpl(fld) not in influencing_reads():
                # bookkeeping of the parser itself (a counter that is only ever incremented, say): nothing reachable from the parse
                # roots looks at it, so what it holds cannot reach the next message
                ck.note("C04-R2: %s is written while parsing and never read by the parser (only updated): not state of a message" % fld.replace(H, ""))
                continue
            n += 1
            ck.ob("C04-R2", "%s: %s" % (short, fld.replace(H, "")), ok, ev.loc, ev.func,
                  ("written while parsing (%s at %s) and re-initialised by reset" % (how, ev.loc)) if ok else
                  ("written while parsing (%s at %s in %s) but never re-initialised by %s::reset: state of an abandoned message leaks into the next one"
                   % (how, ev.loc, ev.func.name, short)), path=chain)
        ck.require(n >= 6, "only %d parser-owned fields found in W_parse for %s" % (n, short))

    # ---------------- R3: a chunked message ends after its closing CRLF ----------------
    ck.rule("C04-R3", "C must-pass-through",
            "BodyStep::Chunk::parse reports the last chunk (Final) only on paths that consumed the line terminator after the zero size: "
            "a message declared complete before that leaves its closing CRLF in the buffer, where it is taken for the first bytes of the "
            "next message on the connection", 1)
    cp = lib.single(prog, H + "Private::BodyStep::Chunk::parse")
    zero = lib.relation_edges(cp, lambda r_: (r_.get("f") or "").endswith("Chunk::size"), lambda r_: (r_.get("t") or "").replace(" ", "").strip("()") == "0", ("==",))
    ck.require(zero, "`size == 0` test not found in Chunk::parse")
    FINAL = "e:" + H + "Private::BodyStep::Chunk::Final"
    summ3 = lib.Summaries(prog)
    consumes = summ3.lift_must(lambda e: e["k"] == "call" and (e.get("callee") or "") == "Pistache::StreamCursor::advance", "cursor-advance")
    nfin = 0
    for bid, k_ in zero:
        arm = cp.blocks[bid].succs[k_]
        if arm is None:
            continue
        # `return Final` written in Chunk::parse itself or in a helper it was split into (whose returns are `iret` events of the
        # flattened function)
        is_final = lambda e: e["k"] in ("return", "iret") and e.get("const") == FINAL
        early = []

        def st3(st, ev):
            if consumes(ev):
                return 1
            if is_final(ev) and st == 0:
                early.append(ev)
            return st
        cfg.run_automaton(cp, 0, st3, start=arm)
        fin = [e for e in cfg.events_from_block(cp, arm) if is_final(e)]
        nfin += len(fin)
        ck.ob("C04-R3", "Chunk::parse/Final-after-closing-CRLF", bool(fin) and not early, (early[0].loc if early else (fin[0].loc if fin else cp.loc)), cp,
              "every path from `size == 0` to `return Final` passes cursor.advance" if fin and not early else
              "Final can be returned at line %s without the closing CRLF having been consumed" % (early[0].get("l") if early else "?"))
    ck.require(nfin >= 1, "`return Final` not found after the `size == 0` test in Chunk::parse")
    # ... and those two bytes *are* the CRLF: Final is returned on the edge on which eol() answered true (from the mutation sweep: the
    # test negated survives the suite, which never parses a chunked message -- every well-formed chunked body is then refused and two
    # arbitrary bytes are skipped instead)
    eol_true = lib.result_edges(cp, "Pistache::StreamCursor::eol", True)
    fins = [e for e in cp.events(("return", "iret")) if e.get("const") == FINAL]
    okf = bool(eol_true) and bool(fins) and all(any(cfg.edge_dominates(cp, bid, k_, e) for bid, k_ in eol_true) for e in fins)
    ck.ob("C04-R3", "Chunk::parse/Final-only-behind-a-CRLF", okf, (fins[0].loc if fins else cp.loc), cp,
          "`return Final` lies on the edge on which cursor.eol() is true" if okf else
          "Final is returned on a path that does not know the two bytes behind the last-chunk line are CRLF (cursor.eol() true)")

    # ---------------- R4: whatever the connection receives goes through its parser ----------------
    ck.rule("C04-R4", "C must-pass-through",
            "the client's connection keeps its place in the byte stream by parsing everything it receives: every non-throwing path through "
            "Connection::handleResponsePacket hands the received bytes to the response parser (feed) -- also when no request is waiting "
            "(the rest of a response whose request timed out).  Bytes that are dropped unparsed leave the parser in the middle of the old "
            "message, and the next response is taken for its continuation", 1)
    hrp = lib.single(prog, "Pistache::Http::Experimental::Connection::handleResponsePacket")
    feeds = lib.Summaries(prog).lift_must(lambda e: e["k"] == "call" and strip_tmpl(e.get("callee") or "") in
                                          ("Pistache::Http::Private::ParserBase::feed", "Pistache::Http::Private::ParserImpl::feed") or
                                          (e["k"] == "call" and (e.get("callee") or "") in ("Pistache::Http::Experimental::Connection::close",)), "feeds-parser")
    unfed = [x for x in cfg.exits_without(hrp, feeds) if x.kind != "throw"]
    ck.ob("C04-R4", "handleResponsePacket/every-byte-is-parsed", not unfed, (unfed[0].event.loc if unfed and unfed[0].event is not None else hrp.loc), hrp,
          "parser.feed() (or close) on every path" if not unfed else
          "handleResponsePacket can return (line %s) without handing the received bytes to the parser: the parser stays inside the previous "
          "message and the next response on the connection is parsed as its continuation" % (unfed[0].event.get("l") if unfed[0].event is not None else "?"))
