"""C12 — cross-thread settle and attach never lose or repeat a continuation.

Establishes the lock-discipline premises (i)-(iii) of the serialisation argument in DESIGN.md §3 C12:
(i) every access to a core's requests / exc, every store to its state, every construct() on it and every
Request::resolve/reject(core) walk step happen while holding *that core's* mtx; (ii) then() does state test, conditional
run and append within one guard scope; (iii) settlement does store + walk within one guard scope."""
from .. import cfg, lib
from ..facts import AnalysisBroken, strip_tmpl

A = "Pistache::Async::"
P = A + "Private::"
MTX = P + "Core::mtx"
PROTECTED_FIELDS = (P + "Core::requests", P + "Core::exc")

# Functions that run with the core passed as their first parameter already locked by the caller.  The premise is verified at
# every call site (R1c): whoever calls Request::resolve/reject(X) must hold X's mutex.
LOCKED_PARAM = {
    P + "Continuable::resolve": 0, P + "Continuable::reject": 0,
    P + "impl::Continuation::doResolve": 0, P + "impl::Continuation::doReject": 0,
}

# Exemptions (one line of reason each)
EXEMPT_FUNCS = {
    A + "Promise::resolved": "factory: the core is created here and not yet published",
    A + "Promise::rejected": "factory: the core is created here and not yet published",
    P + "Core::Core": "constructor",
    P + "Core::construct": "callee of a guarded construct() call: checked at its call sites",
    P + "CoreT::value": "reads only the atomic state",
}


def run(ck):
    prog = ck.prog
    ck.rule("C12-R1", "A lockset / guarded access",
            "every access to Core::requests / Core::exc, every store to Core::state, every Core::construct and every "
            "Request::resolve/reject(core) happens under a live RAII guard on the mtx of the same core expression "
            "(or on a parameter whose lock is a verified precondition)", 25)
    ck.rule("C12-R2", "C single guard scope",
            "Promise<T>::then performs state test, immediate run and append under one guard on core_->mtx; Resolver/Rejection::operator() "
            "perform store and walk under one guard on core_->mtx", 4)

    funcs = [f for f in prog.funcs.values() if f.file.endswith("/pistache/async.h")]
    ck.require(len(funcs) > 50, "async.h functions not found")

    # R3: a core's mutex is always given back
    lib.guard_release_rule(ck, "C12-R3", lambda f_: f_.file.endswith("/pistache/async.h"),
                           "the mutexes of promise cores (and of the whenAll / whenAny state) are always given back", 20)

    _ls_memo = {}

    def ls_of(fn_):
        if fn_.id not in _ls_memo:
            _ls_memo[fn_.id] = lib.locksets(fn_)
        return _ls_memo[fn_.id]

    def caller_locked(fn_, pname, depth=3):
        """fn_ is a helper that works on its parameter `pname`: true when every call site passes a core whose mutex the caller holds
        there (or which the caller created and has not published, or which is the caller's own locked parameter)"""
        if fn_.is_lambda or depth <= 0:
            return False
        idx = [i for i, p_ in enumerate(fn_.params) if p_["name"] == pname]
        sites_ = prog.call_sites(fn_.base)
        if not idx or not sites_:
            return False
        for s_ in sites_:
            sf = s_.func
            if len(s_.get("args", [])) <= idx[0]:
                return False
            a_ = s_["args"][idx[0]].get("t") or ""
            root_ = a_.split("->")[0].split(".")[0]
            fresh_ = {d["var"] for d in sf.events("decl") if strip_tmpl(d.get("icall") or "") == "std::make_shared"}
            if a_ in fresh_:
                continue
            if lib.holds(ls_of(sf).get((s_.block, s_.idx)), MTX, a_):
                continue
            if sf.base in LOCKED_PARAM and sf.params and sf.params[LOCKED_PARAM[sf.base]]["name"] in (a_, root_):
                continue
            if root_ in {p_["name"] for p_ in sf.params} and caller_locked(sf, root_, depth - 1):
                continue
            return False
        return True

    def lambda_called_locked(lf, base):
        """lf is a closure that is not run where it is written but handed to a library function which invokes it: true when it is
        invoked somewhere and every invocation happens under a live guard on the same core expression's mutex (`this->core_` in a
        base-class helper and in the derived class's closure are the same member of the same object)"""
        lid = lf.id.split("#in:")[0]
        calls_ = [(g_, c_) for g_ in funcs for c_ in g_.events("call") if (c_.get("callee") or "").split("#in:")[0] == lid and g_.id != lf.id]
        if not calls_:
            return False
        for g_, c_ in calls_:
            if g_.id == lf.parent or g_.is_lambda:
                return False        # run in place: the ordinary lexical rule applies
            if not lib.holds(ls_of(g_).get((c_.block, c_.idx)), MTX, base):
                return False
        return True

    for f in funcs:
        if f.base in EXEMPT_FUNCS:
            continue
        sites = []
        for e in f.events():
            k = e["k"]
            if k == "member" and strip_tmpl(e.get("f") or "") in PROTECTED_FIELDS:
                sites.append((e, e.get("b"), "access " + strip_tmpl(e["f"]).rsplit("::", 1)[1]))
            elif k == "call":
                c = e.get("callee") or ""
                rv = e.get("recv") or {}
                if e.get("op") == "=" and strip_tmpl(rv.get("f") or "") == P + "Core::state":
                    sites.append((e, rv.get("b"), "store state"))
                elif strip_tmpl(c) == P + "Core::construct":
                    sites.append((e, rv.get("t"), "construct"))
                elif c in (P + "Request::resolve", P + "Request::reject"):
                    sites.append((e, (e["args"][0].get("t") if e.get("args") else None), "walk " + c.rsplit("::", 1)[1]))
        if not sites:
            continue
        ls = lib.locksets(f)
        # locals created here by make_shared and not yet shared
        fresh = {d["var"] for d in f.events("decl") if strip_tmpl(d.get("icall") or "") == "std::make_shared"}
        assumed = set()
        if f.base in LOCKED_PARAM and f.params:
            assumed.add(f.params[LOCKED_PARAM[f.base]]["name"])
        for e, base, what in sites:
            if base is None:
                ck.ob("C12-R1", "%s@%s:%s" % (what, f.base.replace(P, "").replace(A, ""), e.get("l")), False, e.loc, f, "base expression not recognised")
                continue
            root = base.split("->")[0].split(".")[0]
            if base in fresh:
                ok, why = True, "object created in this function (make_shared), unpublished"
            elif base in assumed or root in assumed:
                ok, why = True, "parameter '%s' is locked by the caller (precondition verified at every Request::resolve/reject call)" % root
            elif not lib.holds(ls.get((e.block, e.idx)), MTX, base) and base.startswith("this->") and not f.is_lambda and \
                    all((s_.get("recv") or {}).get("t") in ("this", None) for s_ in prog.call_sites(f.base)) and lib.caller_holds(prog, f, MTX, base):
                ok, why = True, "member helper called on this: every call site holds %s->mtx (checked at %d call sites)" % (base, len(prog.call_sites(f.base)))
            elif not lib.holds(ls.get((e.block, e.idx)), MTX, base) and root in {p_["name"] for p_ in f.params} and caller_locked(f, root):
                ok, why = True, "helper working on its parameter '%s': every call site holds that core's mtx (checked at %d call sites)" % (root, len(prog.call_sites(f.base)))
            elif f.is_lambda and not lib.holds(ls.get((e.block, e.idx)), MTX, base) and lambda_called_locked(f, base):
                ok, why = True, "closure handed to a helper that invokes it while holding %s->mtx (every invocation checked)" % base
            else:
                ok = lib.holds(ls.get((e.block, e.idx)), MTX, base)
                why = "guard on %s->mtx held" % base if ok else "no live guard on %s->mtx (held: %s)" % (
                    base, sorted({"%s->%s" % (b, m.rsplit("::", 1)[1]) for st in ls.get((e.block, e.idx), []) for (_v, m, b) in st}) or "none")
            key = "%s:%s:%s" % (f.base.replace(P, "").replace(A, ""), what, base)
            if f.is_lambda:
                key = "%s/lambda:%s:%s" % (strip_tmpl(f.d.get("parentName") or "").replace(P, "").replace(A, ""), what, base)
            ck.ob("C12-R1", key, ok, e.loc, f, why)

    # verify the precondition of LOCKED_PARAM functions: doResolve/doReject receive the caller's own locked parameter
    for what in ("doResolve", "doReject"):
        for e in prog.call_sites(P + "Continuable::" + what):
            f = e.func
            arg = e["args"][0] if e.get("args") else {}
            pname = f.params[0]["name"] if f.params else None
            ok = f.base in LOCKED_PARAM and pname is not None and pname in (arg.get("t") or "")
            ck.ob("C12-R1", "precondition:%s(arg)" % what, ok, e.loc, f, "argument %s derives from the locked parameter %s" % (arg.get("t"), pname))

    # ---------------- R2 ----------------
    summ = lib.Summaries(prog)
    may_walk = summ.lift_may(lambda e: e["k"] == "call" and (e.get("callee") or "") in (P + "Request::resolve", P + "Request::reject"), "walk-continuations")

    def single_scope(f, kinds, name):
        ls = lib.locksets(f)
        need = []
        for e in f.events():
            if e["k"] == "call":
                c = strip_tmpl(e.get("callee") or "")
                rv = e.get("recv") or {}
                if c in kinds or (c.startswith(P) and may_walk(e)) or (e.get("op") == "=" and strip_tmpl(rv.get("f") or "") in (P + "Core::state", P + "Core::exc")):
                    need.append(e)
        # (only what some path can reach: the arm of a shared helper that belongs to the other outcome is not part of this function)
        live_ = cfg.feasible_events(f)
        need = [e for e in need if id(e) in live_]
        guards = [d for d in f.events("decl") if lib.guard_of_decl(d) and lib.guard_of_decl(d)[1] == MTX]
        ok = len(guards) == 1 and bool(need)
        detail = "guards on core mtx: %d, guarded operations: %d" % (len(guards), len(need))
        if ok:
            gv = guards[0]["var"]
            for e in need:
                sts = ls.get((e.block, e.idx)) or []
                if not sts or not all(any(v == gv for (v, _m, _b) in st) for st in sts):
                    ok = False
                    detail = "%s at %s is outside the guard scope" % (e.get("t"), e.loc)
            # the guard is never released early
            if any(c.get("callee", "").endswith("::unlock") and (c.get("recv") or {}).get("v") == gv for c in f.events("call")):
                ok = False
                detail = "guard released before the end of the operation"
        ck.ob("C12-R2", name, ok, f.loc, f, detail)

    for f in prog.find(A + "Promise::then", 4):
        single_scope(f, {A + "Promise::isFulfilled", A + "Promise::isRejected", P + "Request::resolve", P + "Request::reject", "std::vector::push_back"}, "Promise::then")
    for f in prog.find(A + "Resolver::operator()", 2):
        single_scope(f, {P + "Core::construct", P + "Request::resolve"}, "Resolver::operator()" + ("" if f.params else "<void>"))
    for f in prog.find(A + "Rejection::operator()", 1):
        single_scope(f, {P + "Request::reject"}, "Rejection::operator()")
