"""C10 — routing invokes the handler that the route table prescribes.

Decides what precedence, binding and the single-terminal-action clauses structurally depend on: search order of the
alternatives, immediate return on a match, undo of bindings on backtracking, exactly one terminal action per path of
Router::route, 405 only with a non-empty Allow set built from matching other methods, normalisation on every entry point.
Does not decide the match result for every table x path."""
import re
from .. import cfg, lib, facts
from ..facts import AnalysisBroken, strip_tmpl

R = "Pistache::Rest::"
N = R + "SegmentTreeNode::"


def run(ck):
    prog = ck.prog
    ck.rule("C10-R1", "C ordering + immediate-return shape",
            "SegmentTreeNode::findRoute tries fixed_, then param_, then optional_, then splat_ (first access of each collection dominates "
            "the next) and every recursive lookup is followed by `if (route != nullptr) return result` before anything else is tried", 8)
    ck.rule("C10-R2", "C path automaton (undo on backtracking)",
            "every params/splats.emplace_back is undone by pop_back on the same vector before the next alternative is tried, the loop "
            "iterates, or 'no route' is returned", 3)
    ck.rule("C10-R3", "C path automaton (exactly one terminal action)",
            "every non-throwing path of Router::route performs exactly one terminal action (route handler | custom handler accepted | "
            "405 | not-found handler | 404) or stops in a middleware; 405 is sent only with a non-empty method list built from other "
            "methods whose tree matches", 4)
    ck.rule("C10-R4", "D sibling agreement",
            "Router::addRoute, removeRoute and route pass the resource through SegmentTreeNode::sanitizeResource before touching the tree", 3)

    fr = [f for f in prog.find(N + "findRoute", 2) if len(f.params) == 3]
    ck.require(len(fr) == 1, "3-argument findRoute not found")
    f = fr[0]
    dom = cfg.dominators(f)

    def first_access(fieldname):
        evs = [e for e in f.events("member") if strip_tmpl(e.get("f") or "") == N + fieldname]
        # restrict to the non-empty-path arm
        return evs
    # the non-empty arm
    pe = [b for b in f.blocks.values() if b.term and b.term.get("k") == "if" and "c:std::basic_string_view::empty" in [strip_tmpl(r) for r in (b.term.get("refs") or [])]
          and (b.term.get("core") or {}).get("root") == f.params[0]["name"]]
    ck.require(pe, "path.empty() test not found in findRoute")
    pb = pe[0]
    nonempty = pb.succs[0] if pb.term.get("neg") else pb.succs[1]
    arm_events = cfg.events_from_block(f, nonempty)
    arm_ids = {id(e) for e in arm_events}
    order = []
    for fld in ("fixed_", "param_", "optional_", "splat_"):
        evs = [e for e in first_access(fld) if id(e) in arm_ids]
        ck.require(evs, "collection %s is not consulted in findRoute's non-empty arm" % fld)
        # first = the one that dominates all the others
        firsts = [e for e in evs if all(e is x or cfg.ev_dominates(dom, e, x) for x in evs)]
        ck.require(firsts, "no dominating first access of %s" % fld)
        order.append((fld, firsts[0], evs))
    for (a, ea, _), (b, eb, evb) in zip(order, order[1:]):
        ok = cfg.ev_dominates(dom, ea, eb)
        # and nothing of the later collection is touched before the earlier one
        ck.ob("C10-R1", "order:%s-before-%s" % (a, b), ok, eb.loc, f, "first use of %s (line %s) dominates first use of %s (line %s)" % (a, ea.get("l"), b, eb.get("l")))
    # recursive lookups
    rec = [e for e in arm_events if e["k"] == "call" and (e.get("callee") or "") == N + "findRoute" and len(e.get("args") or []) == 3]
    ck.require(len(rec) >= 5, "recursive lookups in findRoute: %d" % len(rec))
    for i, e in enumerate(rec):
        # result variable: decl or assignment in the same block right after the call
        blk = f.blocks[e.block]
        rv = None
        for x in blk.elems[e.idx + 1:]:
            if x["k"] == "decl" and strip_tmpl(x.get("icall") or "") == N + "findRoute":
                rv = x["var"]
                break
            if x["k"] == "call" and x.get("op") == "=" and (x.get("recv") or {}).get("v"):
                rv = x["recv"]["v"]
                break
            if x["k"] == "assign" and x["lhs"].get("v"):
                rv = x["lhs"]["v"]
                break
        # walk forward to the first branch
        cur = blk
        hops = 0
        while cur.term is None or cur.term.get("k") not in ("if",):
            nxt = [s for s in cur.succs if s is not None]
            if len(nxt) != 1 or hops > 4:
                break
            cur = f.blocks[nxt[0]]
            hops += 1
        t = cur.term or {}
        ok = False
        detail = "no null test follows the recursive lookup"
        if t.get("k") == "if" and t.get("cmp") in ("!=", "==") and (t.get("rconst") == "nullptr" or "nullptr" in ((t.get("rhs") or {}).get("t") or "")):
            routevar = (t.get("lhs") or {}).get("v")
            # route must be std::get<0>(result)
            defs = [x for x in f.events(("decl", "call", "assign")) if (x["k"] == "decl" and x.get("var") == routevar) or
                    (x["k"] == "call" and x.get("op") == "=" and (x.get("recv") or {}).get("v") == routevar)]
            derived = any(rv and rv in (((x.get("init") or {}).get("t") or "") + " ".join(a.get("t") or "" for a in x.get("args", []))) for x in defs)
            # or the route component of the result is tested in place: std::get<0>(result) != nullptr
            import re as _re
            derived = derived or bool(rv and _re.search(r"get<0>\(\s*%s\s*\)" % _re.escape(rv), (t.get("lhs") or {}).get("t") or ""))
            routevar = routevar or ((t.get("lhs") or {}).get("t") or "")
            hit = cur.succs[0] if t.get("cmp") == "!=" else cur.succs[1]
            hb = f.blocks.get(hit)
            rets = [x for x in (hb.elems if hb else []) if x["k"] == "return"]
            ok = derived and bool(rets) and (rets[0].get("t") or "").strip() == rv
            detail = "result '%s' -> '%s' tested against nullptr at line %s; match returns '%s'" % (rv, routevar, t.get("l"), rets[0].get("t") if rets else None)
        elif t.get("k") == "if" and not t.get("cmp") and rv and ("v:" + rv) in (t.get("refs") or []):
            # the test is a predicate helper over the result: `if (matched(result))` with `return std::get<0>(r) != nullptr;`
            import re as _re
            pol = None
            for r_ in (t.get("leafrefs") or t.get("refs") or []):
                if not r_.startswith("c:"):
                    continue
                for g_ in prog.by_base.get(strip_tmpl(r_[2:]), []):
                    rs_ = [x for x in g_.events("return")]
                    if len(rs_) == 1:
                        m_ = _re.search(r"get<0>\(\s*\w+\s*\)\s*(!=|==)\s*nullptr", rs_[0].get("t") or "") or _re.search(r"nullptr\s*(!=|==)\s*(?:std::)?get<0>", rs_[0].get("t") or "")
                        if m_:
                            pol = (m_.group(1) == "!=")
            if pol is None:
                raise AnalysisBroken("C10-R1: the test after the recursive lookup at %s is `%s`, a predicate whose meaning is not modelled" % (e.loc, t.get("cond")))
            truth_edge = 1 if t.get("neg") else 0
            hit = cur.succs[truth_edge if pol else 1 - truth_edge]
            hb = f.blocks.get(hit)
            rets = [x for x in (hb.elems if hb else []) if x["k"] == "return"]
            ok = bool(rets) and (rets[0].get("t") or "").strip() == rv
            detail = "result '%s' tested by `%s` at line %s; match returns '%s'" % (rv, t.get("cond"), t.get("l"), rets[0].get("t") if rets else None)
        ck.ob("C10-R1", "immediate-return:lookup#%d" % i, ok, e.loc, f, detail)

    # ---------------- R2 ----------------
    pushes = [e for e in arm_events if e["k"] == "call" and e.base_callee() == "std::vector::emplace_back" and (e.get("recv") or {}).get("v") in (f.params[1]["name"], f.params[2]["name"])]
    ck.require(len(pushes) >= 3, "binding pushes in findRoute: %d" % len(pushes))
    success_vars = set()
    for x in f.events("decl"):
        if strip_tmpl(x.get("icall") or "") == N + "findRoute":
            success_vars.add(x["var"])
    for i, e in enumerate(pushes):
        vec = e["recv"]["v"]
        problems = []

        def step(st, ev):
            if ev["k"] == "call" and (ev.get("recv") or {}).get("v") == vec:
                nm = ev.base_callee().rsplit("::", 1)[1]
                if nm == "pop_back":
                    return None
                if nm == "emplace_back":
                    problems.append("another binding is pushed at line %s while this one is still on '%s'" % (ev.get("l"), vec))
                    return None
            if ev["k"] == "return":
                if (ev.get("t") or "").strip() not in success_vars:
                    problems.append("'no route' is returned at line %s with the binding still on '%s'" % (ev.get("l"), vec))
                return None
            return st
        cfg.run_automaton(f, 0, step, start=e.block, start_idx=e.idx + 1)
        ck.ob("C10-R2", "undo:%s.emplace_back#%d" % (vec, i), not problems, e.loc, f, "; ".join(sorted(set(problems))) or
              "pop_back on '%s' on every path where the lookup below failed" % vec)

    # ---------------- R5: bindings are built afresh for every attempt ----------------
    ck.rule("C10-R5", "C loop-carried move check",
            "inside findRoute's retry loops nothing that is std::move'd (or passed as an rvalue) into a binding outlives one attempt: a "
            "variable declared outside a loop is never moved-from inside it, so every alternative binds the real segment text", 2)
    loops = {}
    for b in f.blocks.values():
        # blocks that can reach themselves
        rb = cfg.reachable_blocks(f, b.id) if any(s is not None for s in b.succs) else set()
        for s in b.succs:
            if s is not None and b.id in cfg.reachable_blocks(f, s):
                loops[b.id] = True
                break
    moves = [e for e in f.events("call") if e.base_callee() in ("std::move", "std::forward") and e.get("args") and e["args"][0].get("v")]
    decls = {(d_["var"], d_.get("vd")): d_ for d_ in f.events("decl")}
    nchk = 0
    for pu in pushes:
        # arguments of the binding that are moved variables
        blk = f.blocks[pu.block]
        for m in moves:
            if m.block != pu.block or m.idx > pu.idx:
                continue
            key = (m["args"][0]["v"], m["args"][0].get("vd"))
            d_ = decls.get(key)
            nchk += 1
            carried = False
            why = "moved value is declared in the same attempt"
            if d_ is not None and pu.block in loops:
                # declared outside the cycle that contains the push?
                cyc = {x for x in cfg.reachable_blocks(f, pu.block) if pu.block in cfg.reachable_blocks(f, x)}
                if d_.block not in cyc:
                    carried = True
                    why = "'%s' is declared before the loop (line %s) and moved from inside it (line %s): later alternatives bind an empty string" % (key[0], d_.get("l"), m.get("l"))
            elif d_ is None and key[0] in [p_["name"] for p_ in f.params]:
                carried = pu.block in loops
                why = "parameter '%s' moved inside a loop" % key[0]
            ck.ob("C10-R5", "fresh-binding:%s.emplace_back(%s)" % (pu["recv"]["v"], key[0]), not carried, m.loc, f, why)
    # also: values passed to emplace_back by name must be declared inside the loop body when the push is in a loop
    for pu in pushes:
        if pu.block not in loops:
            continue
        cyc = {x for x in cfg.reachable_blocks(f, pu.block) if pu.block in cfg.reachable_blocks(f, x)}
        for a in pu.get("args", []):
            v = a.get("v") or (a.get("moved") or {}).get("v")
            vd = a.get("vd") or (a.get("moved") or {}).get("vd")
            if not v:
                continue
            d_ = decls.get((v, vd))
            nchk += 1
            inside = d_ is not None and d_.block in cyc
            moved = bool(a.get("moved"))
            ck.ob("C10-R5", "fresh-binding:%s.emplace_back(%s)" % (pu["recv"]["v"], v), inside or not moved, pu.loc, f,
                  "'%s' is built inside the attempt" % v if inside else ("'%s' outlives the attempt and is %s" % (v, "moved-from" if moved else "only copied")))
    ck.require(nchk >= 2, "no binding arguments analysed")

    # ---------------- R6: removability covers every member ----------------
    ck.rule("C10-R6", "exhaustiveness over the node's members (all returns)",
            "every value SegmentTreeNode::removeRoute returns is this node's own emptiness: it mentions each member that can hold a child "
            "or a route (fixed_, param_, optional_, splat_, route_), so a parent erases a child only when nothing is left in it", 1)
    node = prog.cls(R + "SegmentTreeNode")
    members = [x["name"] for x in node["fields"] if x["name"] != "resource_ref_" and ("map" in (x.get("ctype") or x["type"]) or "shared_ptr" in (x.get("ctype") or x["type"]))]
    ck.require(len(members) >= 5, "SegmentTreeNode members holding children/route: %s" % members)
    rr = lib.single(prog, N + "removeRoute")
    rets = [e for e in rr.events("return")]
    ck.require(rets, "no return in removeRoute")
    def deep_refs(fn_, e, depth=0):
        """references of a returned expression, looking through what it calls *on this node*: local lambdas (they capture this) and
        other member functions of the node invoked on `this` — never a call on a child (that is the child's emptiness, not this node's)"""
        refs = set(e.get("refs") or [])
        if depth < 3:
            for c_ in fn_.events("call"):
                cal = c_.get("callee") or ""
                if ("c:" + cal) not in refs or (c_.get("t") or "") not in (e.get("t") or ""):
                    continue
                on_this = cal.startswith("lambda@") or ((c_.get("recv") or {}).get("t") in ("this", None) and not (c_.get("recv") or {}).get("f"))
                if not on_this:
                    continue
                for g in prog.resolve_call(c_):
                    if g.blocks and g.id != fn_.id and g.id != rr.id and (g.is_lambda or g.cls == rr.cls):
                        for re_ in g.events("return"):
                            refs |= deep_refs(g, re_, depth + 1)
        return refs
    for i, e in enumerate(rets):
        refs = deep_refs(rr, e)
        missing = [m for m in members if ("f:" + N + m) not in refs]
        ck.ob("C10-R6", "removeRoute/return#%d-own-emptiness" % i, not missing, e.loc, rr,
              "mentions %s" % members if not missing else "the returned removability ignores %s: a node that still holds it would be erased by its parent" % missing)


    # ---------------- R9: the child that was asked is the child that is erased ----------------
    ck.rule("C10-R9", "dataflow identity (look-up key = erase key)",
            "in SegmentTreeNode::removeRoute the child node whose removeRoute answered 'nothing left' is the one erased from its collection: "
            "erase() is given the iterator of that look-up or the very key variable the look-up used (an optional segment is filed without "
            "its '?': erased under another spelling, the empty child stays behind and shadows the parent's own route)", 1)
    LOOKUP = ("::at", "::find", "::count", "::operator[]", "::equal_range", "::contains")
    n9 = 0
    for er in [e for e in rr.events("call") if (e.get("callee") or "").endswith("::erase") and "map<" in (e.get("callee") or "")]:
        rv = (er.get("recv") or {})
        looks = [e for e in rr.events("call") if (e.get("callee") or "").endswith(LOOKUP) and "map<" in (e.get("callee") or "") and
                 (e.get("recv") or {}).get("t") == rv.get("t") and e.get("args") and any(x is er for x in cfg.events_after(rr, e))]
        if not looks or not er.get("args"):
            continue
        n9 += 1
        a = er["args"][0]
        keyvars = {(l_["args"][0].get("v"), l_["args"][0].get("vd")) for l_ in looks if l_["args"][0].get("v")}
        # an iterator obtained from one of the look-ups on the same collection
        itvars = {d_["var"] for d_ in rr.events("decl") if d_.get("var") and any((d_.get("icall") or "") == l_.get("callee") and d_.get("l") == l_.get("l") for l_ in looks)}
        same = (a.get("v"), a.get("vd")) in keyvars or (a.get("v") in itvars) or (a.get("root") in itvars)
        ck.ob("C10-R9", "removeRoute/erase@%s" % rv.get("t"), same, er.loc, rr,
              "erase(%s) uses the key / iterator of the look-up" % a.get("t") if same else
              "erase(%s) at line %s does not use what the look-up on %s used (%s): when the two spellings differ (optional segment: with and "
              "without '?') the emptied child is never erased" % (a.get("t"), er.get("l"), rv.get("t"), sorted(k for k, _ in keyvars) or "a computed key"))
    ck.require(n9 >= 1, "removeRoute: no erase of a child after a look-up found")

    # ---------------- R3 ----------------
    g = lib.single(prog, R + "Router::route")

    def range_vars_over(fn, field):
        """loop variables of range-for loops over this-><field>"""
        rng = {d_["var"] for d_ in fn.events("decl") if d_.get("var", "").startswith("__range") and (d_.get("init") or {}).get("f") == field}
        out_ = set()
        for d_ in fn.events("decl"):
            if not d_.get("var", "").startswith("__") and "__begin" in ((d_.get("init") or {}).get("t") or ""):
                # `const auto& x = *__beginN` — pair it with the range of the same N
                n_ = "".join(ch for ch in ((d_.get("init") or {}).get("t") or "").split("@")[0] if ch.isdigit())
                sfx = ("@" + d_["var"].split("@", 1)[1]) if "@" in d_["var"] else ""
                decomposed = d_["var"].split("@")[0] == ""      # `const auto& [k, v] = *__beginN`: the declaration itself has no name
                if any(r_.split("@")[0].endswith(n_) and (decomposed or (("@" + r_.split("@", 1)[1]) if "@" in r_ else "") == sfx) for r_ in rng):
                    out_.add(d_["var"])
        return out_

    def terminal(ev):
        if ev["k"] != "call":
            return None
        c = ev.get("callee") or ""
        if c == R + "Route::invokeHandler":
            return "route"
        if c == "Pistache::Http::ResponseWriter::sendMethodNotAllowed":
            return "405"
        if c == R + "Router::invokeNotFoundHandler":
            return "notfound"
        if c == "Pistache::Http::ResponseWriter::send" and lib.refs_enumerator(ev, "Pistache::Http::Code::Not_Found"):
            return "404"
        return None
    # custom handler accepted: the branch `handler1 == Route::Result::Ok` true edge; middleware stop: `!result` true edge
    accept_edges, stop_edges = set(), set()
    for b in g.blocks.values():
        t = b.term
        if t and t.get("k") == "if" and len(b.succs) == 2:
            refs = t.get("refs") or []
            if "e:" + R + "Route::Result::Ok" in refs and t.get("cmp") in ("==", "!="):
                for k_ in (0, 1):
                    r_ = lib.rel_on_edge(t, k_)
                    if r_ is not None and r_[1] == "==" and b.succs[k_] is not None:
                        accept_edges.add((b.id, k_))
            mwres = {d_["var"] for d_ in g.events("decl") if strip_tmpl(d_.get("icall") or "") == "std::function::operator()" and "bool" in (d_.get("type") or "") + "bool"
                     and any(("v:" + rv_) in (d_.get("refs") or []) for rv_ in range_vars_over(g, R + "Router::middlewares"))}
            # ... or the call of the middleware itself is the condition
            direct = not t.get("cmp") and any(strip_tmpl(r_[2:]) == "std::function::operator()" for r_ in (t.get("leafrefs") or refs) if r_.startswith("c:")) and \
                any(("v:" + rv_) in (t.get("leafrefs") or refs) for rv_ in range_vars_over(g, R + "Router::middlewares"))
            if ((t.get("core") or {}).get("v") in mwres or direct) and not t.get("cmp"):
                # the edge on which the middleware's result is false (`if (!result) return` or `if (result) continue; return`)
                for k_ in (0, 1):
                    if ((k_ == 0) != bool(t.get("neg"))) is False and b.succs[k_] is not None:
                        stop_edges.add((b.id, k_))
    ck.require(accept_edges and stop_edges, "custom-handler accept / middleware stop branches not found in Router::route")

    def step(st, ev):
        tname = terminal(ev)
        if tname:
            return min(st + 1, 3)
        return st

    def edge(st, blk, k, succ):
        if (blk.id, k) in accept_edges or (blk.id, k) in stop_edges:
            return min(st + 1, 3)
        return st
    exits, _ = cfg.run_automaton(g, 0, step, edge=edge)
    counts = sorted({x.state for x in exits if x.kind != "throw"})
    ck.ob("C10-R3", "route/one-terminal-action", counts == [1], g.loc, g, "terminal actions per non-throwing path: %s" % counts)
    # 405 guarded by non-empty list
    na = [e for e in g.events("call") if terminal(e) == "405"]
    ck.require(na, "sendMethodNotAllowed not found")
    SM = na[0]["args"][0].get("v")
    ck.require(SM, "sendMethodNotAllowed is not given a local list")
    tests = [b for b in g.blocks.values() if b.term and b.term.get("k") == "if" and (b.term.get("core") or {}).get("root") == SM
             and "empty" in (b.term.get("cond") or "")]
    ok = bool(tests) and all(any(cfg.edge_dominates(g, b.id, 0 if b.term.get("neg") else 1, e) for b in tests) for e in na)
    ck.ob("C10-R3", "route/405-needs-methods", ok and all((e["args"][0].get("v") == SM) for e in na), na[0].loc, g,
          "sendMethodNotAllowed(supportedMethods) only on the !supportedMethods.empty() edge")
    # 404 / not-found handler only after the probe of the other methods came back empty (405 takes precedence)
    nf = [e for e in g.events("call") if terminal(e) in ("notfound", "404")]
    ck.require(nf, "not-found terminals not found in Router::route")
    for e in nf:
        okp = any(cfg.edge_dominates(g, b.id, 1 if b.term.get("neg") else 0, e) for b in tests)
        ck.ob("C10-R3", "route/%s-only-after-405-probe" % terminal(e), okp, e.loc, g,
              "reached only on the supportedMethods.empty() edge" if okp else
              "the not-found answer at line %s can be given before the other methods' trees were probed: a request that another method would match "
              "gets 404 instead of 405 with Allow" % e.get("l"))
    # building the list: skip own method, push only when the other tree matches
    # the list is filled in Router::route itself, or in a local lambda whose result initialises it
    builders = [(g, SM)]
    smd = [d_ for d_ in g.events("decl") if d_.get("var") == SM]
    if smd and (smd[0].get("icall") or "").startswith("lambda@"):
        for lf in prog.lambda_by_id(smd[0]["icall"].split("#in:")[0], g):
            rv_ = {(re_.get("val") or {}).get("v") or (re_.get("val") or {}).get("root") for re_ in lf.events("return")}
            builders += [(lf, v_) for v_ in rv_ if v_]
    elif smd and smd[0].get("icall"):
        # ... or in a member helper that returns it (expanded into this function: its local carries the helper's name as a suffix)
        short_ = strip_tmpl(smd[0]["icall"]).rsplit("::", 1)[-1]
        for re_ in g.events("iret"):
            v_ = (re_.get("val") or {}).get("v") or (re_.get("val") or {}).get("root") or ""
            if v_.endswith("@" + short_):
                builders.append((g, v_))
    pb_ = [(fn_, e) for fn_, var_ in set(builders) for e in fn_.calls(lambda e: e.base_callee() == "std::vector::push_back" and (e.get("recv") or {}).get("v") == var_)]
    ck.require(len(pb_) == 1, "supportedMethods.push_back sites: %d" % len(pb_))
    bf, e = pb_[0]
    ok_skip = ok_match = False
    # values that are the request's method: the call itself, a local or an expanded helper's parameter initialised from it
    MREF = "c:Pistache::Http::Request::method"
    mvars = {x.get("var") for x in bf.events(("decl", "bind")) if x.get("var") and (MREF in (x.get("refs") or []) or "method()" in ((x.get("init") or {}).get("t") or x.get("t") or ""))}
    for b in bf.blocks.values():
        t_ = b.term
        if not t_ or len(b.succs) != 2:
            continue
        for k_ in (0, 1):
            if b.succs[k_] is None or not cfg.edge_dominates(bf, b.id, k_, e):
                continue
            for r_ in lib.edge_relations(bf, b.id, k_):
                tt_ = r_[3]
                if r_[1] != "!=":
                    continue
                trefs_ = (tt_.get("leafrefs") or tt_.get("refs") or [])
                if MREF in trefs_ or any(r2_.startswith("v:") and r2_[2:].split("@")[0] in {v_.split("@")[0] for v_ in mvars} for r2_ in trefs_) \
                        or "req.method()" in re.sub(r"\s+", "", tt_.get("cond") if isinstance(tt_.get("cond"), str) else " ".join(tt_.get("cond") or [])):
                    ok_skip = True
                if tt_.get("rconst") == "nullptr" or "nullptr" in ((r_[2].get("t") or "") + (r_[0].get("t") or "")):
                    ok_match = True
    # ... and every registered method is probed: the loop around the push walks the routes table itself
    loops_ = cfg.natural_loops(bf)
    inner_ = cfg.innermost_loop(bf, e.block, loops_)
    rvs_ = range_vars_over(bf, R + "Router::routes")
    walks = inner_ is not None and any(d_.get("var") in rvs_ and d_.block in inner_[1] for d_ in bf.events("decl"))
    if not walks and inner_ is not None:
        # an iterator loop over routes.begin() .. routes.end()
        walks = any(("f:" + R + "Router::routes") in (bf.blocks[x_].term or {}).get("refs", []) for x_ in inner_[1] if (bf.blocks[x_].term or {}).get("k") in ("for", "while"))
    ck.ob("C10-R3", "route/allow-list-covers-every-method", bool(walks), e.loc, bf,
          "the probe walks Router::routes (every method that has a tree)" if walks else
          "the loop that fills the Allow list does not walk Router::routes: a method whose routes match but which the loop does not visit "
          "is missing from Allow (or the answer degrades to 404)")
    # ... and is decided by the one matcher: the probe asks SegmentTreeNode::findRoute, the routine that serves requests -- a second
    # tree walk written for the probe can disagree with it (optional segments, wildcards, backtracking) and then Allow names methods
    # that would not match, or omits some that would
    FR = N + "findRoute"
    in_loop = [x for x in bf.events("call") if inner_ is not None and x.block in inner_[1]]
    asks_fr = [x for x in in_loop if (x.get("callee") or "") == FR and not x.get("inlined")]
    other_walks = sorted({(x.get("callee") or "") for x in in_loop if (x.get("ccls") or "") == N.rstrip(":") and (x.get("callee") or "") != FR
                          and (x.get("callee") or "").rsplit("::", 1)[-1] not in ("sanitizeResource", "getSegmentType")})
    ck.ob("C10-R3", "route/allow-probe-uses-findRoute", bool(asks_fr) and not other_walks, e.loc, bf,
          "the probe calls SegmentTreeNode::findRoute" if asks_fr and not other_walks else
          "the probe decides with %s instead of (only) SegmentTreeNode::findRoute: a second matcher that can disagree with the one that serves "
          "requests" % (", ".join(x.replace("Pistache::Rest::", "") for x in other_walks) or "something else"), structural=True)
    ck.ob("C10-R3", "route/allow-list-construction", ok_skip and ok_match, e.loc, bf,
          "pushed only for a method other than the request's (%s) whose tree returns a route (%s)" % (ok_skip, ok_match))
    # the terminal route handler is invoked with the bindings of the lookup
    ih = [e for e in g.events("call") if terminal(e) == "route"]
    # the handler's request carries both binding lists of the lookup: locals initialised from std::get<1> / std::get<2> of the result
    # (whatever they are called), or those expressions in place
    def from_get(n_):
        vs = {d_["var"] for d_ in g.events("decl") if d_.get("var") and re.search(r"get<%d>\(" % n_, (d_.get("init") or {}).get("t") or "")}
        # `auto [route, params, splats] = tree.findRoute(path);`: the n-th name of the decomposition is get<n> of the result
        for d_ in g.events("decl"):
            bs_ = d_.get("bindings") or []
            if len(bs_) > n_ and strip_tmpl(d_.get("icall") or "") == N + "findRoute":
                sfx_ = ("@" + d_["var"].split("@", 1)[1]) if "@" in (d_.get("var") or "") else ""
                vs.add(bs_[n_] + sfx_)
                vs.add(bs_[n_])
        return lib.derived_vars(g, vs) if vs else set()
    # (only the invocation of a route that came out of findRoute is judged: its bindings are the lookup's.  Another way of reaching a
    # handler -- an exact-match table for parameter-free routes -- has no bindings to pass)
    r0 = from_get(0)
    ih_all = ih
    ih = [e for e in ih if ((e.get("recv") or {}).get("root") or "").split("@")[0] in {v_.split("@")[0] for v_ in r0} or re.search(r"get<0>\(", (e.get("recv") or {}).get("t") or "")]
    ck.require(ih, "no handler invocation on the route returned by findRoute in Router::route (%d invocation(s) in all)" % len(ih_all))
    t_ih = (ih[0].get("t") or "") if ih else ""
    has1 = bool(re.search(r"get<1>\(", t_ih)) or any(re.search(r"\b%s\b" % re.escape(v_.split("@")[0]), t_ih) for v_ in from_get(1))
    has2 = bool(re.search(r"get<2>\(", t_ih)) or any(re.search(r"\b%s\b" % re.escape(v_.split("@")[0]), t_ih) for v_ in from_get(2))
    ok = bool(ih) and has1 and has2
    ck.ob("C10-R3", "route/handler-gets-bindings", ok, ih[0].loc if ih else g.loc, g, "invokeHandler(Request(req, params, splats), resp)", nontrivial=False)

    # ---------------- R8: what addRoute files, removeRoute unfiles ----------------
    ck.rule("C10-R8", "E mod-set agreement of sibling routines",
            "every member of Router in which Router::addRoute files a route (directly or through the helpers it calls on this) is also "
            "updated by Router::removeRoute: a second index of the routes (a fast-path table, a cache) that only registration maintains "
            "keeps serving a route after it was removed", 1)
    def router_members_written(fn_):
        out_ = set()
        for h_ in lib.region(prog, fn_, within=lambda h_: h_.cls == R + "Router"):
            for e_ in h_.events(("call", "assign")):
                tgt = (e_.get("recv") if e_["k"] == "call" else e_.get("lhs")) or {}
                fq = strip_tmpl(tgt.get("f") or "")
                root_f = fq
                # a write through a reference obtained from a member (`auto& r = routes[method]; r.addRoute(..)`) counts for the member
                if not fq.startswith(R + "Router::") and tgt.get("root"):
                    for d_ in h_.events("decl"):
                        if d_.get("var") == tgt.get("root"):
                            for r_ in d_.get("refs") or []:
                                if r_.startswith("f:" + R + "Router::"):
                                    root_f = strip_tmpl(r_[2:])
                if not root_f.startswith(R + "Router::"):
                    continue
                mutating = e_["k"] == "assign" or lib.is_stl_mutation(e_) or (e_["k"] == "call" and (e_.get("callee") or "").startswith(R + "SegmentTreeNode::") and
                                                                                (e_.get("callee") or "").rsplit("::", 1)[-1] in ("addRoute", "removeRoute"))
                if mutating:
                    out_.add(root_f)
        return out_
    ar = lib.single(prog, R + "Router::addRoute")
    rr2 = lib.single(prog, R + "Router::removeRoute")
    w_add, w_rem = router_members_written(ar), router_members_written(rr2)
    ck.require(w_add, "Router::addRoute writes no member of Router")
    for m_ in sorted(w_add):
        ck.ob("C10-R8", "removeRoute-updates:%s" % m_.replace(R, ""), m_ in w_rem, rr2.loc, rr2,
              "filed by addRoute, unfiled by removeRoute" if m_ in w_rem else
              "%s is filled by Router::addRoute but never touched by Router::removeRoute: a removed route stays in it" % m_.replace(R, ""), structural=True)

    # ---------------- R4 ----------------
    for name in ("addRoute", "removeRoute", "route"):
        fn = lib.single(prog, R + "Router::" + name)
        d = cfg.dominators(fn)
        san = [e for e in fn.calls(lambda e: (e.get("callee") or "") == N + "sanitizeResource")]
        tree = [e for e in fn.calls(lambda e: (e.get("callee") or "") in (N + "addRoute", N + "removeRoute", N + "findRoute"))]
        ck.require(tree, "no tree operation in Router::%s" % name)
        sv = [x for x in fn.events("decl") if strip_tmpl(x.get("icall") or "") == N + "sanitizeResource"]
        # the path handed to the tree is computed from the sanitised string (through a copy into owned storage where there is one)
        der = lib.derived_vars(fn, {x["var"] for x in sv}) if sv else set()
        def from_sanitized(arg):
            return any(re.search(r"\b%s\b" % re.escape(v), arg.get("t") or "") for v in der)
        uses = bool(sv) and all(t["args"] and from_sanitized(t["args"][0]) for t in tree)
        ok = len(san) == 1 and all(cfg.ev_dominates(d, san[0], t) for t in tree) and uses
        ck.ob("C10-R4", "sanitize:Router::" + name, ok, fn.loc, fn, "sanitizeResource dominates %d tree operation(s), which take the sanitized path" % len(tree))

    # ... and sanitizeResource itself normalises on every path: a way round the duplicate-slash replacement is acceptable only behind a
    # search of the *whole* path for a duplicate (three-valued: a search that starts behind the first character is a violation -- a
    # leading "//" gets through; a guard of another shape is not modelled)
    sr = lib.single(prog, N + "sanitizeResource")
    norm = lambda e: e["k"] == "call" and strip_tmpl(e.get("callee") or "") in ("std::regex_replace",)
    ck.require([e for e in sr.events("call") if norm(e)], "sanitizeResource: the duplicate-slash replacement (std::regex_replace) was not found")
    loose = [x for x in cfg.exits_without(sr, norm) if x.kind != "throw"]
    if not loose:
        ck.ob("C10-R4", "sanitize:every-path-normalises", True, sr.loc, sr, "every path of sanitizeResource goes through the duplicate-slash replacement")
    else:
        # the searches that guard the way round
        from .. import tables as _tables
        srch = [e for e in sr.events("call") if re.match(r"^std::basic_string(_view)?::find$", strip_tmpl(e.get("callee") or "")) and
                any(_tables.arg_literal(prog, a) == "//" or ((a.get("root") or a.get("v")) and
                    any((v_.get("name") or "").rsplit("::", 1)[-1] == (a.get("root") or a.get("v")) and re.sub(r"\s+", "", v_.get("init") or "") == '"//"' for v_ in prog.vars))
                    for a in (e.get("args") or [])[:1])]
        if not srch:
            raise AnalysisBroken("sanitizeResource has a path that does not normalise duplicate slashes and no search for \"//\" that guards it: shape not modelled")
        starts = []
        for e in srch:
            a = [x for x in (e.get("args") or [])]
            st_ = a[1] if len(a) > 1 else {"dflt": True, "const": 0}
            starts.append(0 if st_.get("dflt") else st_.get("const"))
        okst = all(x == 0 for x in starts)
        if not okst and any(x is None for x in starts):
            raise AnalysisBroken("sanitizeResource: the start position of the duplicate-slash search is not a constant: not modelled")
        ck.ob("C10-R4", "sanitize:every-path-normalises", okst, srch[0].loc, sr,
              "the way round the replacement is taken only when a search of the whole path finds no duplicate slash" if okst else
              "sanitizeResource skips the duplicate-slash replacement when `%s` finds nothing, but that search starts at position %s: a duplicate at the very beginning of the path is not seen and reaches the tree as an empty first segment"
              % ((srch[0].get("t") or "")[:50], starts))

    # ... and in findRoute no candidate child is passed over without being asked: every way round a loop over a child collection goes
    # through the recursive lookup on that child, and the wildcard child is tried whenever there is one
    f = lib.single(prog, N + "findRoute") if False else [x for x in prog.find(N + "findRoute", 1) if len(x.params) == 3][0]
    f = prog.flat(f)
    isrec = lambda e: e["k"] == "call" and (e.get("callee") or "") == N + "findRoute" and len(e.get("args") or []) == 3
    nloops = 0
    for h, body in cfg.natural_loops(f):
        if not any(isrec(e) for b_ in body for e in f.blocks[b_].elems):
            continue
        nloops += 1
        hb = f.blocks[h]
        ins = [s_ for s_ in hb.succs if s_ is not None and s_ in body and s_ != h]
        skipped = False
        for s_ in ins:
            # events on a way from the loop body's entry back to the header without the lookup
            seen_, work_ = set(), [s_]
            while work_ and not skipped:
                b_ = work_.pop()
                if b_ in seen_ or b_ not in body:
                    continue
                seen_.add(b_)
                if any(isrec(e) for e in f.blocks[b_].elems):
                    continue
                for n_ in f.blocks[b_].succs:
                    if n_ == h:
                        skipped = True
                    elif n_ is not None:
                        work_.append(n_)
        ck.ob("C10-R1", "loop@%s/every-child-is-asked" % (hb.term or {}).get("l"), not skipped, "%s:%s" % (f.file, (hb.term or {}).get("l")), f,
              "every iteration performs the recursive lookup on its child" if not skipped else
              "an iteration of this loop over candidate children can go on to the next child without the recursive lookup: a child that would match (through an absent optional below it, say) is passed over")
    ck.require(nloops >= 2, "loops over child collections in findRoute: %d" % nloops)
    dom_f = cfg.dominators(f)
    sp_calls = [e for e in f.events("call") if isrec(e) and (strip_tmpl((e.get("recv") or {}).get("f") or "") == N + "splat_" or
                                                             re.sub(r"\s+|this->", "", (e.get("recv") or {}).get("t") or "") == "splat_")]
    ck.require(sp_calls, "the recursive lookup on splat_ was not found in findRoute")
    for e in sp_calls:
        gs = []
        for b_ in f.blocks.values():
            t_ = b_.term
            if not t_ or len([s_ for s_ in b_.succs if s_ is not None]) < 2 or t_.get("k") not in ("if", "land", "lor"):
                continue
            if ("f:" + N + "splat_") in [strip_tmpl(r) for r in (t_.get("refs") or [])] and cfg.block_dominates(dom_f, b_.id, e):
                gs.append(b_)
        extra = sorted({r for g_ in gs for r in (g_.term.get("refs") or []) if strip_tmpl(r) != "f:" + N + "splat_" and not r.startswith("c:std::") and r != "v:this"})
        ck.ob("C10-R1", "splat/tried-whenever-present", bool(gs) and not extra, e.loc, f,
              "the wildcard child is asked whenever splat_ is set" if gs and not extra else
              "the lookup on the wildcard child also depends on %s: a wildcard route that would match is not always tried" % extra)

    # ---------------- R7: registration never replaces what is there; absent optionals are followed to the end ----------------
    ck.rule("C10-R7", "B guard dominates store + C must-pass-through",
            "SegmentTreeNode::addRoute stores into a child slot (splat_, route_) only on the edge that knows the slot is empty, and puts "
            "children into the per-kind maps only with keep-first insertion — a second route through the same node extends the subtree, "
            "it never replaces it; and findRoute, once the path is exhausted at a node that has optional children, answers with the "
            "recursive lookup in the optional child (a chain of absent optionals is followed to its end)", 3)
    ar = lib.single(prog, N + "addRoute")
    for fld in ("splat_", "route_"):
        q = N + fld
        stores = [e for e in ar.events(("assign", "call")) if (e["k"] == "assign" and strip_tmpl((e.get("lhs") or {}).get("f") or "") == q) or
                  (e["k"] == "call" and e.get("op") == "=" and strip_tmpl((e.get("recv") or {}).get("f") or "") == q)]
        empties = lib.relation_edges(ar, lambda r_: strip_tmpl(r_.get("f") or "") == q, lambda r_: "nullptr" in (r_.get("t") or "") or r_.get("const") == "nullptr", ("==",))
        for e in stores:
            ok_ = any(cfg.edge_dominates(ar, bid, k_, e) for bid, k_ in empties)
            ck.ob("C10-R7", "addRoute/%s-stored-only-when-empty" % fld, ok_, e.loc, ar,
                  "reached only on the `%s == nullptr` edge" % fld if ok_ else
                  "`%s` is overwritten without knowing that it is empty: registering a second route through this node discards the subtree "
                  "(and the routes) registered before" % fld)
    for e in ar.events("call"):
        if lib.is_stl_mutation(e) and lib.is_assoc_call(e):
            nm = e.base_callee().rsplit("::", 1)[1]
            ok_ = nm in ("insert", "emplace", "try_emplace", "emplace_hint") or (nm == "operator[]" and not lib.is_subscript_store(ar, e))
            ck.ob("C10-R7", "addRoute/children-keep-first:%s" % nm, ok_, e.loc, ar, "child maps are extended with %s" % nm)
    # findRoute, path exhausted: the edge on which optional_ is not empty leads to the recursive lookup
    oe = lib.result_edges(f, "std::unordered_map::empty", False)
    oe = [(bid, k_) for bid, k_ in oe if ("f:" + N + "optional_") in (f.blocks[bid].term.get("refs") or []) and
          not any(x is e_ for e_ in arm_events for x in f.blocks[bid].elems)]
    ck.require(oe, "`!optional_.empty()` test of the path-exhausted arm not found in findRoute")
    is_rec = lambda e: e["k"] == "call" and (e.get("callee") or "") == N + "findRoute" and len(e.get("args") or []) == 3
    for bid, k_ in oe:
        bad_ = [x for x in cfg.exits_without(f, is_rec, start_block=f.blocks[bid].succs[k_]) if x.kind != "throw"]
        ck.ob("C10-R7", "findRoute/absent-optional-followed", not bad_, "%s:%s" % (f.file, f.blocks[bid].term.get("l")), f,
              "path exhausted and optional children present: the answer is the recursive lookup in the optional child" if not bad_ else
              "with the path exhausted the optional child is not searched recursively: a route ending in two absent optionals is not found")
