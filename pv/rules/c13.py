"""C13 — cross-thread queue: no loss, duplication, reordering or missed wake-up.

Decides the ordering/atomicity premises of the algorithm (see DESIGN.md §3 C13): producer links then signals, consumer
drains the notification then checks the queue, consumers loop until the null result, one consumer per queue."""
import re

from .. import cfg, lib, facts
from ..facts import AnalysisBroken, strip_tmpl

STRONG = ("memory_order_seq_cst", "memory_order_acq_rel")
ACQ = ("memory_order_seq_cst", "memory_order_acq_rel", "memory_order_acquire")
REL = ("memory_order_seq_cst", "memory_order_acq_rel", "memory_order_release")


def order_of(ev, pos):
    """memory order argument at position pos of a std::atomic member call (default seq_cst)."""
    args = ev.get("args") or []
    if pos >= len(args):
        return "memory_order_seq_cst"
    a = args[pos]
    if a.get("dflt"):
        t = a.get("dt") or ""
    else:
        t = a.get("t") or ""
        c = a.get("const")
        if isinstance(c, str) and c.startswith("e:"):
            t = c
    m = re.search(r"memory_order_\w+", t)
    return m.group(0) if m else "?"


def is_libc(ev, name):
    return ev["k"] == "call" and ev.get("callee") == name and not (ev.get("cfile") or "").startswith(facts.REPO)


def run(ck):
    prog = ck.prog
    ck.rule("C13-R1", "C ordering + atomic type/memory-order check",
            "Queue<T>::push: head.exchange(entry) (acq_rel or stronger, on std::atomic) precedes the store prev->next = entry "
            "(release or stronger) where prev is the exchange result; PollableQueue<T>::push: Queue<T>::push precedes write(event_fd) "
            "and the write is conditional on nothing but isBound()", 4)
    ck.rule("C13-R2", "C path automaton",
            "PollableQueue<T>::pop: the eventfd is drained (read) before Queue<T>::pop on every bound path, and no read(event_fd) "
            "is reachable after Queue<T>::pop", 2)
    ck.rule("C13-R3", "C path automaton",
            "every consumer calls popSafe in a loop whose only non-throwing exit is the null result", 5)
    ck.rule("C13-R4", "D who-may-call / who-may-write",
            "each PollableQueue member is popped from exactly one function, called only from its owner's onReady/flush; "
            "Queue::tail is assigned only in Queue::pop and the constructor", 6)
    ck.rule("C13-R5", "I type-level + memory-order check",
            "Queue::head and Entry::next are std::atomic<Entry*>; Queue::pop loads next with acquire or stronger, advances tail to "
            "the loaded node and returns null exactly when next is null", 3)

    # the descriptor a pollable queue signals through: the field its bind() registers with the poller (in PollableQueue itself or in
    # a member object that holds the eventfd for it)
    EFD = set()
    for fb in prog.find("Pistache::PollableQueue::bind", 1):
        for e in fb.calls(lambda e: (e.get("callee") or "") == "Pistache::Polling::Epoll::addFd"):
            a0 = (e.get("args") or [{}])[0]
            fq = strip_tmpl(a0.get("f") or "")
            if fq:
                EFD.add(fq)
            elif re.match(r"^[\w.>-]+?(?:\.|->)(\w+)\(\)$", (a0.get("t") or "").strip()):
                # `poller.addFd(holder.get(), ..)`: the field(s) the accessor returns
                nm_ = re.match(r"^[\w.>-]+?(?:\.|->)(\w+)\(\)$", (a0.get("t") or "").strip()).group(1)
                for c2_ in fb.events("call"):
                    if (c2_.get("callee") or "").rsplit("::", 1)[-1] == nm_ and (c2_.get("t") or "").strip() == (a0.get("t") or "").strip():
                        for g_ in prog.resolve_call(c2_):
                            for r_ in g_.events("return"):
                                for x_ in (r_.get("refs") or []):
                                    if x_.startswith("f:"):
                                        EFD.add(strip_tmpl(x_[2:]))
            elif a0.get("v"):
                # `const int fd = holder.open(); poller.addFd(fd, ..)`: the field(s) the holder's member hands back
                for d_ in fb.events("decl"):
                    if d_.get("var") == a0.get("v") and d_.get("icall"):
                        for g_ in prog.by_base.get(strip_tmpl(d_["icall"]), []):
                            for r_ in g_.events("return"):
                                for x_ in (r_.get("refs") or []):
                                    if x_.startswith("f:"):
                                        EFD.add(strip_tmpl(x_[2:]))
    ck.require(EFD, "PollableQueue::bind does not register a member descriptor with the poller")
    # accessors that hand the descriptor out (`int get() const { return fd_; }` of a holder class)
    EFD_GET = set()

    def _returns_efd(g_):
        rs_ = list(g_.events("return"))
        return bool(rs_) and all(any(x_.startswith("f:") and strip_tmpl(x_[2:]) in EFD for x_ in (r_.get("refs") or [])) for r_ in rs_)

    def _refresh_getters():
        for g_ in prog.funcs.values():
            if g_.blocks and not g_.params and g_.cls and _returns_efd(g_):
                EFD_GET.add(strip_tmpl(g_.base))

    def is_efd(a_):
        a_ = a_ or {}
        if strip_tmpl(a_.get("f") or "") in EFD:
            return True
        # `event.get()`: a call of such an accessor written in place of the member
        m_ = re.match(r"^(?:this->)?[\w.>-]+?(?:\.|->)(\w+)\(\)$", (a_.get("t") or "").strip())
        return bool(m_) and any(x_.rsplit("::", 1)[-1] == m_.group(1) for x_ in EFD_GET)
    _refresh_getters()

    # ---------------- R7: one eventfd per pollable queue ----------------
    ck.rule("C13-R7", "D who-may-write (origin of the notification descriptor)",
            "a pollable queue signals and drains a descriptor of its own: every store to the descriptor field is -1 (unbound) or the "
            "result of a fresh eventfd() -- a descriptor taken from another queue makes one queue's pop() consume the other's wake-up, "
            "and an entry pushed in between stays queued with nothing pending", 2)

    def fresh_eventfd_at(fn_, line):
        evs = [e for e in fn_.events("call") if e.get("l") == line]
        for lf in prog.lambdas_in(fn_):
            m_ = re.match(r"lambda@.*?:(\d+):\d+", lf.id)
            if m_ and int(m_.group(1)) == line:
                evs += list(lf.events("call"))
        return any(is_libc(e, "eventfd") for e in evs)
    for f in prog.funcs.values():
        if not f.blocks:
            continue
        stores = [(e, e["lhs"].get("f"), e.get("const"), e.get("rhs") or {}) for e in f.events("assign") if strip_tmpl(e["lhs"].get("f") or "") in EFD]
        stores += [(e, e.get("f"), e.get("const"), {"t": e.get("t"), "v": e.get("v")}) for e in f.events("init") if strip_tmpl(e.get("f") or "") in EFD]
        for e, fld, const, rhs in stores:
            ok = const == -1 or (rhs.get("t") or "").replace(" ", "") in ("-1", "") and e["k"] == "init" and const in (-1, None) and not rhs.get("v")
            # (a move between two holders: `fd_ = other.fd_; other.fd_ = -1;` -- the descriptor changes owner, it is not shared)
            if not ok and strip_tmpl(rhs.get("f") or "") in EFD and (rhs.get("t") or "") != ((e.get("lhs") or {}).get("t") or ""):
                src_t = (rhs.get("t") or "").strip()
                ok = any(((x_.get("lhs") or {}).get("t") or "").strip() == src_t and x_.get("const") == -1 for x_ in cfg.events_after(f, e) if x_["k"] == "assign")
            if not ok and rhs.get("v"):
                ds = [d for d in f.events("decl") if d.get("var") == rhs.get("v")]
                ok = bool(ds) and all(is_libc({"k": "call", "callee": d.get("icall"), "cfile": ""}, "eventfd") or fresh_eventfd_at(f, d.get("l")) for d in ds)
            elif not ok:
                ok = fresh_eventfd_at(f, e.get("l"))
            ck.ob("C13-R7", "descriptor-store@%s" % prog.owner(f).base.replace("Pistache::", ""), ok, e.loc, f,
                  "-1 or a fresh eventfd()" if ok else "the queue's descriptor is set from `%s`, which is not a fresh eventfd(): two queues "
                  "that share a descriptor consume each other's notifications" % (rhs.get("t") or "?"))

    # ---------------- R1 ----------------
    pushes = prog.find("Pistache::Queue::push", 2)
    for f in pushes:
        ck.touch(f)
        key = "Queue::push"
        ex = [e for e in f.calls(lambda e: e.base_callee() == "std::atomic::exchange" and strip_tmpl((e.get("recv") or {}).get("f") or "").endswith("Queue::head"))]
        st = [e for e in f.calls(lambda e: e.base_callee() in ("std::atomic::operator=", "std::atomic::store")
                                 and strip_tmpl((e.get("recv") or {}).get("f") or "").endswith("Queue::Entry::next"))]
        plain = [e for e in f.events("assign") if strip_tmpl((e["lhs"].get("f") or "")).endswith("Queue::Entry::next")]
        ok = len(ex) == 1 and len(st) == 1 and not plain
        detail = "exchange=%d atomic-store=%d plain-store=%d" % (len(ex), len(st), len(plain))
        if ok:
            dom = cfg.dominators(f)
            e, s = ex[0], st[0]
            o1 = order_of(e, 1)
            o2 = order_of(s, 1) if s.base_callee().endswith("store") else "memory_order_seq_cst"
            prevdecl = [d for d in f.events("decl") if d.get("icall") and strip_tmpl(d["icall"]) == "std::atomic::exchange"]
            prevvar = prevdecl[0]["var"] if prevdecl else None
            ok = cfg.ev_dominates(dom, e, s) and o1 in STRONG and o2 in REL and prevvar is not None and (s["recv"].get("b") == prevvar) \
                and (e["args"][0].get("v") is not None) and (s["args"][0].get("v") == e["args"][0].get("v"))
            detail = "exchange(%s,%s)@%s then %s(%s)@%s via '%s'" % (e["args"][0].get("t"), o1, e.get("l"), s.base_callee().rsplit("::", 1)[1], o2, s.get("l"), prevvar)
        ck.ob("C13-R1", key, ok, f.loc, f, detail)

    ppushes = prog.find("Pistache::PollableQueue::push", 2)
    for f in ppushes:
        ck.touch(f)
        qp = [e for e in f.calls(lambda e: e.base_callee() == "Pistache::Queue::push")]
        wr = [e for e in f.calls(lambda e: is_libc(e, "write"))]
        ok = len(qp) == 1 and len(wr) == 1
        detail = "Queue::push calls=%d write calls=%d" % (len(qp), len(wr))
        if ok:
            dom = cfg.dominators(f)
            fdarg = (wr[0]["args"][0].get("f") or "")
            ok = cfg.ev_dominates(dom, qp[0], wr[0]) and is_efd(wr[0]["args"][0])
            # conditions guarding the write
            guards = []
            avoid = {}
            for b in f.blocks.values():
                if b.term and len([s for s in b.succs if s is not None]) == 2 and b.id in dom.get(wr[0].block, ()) and b.id != wr[0].block:
                    # does some successor avoid the write?
                    for k, s in enumerate(b.succs):
                        evs = cfg.events_from_block(f, s)
                        if not any(x is wr[0] for x in evs):
                            guards.append(b)
                            avoid[b.id] = k
                            break
            gtxt = [g.term.get("cond") for g in guards]
            # each guarding block may only evaluate isBound(): use the references of the leaf the block really tests
            def only_bound(g):
                lr = [strip_tmpl(r) for r in (g.term.get("leafrefs") or g.term.get("refs") or [])]
                return "c:Pistache::PollableQueue::isBound" in lr and not [r for r in lr if r.startswith("v:") and r != "v:this"]
            ok = ok and all(only_bound(g) for g in guards)
            # ... and with the right polarity: the arm that skips the signal is the one on which the queue is NOT bound
            polarity = all(avoid[g.id] == (0 if g.term.get("neg") else 1) for g in guards if only_bound(g))
            ok = ok and polarity
            # the push must not itself be conditional
            ok = ok and qp[0].block in dom[f.exit] if f.exit in dom else ok
            detail = "Queue::push@%s dominates write(event_fd)@%s; write guarded by %s%s" % (qp[0].get("l"), wr[0].get("l"), gtxt, "" if polarity else " -- but the signal is skipped on the arm on which the queue IS bound")
        ck.ob("C13-R1", "PollableQueue::push", ok, f.loc, f, detail)

    # ---------------- R2 ----------------
    pops = prog.find("Pistache::PollableQueue::pop", 2)
    summ = lib.Summaries(prog)
    is_efd_read = lambda ev: is_libc(ev, "read") and is_efd(ev["args"][0])
    must_drain = summ.lift_must(is_efd_read, "eventfd-read")
    may_drain = summ.lift_may(is_efd_read, "eventfd-read")
    for f in pops:
        ck.touch(f)
        qpop = [e for e in f.calls(lambda e: e.base_callee() == "Pistache::Queue::pop" and e.get("qualified"))]
        ck.require(len(qpop) >= 1, "PollableQueue::pop no longer calls Queue::pop (%s)" % f.loc)
        reads_after = []
        for q in qpop:
            reads_after += [e for e in cfg.events_after(f, q) if is_libc(e, "read") or may_drain(e)]
        bad_before = []
        bound_blocks = [b.id for b in f.blocks.values() if b.term and "c:Pistache::PollableQueue::isBound" in [strip_tmpl(r) for r in (b.term.get("refs") or [])]]

        fstep = lib.flag_step(prog, f)

        def step(st0, ev):
            st, flags = st0
            if must_drain(ev):      # the read itself, or a helper every path of which reads the eventfd
                return ("drained", flags)
            if ev in qpop:
                if st == "init":
                    bad_before.append(ev)
                return None
            return (st, fstep(flags, ev))

        def edge(st0, blk, k, succ):
            st, flags = st0
            # named bool locals with a known value decide their branches (`bool drained = false; while (!drained) ...` is entered)
            if lib.flag_edge(flags, blk, k, succ) is None:
                return None
            if blk.id in bound_blocks and blk.term.get("k") == "if":
                unbound_edge = 0 if blk.term.get("neg") else 1
                if k == unbound_edge:
                    return ("unbound", flags)
            return st0
        cfg.run_automaton(f, ("init", frozenset()), step, edge=edge)
        ok = not reads_after and not bad_before
        detail = "drain precedes Queue::pop on every bound path; nothing read after the pop"
        if reads_after:
            detail = "read(event_fd) at %s is reachable after Queue::pop at %s: a push landing in between is popped by nobody and its wake-up is consumed" % (reads_after[0].loc, qpop[0].loc)
        elif bad_before:
            detail = "Queue::pop at %s is reachable on a bound path without draining the eventfd first" % bad_before[0].loc
        ck.ob("C13-R2", "PollableQueue::pop", ok, f.loc, f, detail)
        # whatever the eventfd said, the queue itself is looked at: every non-throwing way out of pop() passes Queue::pop -- the
        # notification count says nothing about what is linked (a producer may be between linking and signalling, or a unit may have
        # been spent on a pop that found the entry not linked yet)
        skips = [x for x in cfg.exits_without(f, lambda ev: any(ev is q for q in qpop)) if x.kind != "throw"]
        ck.ob("C13-R2", "PollableQueue::pop/always-looks-at-the-queue", not skips, (skips[0].event.loc if skips and skips[0].event is not None else f.loc), f,
              "every path reaches Queue::pop" if not skips else
              "pop() can return at line %s without looking at the queue: what the eventfd reports decides instead of what is linked"
              % (skips[0].event.get("l") if skips[0].event is not None else "?"))

    # ---------------- R3 / R4 ----------------
    # PollableQueue-typed members, discovered from the class layouts
    qfields = {}
    for c in prog.class_list:
        if c.get("dependent"):
            continue
        if not ((c.get("file") or "").startswith(facts.REPO + "/src/") or (c.get("file") or "").startswith(facts.REPO + "/include/")):
            continue    # test fixtures with their own queues are not part of the library
        for fld in c["fields"]:
            if strip_tmpl(fld.get("rec") or "") == "Pistache::PollableQueue":
                qfields[fld["q"]] = c["name"]
    ck.require(len(qfields) >= 5, "expected >=5 PollableQueue members, found %d" % len(qfields))
    consumers = {}
    for f in prog.flat_library_funcs():
        for e in f.calls(lambda e: e.base_callee() in ("Pistache::Queue::popSafe", "Pistache::Queue::pop", "Pistache::PollableQueue::pop")):
            fld = (e.get("recv") or {}).get("f")
            if fld in qfields:
                consumers.setdefault(fld, []).append((f, e))
    for fld, owner in sorted(qfields.items()):
        sites = consumers.get(fld, [])
        fns = {f.id for f, _ in sites}
        ck.ob("C13-R4", "single-consumer:" + fld, len(fns) == 1, sites[0][1].loc if sites else "?", sites[0][0] if sites else "",
              "popped from %s" % sorted({f.name for f, _ in sites}))
        for f, e in sites:
            # allowed callers of the consumer function
            callers = {prog.owner(x.func).base for x in prog.call_sites(f.base)}
            allowed = {owner + "::onReady", owner + "::flush", f.base}
            # a private helper of the owner that onReady / flush were split into counts as its callers
            extra = {c_ for c_ in callers - allowed
                     if not (c_.startswith(owner + "::") and all(lib.only_reached_from(prog, g_, allowed) for g_ in prog.by_base.get(c_, [])))}
            ck.ob("C13-R4", "consumer-callers:" + f.base, not extra, f.loc, f, "called from %s" % sorted(callers))
            # R3: loop until null
            okd, why = lib.drain_loop_check(f, e)
            ck.require(okd is not None, "%s: %s" % (f.base, why))
            ck.ob("C13-R3", "drain-loop:" + f.base, okd, e.loc, f, why)

    # tail written only in pop / ctor
    for f in prog.library_funcs():
        for e in f.events("assign"):
            lf = strip_tmpl(e["lhs"].get("f") or "")
            if lf == "Pistache::Queue::tail":
                ok = f.base in ("Pistache::Queue::pop", "Pistache::Queue::Queue")
                ck.ob("C13-R4", "tail-writer:" + f.base, ok, e.loc, f, "assigns Queue::tail")

    # ---------------- R6: nothing enqueues on a pollable queue without the signal ----------------
    ck.rule("C13-R6", "D who-may-call (resolved receivers)",
            "on an object whose static type is PollableQueue<T>, the only call that links an entry is PollableQueue::push (link, then "
            "signal): no other member of the base Queue that links an entry -- Queue::push itself, or anything that reaches it -- is "
            "called on a pollable queue outside that wrapper", 5)
    summ6 = lib.Summaries(prog)
    def links(e):
        # any atomic write of Queue::head (exchange, or whatever a changed push uses instead: store, compare_exchange)
        return e["k"] == "call" and e.base_callee().rsplit("::", 1)[-1] in ("exchange", "store", "compare_exchange_strong", "compare_exchange_weak", "operator=") and \
            e.base_callee().startswith(("std::atomic", "std::__atomic_base")) and strip_tmpl((e.get("recv") or {}).get("f") or "") == "Pistache::Queue::head"
    npq = 0
    for f in prog.library_funcs():
        for e in f.events("call"):
            rty = ((e.get("recv") or {}).get("ty") or "") + " " + ((e.get("recv") or {}).get("ft") or "")
            if "PollableQueue<" not in rty:
                continue
            gs = [g for g in prog.resolve_call(e) if g.blocks]
            if not gs or not any(summ6.may(g, links, "queue-link") for g in gs):
                continue
            npq += 1
            base_ = strip_tmpl(e.get("callee") or "")
            via_wrapper = base_ == "Pistache::PollableQueue::push" or f.base == "Pistache::PollableQueue::push"
            ck.ob("C13-R6", "enqueue@%s:%s" % (prog.owner(f).base.replace("Pistache::", ""), (e.get("recv") or {}).get("t")), via_wrapper, e.loc, f,
                  "PollableQueue::push" if via_wrapper else
                  "`%s` links an entry into a pollable queue through %s, which does not write the eventfd: the entry stays queued and the "
                  "consumer is never woken for it" % ((e.get("t") or "")[:60], base_))
    ck.require(npq >= 5, "enqueueing calls on pollable queues found: %d" % npq)

    # ---------------- R5 ----------------
    qc = [c for c in prog.class_list if strip_tmpl(c["name"]) == "Pistache::Queue" and c.get("dependent")]
    ec = [c for c in prog.class_list if strip_tmpl(c["name"]) == "Pistache::Queue::Entry" and c.get("dependent")]
    ck.require(qc and ec, "Queue / Queue::Entry class templates not found")
    head = [x for x in qc[0]["fields"] if x["name"] == "head"]
    nxt = [x for x in ec[0]["fields"] if x["name"] == "next"]
    ck.ob("C13-R5", "type:Queue::head", bool(head) and re.match(r"^(std::)?atomic<", (head[0].get("ctype") or head[0]["type"]).replace(" ", "")) is not None, "%s:%s" % (qc[0]["file"], head[0]["line"] if head else 0), "",
          "declared %s" % (head[0]["type"] if head else "missing"), nontrivial=False)
    ck.ob("C13-R5", "type:Queue::Entry::next", bool(nxt) and re.match(r"^(std::)?atomic<", (nxt[0].get("ctype") or nxt[0]["type"]).replace(" ", "")) is not None, "%s:%s" % (ec[0]["file"], nxt[0]["line"] if nxt else 0), "",
          "declared %s" % (nxt[0]["type"] if nxt else "missing"), nontrivial=False)
    for f in prog.find("Pistache::Queue::pop", 2):
        ck.touch(f)
        lds = [e for e in f.calls(lambda e: e.base_callee() == "std::atomic::load" and strip_tmpl((e.get("recv") or {}).get("f") or "").endswith("Entry::next"))]
        ok = len(lds) == 1 and order_of(lds[0], 0) in ACQ
        detail = "load orders: %s" % [order_of(x, 0) for x in lds]
        if ok:
            d = [x for x in f.events("decl") if strip_tmpl(x.get("icall") or "") == "std::atomic::load"]
            var = d[0]["var"] if d else None
            tails = [e for e in f.events("assign") if strip_tmpl(e["lhs"].get("f") or "") == "Pistache::Queue::tail"]
            ok = var is not None and len(tails) == 1 and tails[0]["rhs"].get("v") == var
            # tail assignment only on the non-null arm; null returned on the other
            nb = [b for b in f.blocks.values() if b.term and b.term.get("k") == "if" and (b.term.get("core") or {}).get("v") == var]
            ok = ok and len(nb) == 1
            if ok:
                b = nb[0]
                tarm, farm = (b.succs[1], b.succs[0]) if b.term.get("neg") else (b.succs[0], b.succs[1])
                t_ev = cfg.events_from_block(f, tarm)
                f_ev = cfg.events_from_block(f, farm)
                ok = any(x is tails[0] for x in t_ev) and not any(x is tails[0] for x in f_ev) and \
                    any(x["k"] == "return" and x.get("const") == "nullptr" for x in f_ev) and \
                    not any(x["k"] == "return" and x.get("const") == "nullptr" for x in t_ev if x.block != farm and x not in f_ev)
            detail += "; tail advanced to '%s' on the non-null arm, nullptr returned otherwise" % var if ok else "; tail/null-arm shape not recognised"
        ck.ob("C13-R5", "Queue::pop", ok, f.loc, f, detail)
