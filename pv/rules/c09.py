"""C09 — multi-threaded serving is race-free and shuts down cleanly.

Decides two structural necessities: (R1) nothing reachable from the per-request entry points of the shared router handler
mutates the router / its segment trees; (R2) shutdown ordering facts; (R3) cross-thread entry points of the transport touch
worker-owned tables only through the queues.  Does not decide absence of all data races nor thread termination."""
import re
from .. import cfg, lib, facts
from ..facts import AnalysisBroken, strip_tmpl

T = "Pistache::Tcp::Transport::"
SHARED_CLASSES = ("Pistache::Rest::Router", "Pistache::Rest::SegmentTreeNode")


def run(ck):
    prog = ck.prog
    ck.rule("C09-R1", "F effect check from entry over the call graph",
            "no function reachable from the library's overrides of Http::Handler::onRequest / Tcp::Handler::onDisconnection (the router "
            "handler shared by all workers) mutates a field of Rest::Router or Rest::SegmentTreeNode (assignment or a mutating container "
            "member from the frozen STL table, e.g. map::operator[])", 2)
    ck.rule("C09-R2", "C ordering facts",
            "SyncImpl::shutdown stores shutdown_ before notifying; SyncImpl::runOnce tests shutdown_ before handleFds; SyncImpl::run loops "
            "on !shutdown_; Listener::shutdown notifies the acceptor and shuts the reactor down; Listener::run returns on the shutdown tag; "
            "Worker::~Worker joins a joinable thread", 6)
    ck.rule("C09-R3", "D/A hand-off discipline",
            "off-thread arms of Transport::handleNewPeer and armTimerMs reach worker-owned tables (peers, timers) only through the "
            "PollableQueues; asyncWrite only enqueues", 3)

    # ---------------- R1 ----------------
    entries = []
    for f in prog.funcs.values():
        if f.is_lambda or not f.cls:
            continue
        nm = f.base.rsplit("::", 1)[1]
        if nm in ("onRequest", "onDisconnection") and f.file.startswith(facts.REPO + "/src") and (f.d.get("overrides")):
            entries.append(f)
    ck.require(len(entries) >= 2, "handler entry points in the library: %d" % len(entries))
    reach = lib.callgraph_reach(prog, entries)
    ck.note("C09-R1: %d functions reachable from %s" % (len(reach), [e.name for e in entries]))
    bad = {}
    for fid, (f, chain) in reach.items():
        for fld, how, ev in lib.direct_writes(f):
            cls = strip_tmpl(fld.rpartition("::")[0])
            if cls in SHARED_CLASSES:
                bad.setdefault((f.base, fld, how), (ev, chain))
    for e in entries:
        mine = lib.callgraph_reach(prog, [e])
        hits = [(k, v) for k, v in bad.items() if any(g.base == k[0] for g, _c in mine.values())]
        if not hits:
            ck.ob("C09-R1", "entry:%s" % e.base.replace("Pistache::", ""), True, e.loc, e,
                  "%d reachable functions, none mutates Router/SegmentTreeNode state" % len(mine))
        for (fb, fld, how), (ev, chain) in hits:
            ck.ob("C09-R1", "write:%s in %s" % (fld.replace("Pistache::", ""), fb.replace("Pistache::", "")), False, ev.loc, ev.func,
                  "%s (%s) mutates state shared by all worker threads while serving" % (ev.get("t") or fld, how), path=chain)
    # the handler clone shares the router (documented premise of R1)
    rh = prog.cls("Pistache::Rest::Private::RouterHandler")
    rf = [x for x in rh["fields"] if x["name"] == "router"]
    ck.ob("C09-R1", "premise:RouterHandler::router-shared", bool(rf) and "shared_ptr" in (rf[0].get("ctype") or rf[0]["type"]), "%s:%s" % (rh["file"], rf[0]["line"] if rf else 0), "",
          "router is held by %s: worker clones share one Router" % (rf[0]["type"] if rf else "?"), nontrivial=False)

    # ---------------- R5: the serving path writes no process-wide state ----------------
    ck.rule("C09-R5", "F effect check from entry (globals / static locals)",
            "no function reachable from Http::Handler::onInput or Tcp::Transport::onReady — the code every worker thread runs per event — "
            "assigns or mutates a namespace-scope variable or a static data member; the only mutable static local on that path is the header "
            "Registry singleton, whose mutator (registerHeader) is not reachable from it", 2)
    sroots = prog.find("Pistache::Http::Handler::onInput", 1) + prog.find(T + "onReady", 1)
    sreach = lib.callgraph_reach(prog, sroots)
    gw = []
    statics = []
    for fid, (f2, chain) in sreach.items():
        # the library's own code only: application handlers (tests/, examples/ in the thorough tier) are not pistache's serving path
        if not (f2.file.startswith(facts.REPO + "/src/") or f2.file.startswith(facts.REPO + "/include/")):
            continue
        for e in f2.events():
            g_ = None
            if e["k"] == "assign":
                g_ = e["lhs"].get("g")
            elif e["k"] == "incdec":
                g_ = (e.get("operand") or {}).get("g")
            elif e["k"] == "call":
                rv = e.get("recv") or {}
                if rv.get("g") and lib.is_stl_mutation(e):
                    g_ = rv["g"]
            if g_:
                gw.append((f2, e, g_, chain))
        for d_ in f2.events("decl"):
            # (a thread_local local is per worker: not shared state; what it may carry from one request to the next is the business of
            # the no-stale-static rules of the parsers and writers)
            if d_.get("static") and not d_.get("tls") and "const" not in (d_.get("type") or ""):
                statics.append((f2, d_))
    ck.ob("C09-R5", "serving-path/no-global-writes", not gw, gw[0][1].loc if gw else sroots[0].loc, gw[0][0] if gw else sroots[0],
          "%d functions reachable, none writes a global" % len(sreach) if not gw else
          "%s writes the process-wide variable %s while serving: every worker thread runs this code concurrently" % (gw[0][0].name, gw[0][2]), path=gw[0][3] if gw else None)
    allowed_static = {"Pistache::Http::Header::Registry::instance"}
    odd = [(f2, d_) for f2, d_ in statics if f2.base not in allowed_static]
    reg_reach = [f2 for f2, _c in sreach.values() if f2.base.endswith("Registry::registerHeader")]
    ck.ob("C09-R5", "serving-path/static-locals", not odd and not reg_reach, odd[0][1].loc if odd else sroots[0].loc, odd[0][0] if odd else sroots[0],
          "only the Registry singleton; registerHeader is not reachable while serving" if not odd and not reg_reach else
          ("mutable static local `%s` in %s is shared by all workers" % (odd[0][1]["var"], odd[0][0].name) if odd else "Registry::registerHeader is reachable from the serving path"))

    # ---------------- R2 ----------------
    S = "Pistache::Aio::SyncImpl::"
    f = lib.single(prog, S + "shutdown")
    dom = cfg.dominators(f)
    st = [e for e in f.calls(lambda e: e.base_callee() in ("std::atomic::store", "std::atomic::operator=") and strip_tmpl((e.get("recv") or {}).get("f") or "") == S + "shutdown_")]
    nt = [e for e in f.calls(lambda e: (e.get("callee") or "") == "Pistache::NotifyFd::notify")]
    ok = len(st) == 1 and len(nt) == 1 and cfg.ev_dominates(dom, st[0], nt[0]) and st[0]["args"][0].get("const") is True
    ck.ob("C09-R2", "SyncImpl::shutdown/flag-then-notify", ok, f.loc, f, "shutdown_.store(true) precedes shutdownFd.notify()")
    f = lib.single(prog, S + "runOnce")
    hf = [e for e in f.calls(lambda e: (e.get("callee") or "") == S + "handleFds")]
    ck.require(hf, "handleFds not found")
    tests = [b for b in f.blocks.values() if b.term and b.term.get("k") == "if" and ("f:" + S + "shutdown_") in (b.term.get("refs") or [])]
    ok = bool(tests) and all(any(cfg.edge_dominates(f, b.id, 1 if not b.term.get("neg") else 0, e) for b in tests) for e in hf)
    ck.ob("C09-R2", "SyncImpl::runOnce/flag-before-dispatch", ok, hf[0].loc, f, "handleFds is reached only through the !shutdown_ edge")
    f = lib.single(prog, S + "run")
    loops = [b for b in f.blocks.values() if b.term and b.term.get("k") == "while" and ("f:" + S + "shutdown_") in (b.term.get("refs") or []) and b.term.get("neg")]
    ro = [e for e in f.calls(lambda e: (e.get("callee") or "").endswith("::runOnce"))]
    ok = len(loops) == 1 and bool(ro) and all(cfg.edge_dominates(f, loops[0].id, 0, e) for e in ro)
    ck.ob("C09-R2", "SyncImpl::run/loops-on-flag", ok, f.loc, f, "while (!shutdown_) runOnce()")
    L = "Pistache::Tcp::Listener::"
    f = lib.single(prog, L + "shutdown")
    nt = [e for e in f.calls(lambda e: (e.get("callee") or "") == "Pistache::NotifyFd::notify" and strip_tmpl((e.get("recv") or {}).get("f") or "") == L + "shutdownFd")]
    rs = [e for e in f.calls(lambda e: (e.get("callee") or "") == "Pistache::Aio::Reactor::shutdown")]
    bad = [x for x in cfg.exits_without(f, lambda e: e in rs) if x.kind != "throw"]
    # the notify may only be guarded by isBound()
    ok = len(nt) == 1 and len(rs) == 1 and not bad
    ck.ob("C09-R2", "Listener::shutdown/notify-and-reactor", ok, f.loc, f, "shutdownFd.notify() (if bound) and reactor_.shutdown() on every path")
    f = lib.single(prog, L + "run")
    rets = [b for b in f.blocks.values() if b.term and b.term.get("k") == "if" and ("f:" + L + "shutdownFd") in (b.term.get("refs") or []) and b.term.get("cmp") == "=="]
    ok = False
    for b in rets:
        arm = cfg.events_from_block(f, b.succs[0], stop=lambda e: e["k"] == "return")
        if any(e["k"] == "return" for e in arm) and not any(e["k"] == "call" and (e.get("callee") or "") == L + "handleNewConnection" for e in arm):
            ok = True
    ck.ob("C09-R2", "Listener::run/returns-on-shutdown-tag", ok, f.loc, f, "event.tag == shutdownFd.tag() returns from the accept loop")
    f = lib.single(prog, "Pistache::Aio::AsyncImpl::Worker::~Worker")
    jn = [e for e in f.calls(lambda e: (e.get("callee") or "") == "std::thread::join")]
    tests = [b for b in f.blocks.values() if b.term and b.term.get("k") == "if" and "c:std::thread::joinable" in (b.term.get("refs") or [])]
    ok = len(jn) == 1 and len(tests) == 1 and cfg.edge_dominates(f, tests[0].id, 0, jn[0])
    ck.ob("C09-R2", "Worker::~Worker/joins", ok, f.loc, f, "if (thread.joinable()) thread.join()")
    # shutdown() only *asks* the threads to stop; they are joined when the objects are destroyed.  A join on the shutdown path makes
    # shutdown() wait for every running handler -- for ever when a handler waits for something that follows the shutdown, and a
    # deadlock error when shutdown() is called from a handler (a worker joining itself)
    summ2 = lib.Summaries(prog)
    is_join = lambda e: e["k"] == "call" and (e.get("callee") or "") == "std::thread::join"
    nsd = 0
    for base_ in ("Pistache::Aio::Reactor::shutdown", "Pistache::Aio::AsyncImpl::shutdown", "Pistache::Aio::SyncImpl::shutdown", L + "shutdown",
                  "Pistache::Http::Endpoint::shutdown"):
        for f_ in prog.by_base.get(base_, []):
            if not f_.blocks:
                continue
            nsd += 1
            j_ = summ2.may(f_, is_join, "thread-join")
            ck.ob("C09-R2", "%s/does-not-join" % base_.replace("Pistache::", ""), not j_, f_.loc, f_,
                  "signals only; threads are joined by the destructors" if not j_ else
                  "std::thread::join is reachable from %s: shutdown() blocks until every running handler has returned, and called from a "
                  "handler it joins the calling thread itself" % base_.replace("Pistache::", ""))
    ck.require(nsd >= 3, "shutdown entry points found: %d" % nsd)
    # the stop flag only ever goes up: it is set in shutdown() and cleared nowhere after construction -- a worker that cleared it when it
    # starts running would forget a shutdown() that arrived before it got that far
    SD = "Pistache::Aio::SyncImpl::shutdown_"
    for f_ in prog.library_funcs():
        for e_ in f_.events(("call", "assign")):
            tgt = strip_tmpl(((e_.get("recv") if e_["k"] == "call" else e_.get("lhs")) or {}).get("f") or "")
            if tgt != SD:
                continue
            if e_["k"] == "call" and e_.base_callee().rsplit("::", 1)[-1] not in ("store", "operator=", "exchange", "compare_exchange_strong", "compare_exchange_weak"):
                continue
            val = (e_.get("args") or [{}])[0].get("const") if e_["k"] == "call" else e_.get("const")
            in_sd = f_.base == "Pistache::Aio::SyncImpl::shutdown"
            ck.ob("C09-R2", "SyncImpl::shutdown_/set-only-by-shutdown@%s" % f_.base.replace("Pistache::Aio::", ""), in_sd and val is True, e_.loc, f_,
                  "shutdown_ = true in shutdown()" if in_sd and val is True else
                  "`%s` in %s: the stop flag is written outside shutdown() (or with something else than true): a shutdown() that has already "
                  "been requested can be forgotten" % ((e_.get("t") or "")[:50], f_.base.replace("Pistache::Aio::", "")))

    # Listener::shutdown() only notifies a *bound* shutdownFd, so the notifier must be bound before the acceptor thread exists:
    # otherwise a shutdown() issued right after serveThreaded() is lost and the acceptor keeps polling
    rt = lib.single(prog, L + "runThreaded")
    dom = cfg.dominators(rt)
    binds = [e for e in rt.calls(lambda e: (e.get("callee") or "") == "Pistache::NotifyFd::bind" and strip_tmpl((e.get("recv") or {}).get("f") or "") == L + "shutdownFd")]
    starts = [e for e in rt.events(("call", "construct")) if "std::thread" in (e.get("cls") or e.get("callee") or "") and (e["k"] == "construct" or e.get("op") == "=")]
    ck.require(starts, "acceptor thread creation not found in Listener::runThreaded")
    ok = bool(binds) and all(cfg.ev_dominates(dom, binds[0], s_) for s_ in starts)
    guard_is_bound = any(b.term and "c:Pistache::NotifyFd::isBound" in (b.term.get("refs") or []) for b in lib.single(prog, L + "shutdown").blocks.values())
    ck.ob("C09-R2", "Listener::runThreaded/notifier-bound-before-thread", ok or not guard_is_bound, starts[0].loc, rt,
          "shutdownFd.bind(poller) precedes the creation of the acceptor thread" if ok else
          "the acceptor thread is started before shutdownFd is bound while shutdown() skips an unbound notifier: a shutdown() issued in the "
          "start-up window is never delivered and the acceptor thread keeps running")

    # destructor: the acceptor thread is joined before the listening socket it polls is closed
    f = lib.single(prog, L + "~Listener")
    dom = cfg.dominators(f)
    jn = [e for e in f.calls(lambda e: (e.get("callee") or "") == "std::thread::join" and strip_tmpl((e.get("recv") or {}).get("f") or "") == L + "acceptThread")]
    cl = [e for e in f.calls(lambda e: (e.get("callee") or "") == "close" and not (e.get("cfile") or "").startswith(facts.REPO)
                             and e.get("args") and strip_tmpl(e["args"][0].get("f") or "") == L + "listen_fd")]
    sd = [e for e in f.calls(lambda e: (e.get("callee") or "") == L + "shutdown")]
    ck.require(jn and cl, "join / close(listen_fd) not found in Listener::~Listener")
    # every path to close() has passed the joinable() test (and joined when joinable)
    jtests = [b for b in f.blocks.values() if b.term and b.term.get("k") == "if" and "c:std::thread::joinable" in (b.term.get("refs") or [])]
    ok = len(jtests) == 1 and all(jtests[0].id in dom.get(c.block, ()) and jtests[0].id != c.block for c in cl) and \
        all(cfg.edge_dominates(f, jtests[0].id, 0, j) for j in jn) and not any(cfg.edge_dominates(f, jtests[0].id, 0, c) or
                                                                             any(x is c for x in cfg.events_from_block(f, jtests[0].succs[0], stop=lambda e: any(e is j for j in jn))) for c in cl)
    ck.ob("C09-R2", "Listener::~Listener/join-before-close", ok, cl[0].loc, f,
          "acceptThread is joined (when joinable) before close(listen_fd)" if ok else
          "close(listen_fd) can run while the acceptor thread is still polling that descriptor: accept4 on a closed fd terminates the process")

    # ---------------- R4: no self-deadlock on the transport's non-recursive mutex ----------------
    ck.rule("C09-R4", "A lockset + call-graph reachability (lock re-entrancy)",
            "no call made while a server-side member mutex is held (Transport::toWriteLock) can reach a function that acquires the same "
            "mutex again: promise continuations run by deferred.resolve/reject (e.g. the idle time-out's release path, which locks "
            "toWriteLock in removePeer) are only invoked after the lock was released", 3)
    for fn in prog.funcs.values():
        if fn.is_lambda or not (fn.file.startswith(facts.REPO + "/src") or fn.file.startswith(facts.REPO + "/include")):
            continue
        if fn.file.endswith("/client/client.cc") or fn.file.endswith("/pistache/async.h"):
            continue    # client locks: C15-R6; promise-internal locks: C12
        for d_ in fn.events("decl"):
            g_ = lib.guard_of_decl(d_)
            if not g_ or g_[2] != "this":
                continue
            hits = lib.reentrant_acquisitions(prog, fn, g_[1])
            ck.ob("C09-R4", "%s holds %s" % (fn.base.replace("Pistache::", ""), g_[1].rsplit("::", 1)[1]), not hits, d_.loc, fn,
                  "nothing called under the lock can lock it again" if not hits else
                  "the call at %s, made with the lock held, reaches %s which locks it again" % (hits[0][0].loc, hits[0][2].func.name), path=hits[0][1] if hits else None)

    # ---------------- R3 ----------------
    def is_thread_cmp(t_):
        return "get_id" in (t_ or "") and "thread()" in (t_ or "") and "==" in (t_ or "")
    # bool helpers of the transport all of whose returns are that comparison (`bool calledFromOwnThread() const`)
    thread_preds = {g_.base for g_ in prog.library_funcs() if g_.base.startswith(T) and not g_.is_lambda and
                    [r_ for r_ in g_.events("return")] and all(is_thread_cmp(r_.get("t")) for r_ in g_.events("return"))}

    def thread_test_vars(fn):
        """the locals that record whether the caller is the loop thread: this_thread::get_id() == context().thread(), written in
        place or obtained from a helper that returns it"""
        return {x["var"] for x in fn.events("decl") if x.get("var") and
                (is_thread_cmp((x.get("init") or {}).get("t")) or strip_tmpl(x.get("icall") or "") in thread_preds)}

    def off_thread_arm(fn):
        """(test block, successor taken when the caller is NOT the loop thread, successor taken when it is)"""
        tvs = thread_test_vars(fn)
        for b in fn.blocks.values():
            t = b.term
            if not t or t.get("k") != "if" or t.get("cmp") or len(b.succs) != 2:
                continue
            on_var = (t.get("core") or {}).get("v") in tvs
            on_call = any(r_.startswith("c:") and strip_tmpl(r_[2:]) in thread_preds for r_ in (t.get("leafrefs") or t.get("refs") or []))
            if on_var or on_call:
                return b, (b.succs[0] if t.get("neg") else b.succs[1]), (b.succs[1] if t.get("neg") else b.succs[0])
        return None, None, None
    for name, queue, table, direct in (("handleNewPeer", "peersQueue", "peers", "handlePeer"), ("armTimerMs", "timersQueue", "timers", "armTimerMsImpl")):
        fn = lib.single(prog, T + name)
        b, off, on = off_thread_arm(fn)
        ck.require(b is not None, "thread test not found in %s" % name)
        join = None
        # events exclusive to the off-thread arm: reachable from `off` but not from `on`
        on_ev = {id(e) for e in cfg.events_from_block(fn, on)}
        off_ev = [e for e in cfg.events_from_block(fn, off) if id(e) not in on_ev]
        pushes = [e for e in off_ev if e["k"] == "call" and e.base_callee() == "Pistache::PollableQueue::push" and strip_tmpl((e.get("recv") or {}).get("f") or "") == T + queue]
        touches = [e for e in off_ev if (e["k"] == "member" and strip_tmpl(e.get("f") or "") == T + table) or (e["k"] == "call" and (e.get("callee") or "") == T + direct)]
        ck.ob("C09-R3", "%s/off-thread-arm" % name, len(pushes) == 1 and not touches, "%s:%s" % (fn.file, b.term.get("l")), fn,
              "foreign thread only enqueues into %s" % queue if not touches else "foreign thread touches %s directly at %s" % (table, touches[0].loc))
        # the thread test itself compares the caller's id with the loop thread
        # (guaranteed by how the test block was found: a local or a helper whose value is this_thread::get_id() == context().thread())
        ck.ob("C09-R3", "%s/thread-test" % name, True, "%s:%s" % (fn.file, b.term.get("l")), fn, "the arm is chosen by this_thread::get_id() == context().thread()", nontrivial=False)
    # per-descriptor state does not outlive the connection: descriptor numbers are reused by accept(), so removePeer must drop the
    # connection's entry of every table keyed by descriptor before the descriptor is closed (a stale toWrite queue would be sent to
    # the next client that gets the number)
    rp = lib.single(prog, T + "removePeer")
    is_close = lambda e: e["k"] == "call" and (e.get("callee") or "") == "close" and not (e.get("cfile") or "").startswith(facts.REPO)
    rreg = lib.region(prog, rp, within=lambda h_: h_.base.startswith(T) and h_.base != T + "handlePeerDisconnection")
    cl = [e for h_ in rreg for e in h_.events("call") if is_close(e)]
    ck.require(cl, "close() not found in Transport::removePeer or its helpers")
    tcls = prog.cls("Pistache::Tcp::Transport")
    # (canonical type: the member may be declared through an alias such as `using PeerMap = std::unordered_map<Fd, ...>`)
    keyed = [x["q"] for x in tcls["fields"] if re.match(r"^std::unordered_map<(int|Pistache::Fd|Fd)\b", (x.get("ctype") or x["type"]).replace(" ", ""))]
    keyed = [q for q in keyed if q.rsplit("::", 1)[1] in ("peers", "toWrite")]
    ck.require(len(keyed) >= 2, "descriptor-keyed tables of Transport: %s" % keyed)
    for q in keyed:
        is_erase = lambda e, q=q: e["k"] == "call" and e.base_callee() == "std::unordered_map::erase" and (e.get("recv") or {}).get("f") == q
        er = [e for h_ in rreg for e in h_.events("call") if is_erase(e)]
        # no path through removePeer (helpers walked through) reaches close() before the entry was erased
        early = []

        def ostep(st, ev, is_erase=is_erase):
            if is_erase(ev):
                return 1
            if is_close(ev) and st == 0:
                early.append(ev)
            return st
        cfg.run_automaton(rp, 0, lib.inlined_step(prog, ostep, lambda h_: h_.id != rp.id and h_ in rreg))
        ok = bool(er) and not early
        ck.ob("C09-R3", "removePeer/erases:%s" % q.rsplit("::", 1)[1], ok, er[0].loc if er else rp.loc, rp,
              "entry erased before close(fd)" if ok else
              "removePeer closes the descriptor but keeps its %s entry: the next connection that reuses the number inherits it" % q.rsplit("::", 1)[1])
    # toWrite is the one table both the acceptor thread (handleNewPeer) and the worker touch: always under its lock
    nacc = 0
    for fn in [x for x in prog.funcs.values() if x.base.startswith(T) and not x.is_lambda]:
        acc = [e for e in fn.events("member") if strip_tmpl(e.get("f") or "") == T + "toWrite"]
        if not acc:
            continue
        ls = lib.locksets(fn, lam_unlocks=lib.lambda_unlocks(prog, fn))
        for e in acc:
            nacc += 1
            ok = lib.holds(ls.get((e.block, e.idx)), T + "toWriteLock", "this")
            if not ok:
                # a private helper split out of a locked region: every call site holds the lock
                ok = lib.caller_holds(prog, fn, T + "toWriteLock", "this")
            ck.ob("C09-R3", "toWrite-locked@%s" % fn.base.replace(T, ""), ok, e.loc, fn, "under toWriteLock" if ok else
                  "toWrite is accessed without toWriteLock: handleNewPeer runs on the acceptor thread, the rest on the worker")
    ck.require(nacc >= 5, "accesses to Transport::toWrite analysed: %d" % nacc)
    for f in prog.find(T + "asyncWrite", 1):
        bodies = [f] + prog.lambdas_in(f)
        touch = [e for g in bodies for e in g.events("member") if strip_tmpl(e.get("f") or "") in (T + "toWrite", T + "peers", T + "timers")]
        ck.ob("C09-R3", "asyncWrite/enqueue-only", not touch, f.loc, f, "no worker-owned table touched from the calling thread")

    # ---------------- R7: response objects do not own the connection ----------------
    ck.rule("C09-R7", "I ownership (type-level)",
            "ResponseWriter, ResponseStream and Timeout may be parked and used on another thread long after the request: they refer to "
            "the connection's Peer through std::weak_ptr, and ResponseWriter/ResponseStream::peer() throws when it has expired -- so a late "
            "answer for a connection the worker has released is refused instead of being written to a descriptor number that may already "
            "belong to another client", 4)
    for cname in ("ResponseWriter", "ResponseStream", "Timeout"):
        c_ = prog.cls("Pistache::Http::" + cname)
        pf = [x for x in c_["fields"] if "Peer" in (x.get("ctype") or x["type"])]
        ck.require(pf, "no field of %s refers to the connection's Peer" % cname)
        for x in pf:
            ty = (x.get("ctype") or x["type"]).replace(" ", "")
            ck.ob("C09-R7", "type:%s::%s" % (cname, x["name"]), ty.startswith("std::weak_ptr<"), "%s:%s" % (c_["file"], x.get("line") or 0), "",
                  "declared %s" % x["type"] if ty.startswith("std::weak_ptr<") else
                  "declared %s: the object keeps the Peer (and its descriptor number) alive after the worker released the connection, and the "
                  "expired-peer test of peer() can no longer refuse a late write" % x["type"], nontrivial=False)
    for fn_ in prog.find("Pistache::Http::ResponseWriter::peer", 1) + prog.find("Pistache::Http::ResponseStream::peer", 1):
        lk = [e for e in fn_.calls(lambda e: e.base_callee() in ("std::weak_ptr::lock", "std::__weak_ptr::lock"))]
        th = [e for e in fn_.events("throw")]
        ck.ob("C09-R7", "%s/throws-when-expired" % fn_.base.replace("Pistache::Http::", ""), bool(lk) and bool(th), fn_.loc, fn_,
              "lock() of the weak reference, throw when the peer is gone")

    # ---------------- facts shared with C13 ----------------
    ck.borrow("C13", ["C13-R1", "C13-R2", "C13-R3"], "C09-R6",
              "responses and peers handed to a worker from another thread are all taken: the eventfd is drained before each pop, so the "
              "consumer must keep popping until the queue is empty -- a consumer that stops earlier leaves entries behind with their wake-up "
              "already consumed",
              key_pred=lambda k: "Tcp::Transport" in k or k in ("Queue::push", "PollableQueue::push", "PollableQueue::pop"), min_instances=6)
    ck.borrow("C08", ["C08-R16"], "C09-R9",
              "every client that connects is served: the acceptor thread is told about a pending connection until it has accepted it (the "
              "listening socket is level-triggered, the accept loop takes one connection per wake-up and keeps running after a failed accept)",
              min_instances=1)
    ck.borrow("C14", ["C14-R5"], "C09-R8",
              "the server's transport hands every ready set on to Tcp::Transport::onReady, also when its own periodic timer is in it: peer "
              "sockets are edge-triggered, an event that is not handled is not reported again and the request is never answered",
              key_pred=lambda k: k == "onReady/periodic-scan", min_instances=1)
