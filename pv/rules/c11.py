"""C11 — promise chains deliver every outcome exactly once to the right continuation.

Decides: at-most-once guards of continuations, then() runs-or-remembers, no fulfilment from a rejection, combinator
guards (sibling cross-check of All / Any / WhenAllRange) and all-of completeness.  Value identity is not decided."""
import re
from .. import cfg, lib
from ..facts import AnalysisBroken, strip_tmpl

A = "Pistache::Async::"
P = A + "Private::"
REQ_RESOLVE = P + "Request::resolve"
REQ_REJECT = P + "Request::reject"


def _field(ref, suffix):
    return strip_tmpl((ref or {}).get("f") or "").endswith(suffix)


def run(ck):
    prog = ck.prog
    _walk_sum = {}

    def helper_walks(g_, depth=0):
        """[(kind callee, parameter index of the core walked)] for a free helper that walks a core's continuations"""
        if g_.id in _walk_sum:
            return _walk_sum[g_.id]
        _walk_sum[g_.id] = []
        out_ = []
        pn = [p_["name"] for p_ in g_.params]
        for e_ in g_.events("call"):
            if e_.get("callee") in (REQ_RESOLVE, REQ_REJECT) and e_.get("args"):
                root_ = (e_["args"][0].get("t") or "").split("->")[0].split(".")[0]
                out_.append((e_["callee"], pn.index(root_) if root_ in pn else None))
            elif depth < 2 and (e_.get("callee") or "").startswith(P) and not e_.get("virt"):
                for h_ in prog.resolve_call(e_):
                    if h_.blocks and h_.id != g_.id and not h_.cls:
                        for kind_, pi_ in helper_walks(h_, depth + 1):
                            a_ = e_["args"][pi_] if pi_ is not None and pi_ < len(e_.get("args", [])) else {}
                            r2 = (a_.get("t") or "").split("->")[0].split(".")[0]
                            out_.append((kind_, pn.index(r2) if r2 in pn else None))
        _walk_sum[g_.id] = out_
        return out_

    def walk_calls(evs):
        """the walks over a core's continuations among evs: Request::resolve/reject(core) calls, and calls of free helpers that do the
        walk (reported as a walk of the same kind over the core argument handed to the helper)"""
        from ..facts import Event
        out_ = []
        for e in evs:
            if e["k"] != "call":
                continue
            if e.get("callee") in (REQ_RESOLVE, REQ_REJECT):
                out_.append(e)
                continue
            c_ = e.get("callee") or ""
            if e.get("inlined"):
                continue        # the helper's body follows among evs (flattened function)
            if c_.startswith(P) and not e.get("virt") and c_ not in (REQ_RESOLVE, REQ_REJECT):
                for h_ in prog.resolve_call(e):
                    if not h_.blocks or h_.cls:
                        continue
                    for kind_, pi_ in helper_walks(h_):
                        a_ = e["args"][pi_] if pi_ is not None and pi_ < len(e.get("args", [])) else {}
                        syn = Event(dict(e))
                        syn["callee"] = kind_
                        syn["args"] = [a_]
                        syn["via"] = c_
                        syn.func, syn.block, syn.idx = e.func, e.block, e.idx
                        out_.append(syn)
        return out_

    def rejecting_helper(h_):
        """(core parameter index, exception parameter index) when the free helper h_ stores its exception parameter into the core's
        exc, stores State::Rejected into its state, and only then walks the core's continuations with reject -- else None"""
        if h_.cls or not h_.blocks:
            return None
        pn = [p_["name"] for p_ in h_.params]
        ex = [e for e in h_.events("call") if e.get("op") == "=" and _field(e.get("recv"), "Core::exc")]
        st = [e for e in h_.events("call") if e.get("op") == "=" and _field(e.get("recv"), "Core::state") and e["args"][0].get("const") == "e:Pistache::Async::State::Rejected"]
        w = [e for e in h_.events("call") if e.get("callee") in (REQ_RESOLVE, REQ_REJECT)]
        if not ex or not st or not w or any(e.get("callee") == REQ_RESOLVE for e in w):
            return None
        d_ = cfg.dominators(h_)
        if not all(cfg.ev_dominates(d_, ex[0], x) and cfg.ev_dominates(d_, st[0], x) for x in w):
            return None
        core_root = (ex[0]["recv"].get("b") or "").split("->")[0]
        if core_root not in pn or not all((x["args"][0].get("t") or "").split("->")[0] == core_root for x in w) or (st[0]["recv"].get("b") or "").split("->")[0] != core_root:
            return None
        srcs = [i for i, n_ in enumerate(pn) if n_ != core_root and any(n_ in (a_.get("t") or "") or (a_.get("moved") or {}).get("v") == n_ for a_ in ex[0].get("args", []))]
        return (pn.index(core_root), srcs[0]) if srcs else None

    def rejecting_calls(evs):
        """[(call event, core argument, exception argument)] for calls of rejecting helpers among evs"""
        out_ = []
        for e in evs:
            if e["k"] == "call" and (e.get("callee") or "").startswith(P) and not e.get("virt"):
                for h_ in prog.resolve_call(e):
                    rh = rejecting_helper(h_)
                    if rh and len(e.get("args", [])) > max(rh):
                        out_.append((e, e["args"][rh[0]], e["args"][rh[1]]))
        return out_

    ck.rule("C11-R1", "B dominance + D who-may-call",
            "Continuable<T>::doResolve/doReject are invoked only from Continuable<T>::resolve/reject, where the call is dominated by the "
            "resolveCount_/rejectCount_ >= 1 bail-out and by the increment of that counter", 8)
    ck.rule("C11-R2", "C path automaton",
            "Promise<T>::then appends the request to core_->requests exactly once on every path, runs it immediately only on the "
            "isFulfilled arm (resolve) or the isRejected arm (reject)", 4)
    ck.rule("C11-R3", "C region scan",
            "rejection paths (every doReject, the InternalRethrow handler, the rejection lambdas of finishResolve, Rejection::operator()) "
            "invoke only Request::reject on chained requests, and the rethrow handler stores the caught exception into the derived core "
            "before walking it; fulfilment walks (finishResolve, Chainer, Resolver) invoke only Request::resolve", 12)
    ck.rule("C11-R4", "A lockset + B dominance + C must-pass (sibling cross-check)",
            "in every whenAll/whenAny policy callback each data->resolve/data->reject is under data->mtx, dominated by a bail-out on the "
            "terminal flag, and every data->reject (and every data->resolve of the any-of policy) sets the flag on the same path", 7)
    ck.rule("C11-R5", "B dominance + C counting",
            "all-of callbacks resolve only under the resolved == total test and increment the counter exactly once per path reaching it", 3)

    ck.rule("C11-R6", "I type-level (value category handed to the continuation)",
            "the stored value of a fulfilled core is handed to a continuation as an rvalue (detail::tryMove returning T&&) only when that "
            "continuation's parameter is an rvalue reference; by-value and by-const-reference continuations get a const lvalue, so later "
            "consumers of the same promise still see the produced value", 6)
    nmove = 0
    for f in prog.find(P + "impl::Continuation::doResolve", 6):
        tm = [e for e in f.calls(lambda e: e.base_callee() == A + "detail::tryMove")]
        for t in tm:
            # the consumer call is the next call event in the same block that takes the tryMove result
            cons = [e for e in f.blocks[t.block].elems[t.idx + 1:] if e["k"] == "call" and any("tryMove" in (a.get("t") or "") for a in e.get("args", []))]
            if not cons:
                ck.ob("C11-R6", "doResolve@%s" % f.line, False, t.loc, f, "consumer of the tryMove result not found")
                continue
            c = cons[0]
            ptypes = c.get("cparams") or []
            moved = (t.get("cretc") or "").rstrip().endswith("&&")
            p_rref = bool(ptypes) and ptypes[0].rstrip().endswith("&&")
            if moved:
                nmove += 1
            ck.ob("C11-R6", "doResolve@%s" % f.line, (not moved) or p_rref, t.loc, f,
                  "tryMove returns '%s' into parameter '%s'" % (t.get("cretc"), ptypes[0] if ptypes else "?"))
    ck.require(nmove >= 1, "no instantiation hands the value over as an rvalue: the positive instance in inst/async_inst.cc vanished")

    # ---------------- R1 ----------------
    for what, cnt in (("doResolve", "resolveCount_"), ("doReject", "rejectCount_")):
        outer = "resolve" if what == "doResolve" else "reject"
        sites = [e for e in prog.call_sites(P + "Continuable::" + what)]
        sites += [e for e in prog.call_sites(P + "impl::Continuation::" + what)]
        ck.require(sites, "no call site of Continuable::%s found" % what)
        for e in sites:
            f = e.func
            okc = f.base == P + "Continuable::" + outer
            ck.ob("C11-R1", "caller-of:" + what, okc, e.loc, f, "called from %s" % f.base)
            if not okc:
                continue
            # (in the flattened function: the guard may sit in a small helper such as `bool isFirstCall(size_t& count)`)
            ff = prog.flat(f) if not f.is_lambda else f
            e_ff = [x for x in ff.events("call") if x.get("callee") == e.get("callee") and x.get("l") == e.get("l") and x.get("c") == e.get("c")]
            if ff is not f and e_ff:
                f, e = ff, e_ff[0]
            # the call is reached only on an edge that knows the counter is still zero: `>= 1` / `> 0` / `!= 0` not taken, or `< 1` /
            # `== 0` / `<= 0` taken -- the comparison in the branch itself or recorded in a bool local
            is_cnt = lambda r_: _field(r_, "Continuable::" + cnt)
            num = lambda n_: (lambda r_: re.sub(r"[\s()uUlL]", "", r_.get("t") or "") == str(n_))
            zero_edges = lib.relation_edges(f, is_cnt, num(1), ("<",)) + lib.relation_edges(f, is_cnt, num(0), ("==", "<="))
            g_ok = any(cfg.edge_dominates(f, bid_, k_, e) for bid_, k_ in zero_edges)
            incs = [x for x in f.events("incdec") if _field(x.get("operand"), "Continuable::" + cnt) and x.get("op") == "++"]
            # every path that reaches the call has incremented the counter (paths follow the value of bool locals, see cfg.flag_vars)
            uncounted = []

            def st1(st, ev):
                if any(ev is x for x in incs):
                    return 1
                if ev is e and st == 0:
                    uncounted.append(ev)
                return st
            cfg.run_automaton(f, 0, st1)
            i_ok = len(incs) == 1 and not uncounted
            ck.ob("C11-R1", "once-guard:Continuable::" + outer, g_ok and i_ok, e.loc, f,
                  "bail-out on %s dominates: %s; increment dominates: %s" % (cnt, g_ok, i_ok))

    # ---------------- R2 ----------------
    thens = prog.find(A + "Promise::then", 4)
    for f in thens:
        pushes = [e for e in f.calls(lambda e: e.base_callee() == "std::vector::push_back" and _field(e.get("recv"), "Core::requests"))]
        res = [e for e in walk_calls(f.events()) if e.get("callee") == REQ_RESOLVE]
        rej = [e for e in walk_calls(f.events()) if e.get("callee") == REQ_REJECT]
        ful_edges, rejd_edges = set(), set()
        for b in f.blocks.values():
            t = b.term
            if t and t.get("k") == "if":
                refs = [strip_tmpl(r) for r in (t.get("refs") or [])]
                pos = 1 if t.get("neg") else 0
                if "c:" + A + "Promise::isFulfilled" in refs:
                    ful_edges.add((b.id, pos))
                if "c:" + A + "Promise::isRejected" in refs:
                    rejd_edges.add((b.id, pos))
        bad = []

        def step(st, ev):
            n, arm = st
            if any(ev is x for x in pushes):
                return (n + 1, arm)
            if any(ev is x for x in res) and arm != "F":
                bad.append("resolve at %s outside the isFulfilled arm" % ev.loc)
            if any(ev is x for x in rej) and arm != "R":
                bad.append("reject at %s outside the isRejected arm" % ev.loc)
            return st

        def edge(st, blk, k, succ):
            n, arm = st
            if (blk.id, k) in ful_edges:
                return (n, "F")
            if (blk.id, k) in rejd_edges:
                return (n, "R")
            return st
        exits, _ = cfg.run_automaton(f, (0, ""), step, edge=edge)
        for x in exits:
            if x.kind != "throw" and x.state[0] != 1:
                bad.append("a path appends the request %d times" % x.state[0])
        ok = not bad and len(pushes) >= 1 and len(res) == 1 and len(rej) == 1 and ful_edges and rejd_edges
        ck.ob("C11-R2", "Promise::then", ok, f.loc, f, "; ".join(sorted(set(bad))) if bad else
              "push_back x1 on every path; resolve only under isFulfilled, reject only under isRejected")

    # ---------------- R3 ----------------
    # (a) every doReject override
    for f in prog.find(P + "impl::Continuation::doReject", 6):
        w = [e for e in walk_calls(f.events()) if id(e) in cfg.feasible_events(f)]
        badw = [e for e in w if e.get("callee") == REQ_RESOLVE]
        ck.ob("C11-R3", "doReject@%s" % f.line, not badw, f.loc, f,
              "rejection path fulfils a chained request at %s" % badw[0].loc if badw else "%d chained call(s), all reject" % len(w))
    # (b) the rethrow handler
    for f in prog.find(P + "Continuable::reject", 2):
        # every handler around doReject that completes normally (one that only rethrows is not a forwarding path)
        handlers = [b for b in f.blocks.values() if b.label and b.label.get("k") == "catch" and
                    [x for x in cfg.exits_without(f, lambda e: False, start_block=b.id) if x.kind != "throw"]]
        ck.require(handlers, "no exception handler around doReject in Continuable::reject")
        for hb in handlers:
            evs = cfg.events_from_block(f, hb.id)
            w = walk_calls(evs)
            badw = [e for e in w if e.get("callee") == REQ_RESOLVE]
            var = hb.label.get("var")
            def src_(a_):
                return a_["moved"] if isinstance(a_.get("moved"), dict) else a_
            stores = [e for e in evs if e["k"] == "call" and e.get("op") == "=" and _field(e.get("recv"), "Core::exc")
                      and ((src_(e["args"][0]).get("f") or "").endswith("InternalRethrow::exc") and src_(e["args"][0]).get("b") == var)]
            states = [e for e in evs if e["k"] == "call" and e.get("op") == "=" and _field(e.get("recv"), "Core::state")
                      and e["args"][0].get("const") == "e:Pistache::Async::State::Rejected"]
            dom = cfg.dominators(f, hb.id)
            order_ok = bool(stores) and bool(states) and bool(w) and all(cfg.ev_dominates(dom, stores[0], x) and cfg.ev_dominates(dom, states[0], x) for x in w)
            same_core = bool(stores) and all((x["args"][0].get("t") == stores[0]["recv"].get("b")) for x in w)
            if not (order_ok and same_core):
                # the same three steps delegated to one helper that stores the exception and Rejected before it walks with reject
                rc = [(c_, core_, exc_) for c_, core_, exc_ in rejecting_calls(evs)
                      if ((exc_.get("f") or "").endswith("InternalRethrow::exc") and exc_.get("b") == var) or ("%s.exc" % var) in (exc_.get("t") or "")]
                if rc and len(w) == len(rc):
                    order_ok = same_core = True
                    stores = states = [rc[0][0]]
            ck.ob("C11-R3", "rethrow-handler", not badw and order_ok and same_core, "%s:%s" % (f.file, hb.label.get("l")), f,
                  "stores %s.exc and Rejected into the derived core before walking it with reject only" % var if (not badw and order_ok and same_core)
                  else "handler shape: resolve-calls=%d exc-store=%d state-store=%d order=%s same-core=%s" % (len(badw), len(stores), len(states), order_ok, same_core))
    # (c) rejection lambdas of finishResolve (second argument of promise.then)
    nlam = 0
    for f in prog.find(P + "impl::Continuation::finishResolve", 4):
        thencalls = [e for e in f.calls(lambda e: e.base_callee() == A + "Promise::then")]
        for tc in thencalls:
            args = tc.get("args") or []
            if len(args) >= 2 and args[1].get("lam"):
                for lf in prog.lambda_by_id(args[1]["lam"], f):
                    nlam += 1
                    w = walk_calls(lf.events())
                    badw = [e for e in w if e.get("callee") == REQ_RESOLVE]
                    st = [e for e in lf.events("call") if e.get("op") == "=" and _field(e.get("recv"), "Core::state") and e["args"][0].get("const") == "e:Pistache::Async::State::Rejected"]
                    ex = [e for e in lf.events("call") if e.get("op") == "=" and _field(e.get("recv"), "Core::exc")]
                    if w and not (st and ex):
                        rc = rejecting_calls(lf.events())
                        if rc and len(rc) == len(w):
                            st = ex = [rc[0][0]]
                    ck.ob("C11-R3", "finishResolve-rejection-lambda@%s" % lf.line, not badw and bool(w) and bool(st) and bool(ex), lf.loc, lf,
                          "chained calls=%d (resolve=%d) state-store=%d exc-store=%d" % (len(w), len(badw), len(st), len(ex)))
        if not thencalls:
            # value / void finishResolve: fulfilment walk must only resolve
            w = [e for e in walk_calls(f.events()) if id(e) in cfg.feasible_events(f)]
            badw = [e for e in w if e.get("callee") == REQ_REJECT]
            ck.ob("C11-R3", "finishResolve-walk@%s" % f.line, bool(w) and not badw, f.loc, f, "%d chained call(s), reject=%d" % (len(w), len(badw)))
    ck.require(nlam >= 2, "rejection lambdas of finishResolve not found (found %d)" % nlam)
    for f in prog.find(P + "impl::Continuation::Chainer::operator()", 2):
        w = [e for e in walk_calls(f.events()) if id(e) in cfg.feasible_events(f)]
        badw = [e for e in w if e.get("callee") == REQ_REJECT]
        ck.ob("C11-R3", "Chainer@%s" % f.line, bool(w) and not badw, f.loc, f, "%d chained call(s), reject=%d" % (len(w), len(badw)))
    for f in prog.find(A + "Rejection::operator()", 1):
        # (the walk may sit in a helper shared with Resolver and handed the target state: only what is reachable with that state counts)
        live_ = cfg.feasible_events(f)
        w = [e for e in walk_calls(f.events()) if id(e) in live_]
        badw = [e for e in w if e.get("callee") == REQ_RESOLVE]
        ck.ob("C11-R3", "Rejection::operator()", bool(w) and not badw, f.loc, f, "%d chained call(s), resolve=%d" % (len(w), len(badw)))
    for f in prog.find(A + "Resolver::operator()", 2):
        w = [e for e in walk_calls(f.events()) if id(e) in cfg.feasible_events(f)]
        badw = [e for e in w if e.get("callee") == REQ_REJECT]
        ck.ob("C11-R3", "Resolver::operator()%s" % ("" if f.params else "<void>"), bool(w) and not badw, f.loc, f, "%d chained call(s), reject=%d" % (len(w), len(badw)))

    # ---------------- R4 / R5 ----------------
    policies = []
    for base, kind in ((A + "Impl::All::resolveT", "all"), (A + "Impl::All::reject", "all"),
                       (A + "Impl::Any::resolveT", "any"), (A + "Impl::Any::reject", "any"),
                       (A + "Impl::WhenAllRange::WhenContinuation::operator()", "all")):
        for f in prog.find(base, 1):
            policies.append((f, kind, base.replace(A + "Impl::", "")))
    for f in prog.find(A + "Impl::WhenAllRange::operator()", 1):
        for lf in prog.lambdas_in(f):
            policies.append((lf, "all", "WhenAllRange::reject-lambda"))
    ck.require(len(policies) >= 7, "policy callbacks: found %d" % len(policies))
    def is_settle(e):
        return e["k"] == "call" and e.base_callee() in (A + "Resolver::operator()", A + "Rejection::operator()") and \
            (_field(e.get("recv"), "Data::resolve") or _field(e.get("recv"), "Data::reject"))
    DATA_MTX = ("Pistache::Async::Impl::All::Data::mtx", "Pistache::Async::Impl::Any::Data::mtx", "Pistache::Async::Impl::WhenAllRange::Data::mtx")
    for f0, kind, name in policies:
        # the settle may be written in the callback itself or in a private static helper of the policy that the callback calls with
        # the lock held: lock, flag bail-out and flag store are then checked where the helper is called (ctx), the counter test where
        # the settle is written (sf)
        found = [(f0, e, f0, e, (e["recv"].get("b"))) for e in f0.events("call") if is_settle(e)]
        for c_ in f0.events("call"):
            for h_ in prog.resolve_call(c_):
                if h_.blocks and h_.id != f0.id and h_.cls and h_.cls == f0.cls or (h_.blocks and h_.id != f0.id and (h_.base.startswith(A + "Impl::")) and not h_.is_lambda and [x for x in h_.events("call") if is_settle(x)]):
                    pn = [p_["name"] for p_ in h_.params]
                    for e in [x for x in h_.events("call") if is_settle(x)]:
                        root_ = (e["recv"].get("b") or "").split("->")[0]
                        if root_ in pn and len(c_.get("args", [])) > pn.index(root_):
                            found.append((f0, c_, h_, e, c_["args"][pn.index(root_)].get("t")))
        if not found:
            continue
        flagname = "done" if kind == "any" else "rejected"
        def check_at(fn_, sink, base_, is_rej_, extra_fn=None, extra_ev=None):
            ls_ = lib.locksets(fn_)
            dom_ = cfg.dominators(fn_)
            # (a) lock
            a_ = any(lib.holds(ls_.get((sink.block, sink.idx)), m, base_) for m in DATA_MTX)
            # (b) bail-out on the terminal flag dominates
            b_ = False
            for b in fn_.blocks.values():
                t = b.term
                if t and t.get("k") == "if" and not t.get("cmp") and _field(t.get("core"), "Data::" + flagname) and (t.get("core") or {}).get("b") == base_:
                    if b.id in dom_.get(sink.block, ()) and b.id != sink.block:
                        bail = b.succs[1] if t.get("neg") else b.succs[0]
                        if not any(x is sink for x in cfg.events_from_block(fn_, bail)):
                            b_ = True
            # (c) flag set on the same path
            c_ = True
            if is_rej_ or kind == "any":
                def sets_flag(ev):
                    return ev["k"] == "assign" and _field(ev.get("lhs"), "Data::" + flagname) and ev.get("const") is True
                before = [x for x in fn_.events("assign") if sets_flag(x) and cfg.ev_dominates(dom_, x, sink)]
                if extra_fn is not None:
                    before += [x for x in extra_fn.events("assign") if sets_flag(x) and cfg.ev_dominates(cfg.dominators(extra_fn), x, extra_ev)]
                if not before:
                    after = cfg.exits_without(fn_, sets_flag, start_block=sink.block, start_idx=sink.idx + 1)
                    c_ = not [x for x in after if x.kind != "throw"]
                    if not c_ and extra_fn is not None:
                        after = cfg.exits_without(extra_fn, sets_flag, start_block=extra_ev.block, start_idx=extra_ev.idx + 1)
                        c_ = not [x for x in after if x.kind != "throw"]
            return a_, b_, c_
        for f, ce, sf, e, base in found:
            is_rej = e.base_callee().endswith("Rejection::operator()")
            # the discipline holds where the settle is written (a helper that locks and tests itself) or where that helper is called
            a_ok, b_ok, c_ok = check_at(sf, e, e["recv"].get("b"), is_rej)
            if not (a_ok and b_ok and c_ok) and sf is not f:
                a_ok, b_ok, c_ok = check_at(f, ce, base, is_rej, sf, e)
            ok = a_ok and b_ok and c_ok
            ck.ob("C11-R4", "%s:%s" % (name, "reject" if is_rej else "resolve"), ok, e.loc, f,
                  "under data->mtx=%s; bail-out on '%s' dominates=%s; flag set on the path=%s" % (a_ok, flagname, b_ok, c_ok))
            f, dom = sf, cfg.dominators(sf)
            # R5
            if kind == "all" and not is_rej:
                done_edges = lib.relation_edges(f, lambda r_: _field(r_, "Data::resolved"), lambda r_: _field(r_, "Data::total"), ("==",))
                t_ok = any(cfg.edge_dominates(f, bid_, k_, e) for bid_, k_ in done_edges)
                incs = [x for x in f.events("incdec") if _field(x.get("operand"), "Data::resolved")]
                # the single increment precedes the comparison (the comparison event, or the branch when it compares in place)
                cmp_evs = [x for x in f.events("cmp") if x.get("op") == "==" and (_field(x.get("lhs"), "Data::resolved") or _field(x.get("rhs"), "Data::resolved"))]
                i_ok = len(incs) == 1 and bool(done_edges) and \
                    all(cfg.ev_dominates(dom, incs[0], c_) for c_ in cmp_evs) and \
                    all(cfg.ev_dominates(dom, incs[0], f.blocks[bid_].elems[-1]) for bid_, _k in done_edges if f.blocks[bid_].elems)
                # increment not inside a loop
                i_ok = i_ok and not any(x is incs[0] for x in cfg.events_after(f, incs[0]))
                ck.ob("C11-R5", name, t_ok and i_ok, e.loc, f, "resolved==total test dominates resolve=%s; counter incremented once before the test=%s" % (t_ok, i_ok))
                # values are stored at the input's own position (argument order), never at the running counter
                subs = [x for x in f.events(("subscript", "call")) if (x["k"] == "subscript" and _field(x.get("base"), "::results")) or
                        (x["k"] == "call" and x.get("op") == "[]" and _field(x.get("recv"), "::results"))]
                for sx in subs:
                    idx = sx.get("idx") or ((sx.get("args") or [{}])[0])
                    it = idx.get("t") or ""
                    by_pos = _field(idx, "WhenContinuation::index") or it in ("index", "this->index")
                    by_counter = "resolved" in it
                    ck.ob("C11-R5", name + "/stored-at-own-position", by_pos and not by_counter, sx.loc, f,
                          "results[%s]" % it if by_pos and not by_counter else
                          "the value is stored at results[%s]: completion order, not argument order" % it)

    # ---------------- R7: the outcome of an inner promise always reaches the derived promise ----------------
    ck.rule("C11-R7", "C must-pass-through + I ownership (type-level)",
            "the Chainer that forwards the outcome of a promise returned by a continuation settles the derived core on every path "
            "(construct + walk, no silent way out), and holds that core by shared ownership: in a fluent chain of temporaries the Chainer "
            "is the only owner left once the upstream promise is gone", 2)
    for f in prog.find(P + "impl::Continuation::Chainer::operator()", 2):
        cons_ = lib.Summaries(prog).lift_must(lambda e: e["k"] == "call" and strip_tmpl(e.get("callee") or "") == P + "Core::construct", "core-construct")
        bad_ = [x for x in cfg.exits_without(f, cons_) if x.kind != "throw"]
        ck.ob("C11-R7", "Chainer@%s/settles-on-every-path" % f.line, not bad_, f.loc, f,
              "Core::construct on every path" if not bad_ else
              "the Chainer can return without settling the derived core: the inner promise's value is dropped and the rest of the chain never runs")
    nch = 0
    for c in prog.class_list:
        if c.get("dependent") or not strip_tmpl(c["name"]).endswith("::Chainer"):
            continue
        for fl in c.get("fields", []):
            ty = (fl.get("ctype") or fl.get("type") or "")
            if "Core" in ty and "_ptr" in ty:
                nch += 1
                ok_ = "shared_ptr" in ty and "weak_ptr" not in ty
                ck.ob("C11-R7", "Chainer::%s/shared-ownership" % fl["name"], ok_, "%s:%s" % (c["file"], fl.get("line", c["line"])), "",
                      "declared %s" % fl.get("type") if ok_ else
                      "the Chainer holds the derived core as %s: when the upstream promise of a temporary chain is gone nothing keeps the core alive and the inner promise's outcome is dropped" % fl.get("type"))
    ck.require(nch >= 1, "Chainer's reference to the derived core not found")

    # ---------------- R8: the internal rethrow marker cannot be caught by accident ----------------
    ck.rule("C11-R8", "I type-level",
            "Private::InternalRethrow -- what a rejection continuation throws to pass the rejection on (Async::Throw) -- cannot be caught "
            "by accident: it has no base class, or none that a handler in the promise code names (`catch (const std::exception&)` round a "
            "user continuation would swallow it, and the derived promise would never be rejected)", 1)
    ir = prog.cls("Pistache::Async::Private::InternalRethrow")
    ck.require(ir is not None, "Private::InternalRethrow not found")
    bases_ = [b_.get("name") for b_ in ir.get("bases", []) if b_.get("name")]
    # a base class alone changes nothing; it does when some handler in the promise code catches that base (or one of *its* bases)
    # other than by `catch (...)`, which the code has always had behind the InternalRethrow handler
    def ancestors(n_, depth=0):
        out_ = {strip_tmpl(n_)}
        try:
            c_ = prog.cls(n_)
        except Exception:
            c_ = None       # a class of the standard library: not analysed
        if c_ is not None and depth < 4:
            for b_ in c_.get("bases", []):
                if b_.get("name"):
                    out_ |= ancestors(b_["name"], depth + 1)
        return out_
    anc = set()
    for b_ in bases_:
        anc |= ancestors(b_)
    if any(x_.startswith("std::") for x_ in anc):
        anc |= {"std::exception"}       # every standard exception class derives from it (the standard headers are not analysed as classes)
    swallowers = []
    if anc:
        for g_ in prog.funcs.values():
            if not g_.blocks or not g_.file.endswith("/pistache/async.h"):
                continue
            for hb in g_.blocks.values():
                if hb.label and hb.label.get("k") == "catch":
                    ty_ = strip_tmpl((hb.label.get("type") or "").replace("const ", "").replace("&", "").strip())
                    if ty_ in anc:
                        swallowers.append((g_, hb))
    ck.ob("C11-R8", "InternalRethrow/not-caught-through-a-base", not swallowers, (("%s:%s" % (swallowers[0][0].file, swallowers[0][1].label.get("l"))) if swallowers else "%s:%s" % (ir.get("file"), ir.get("line"))),
          (swallowers[0][0] if swallowers else ""),
          ("no base class" if not bases_ else "derives from %s, which no handler in the promise code catches" % bases_) if not swallowers else
          "InternalRethrow derives from %s and %s has a handler for %s: the rejection a continuation passes on with Async::Throw is caught there and "
          "the derived promise is never rejected" % (bases_, swallowers[0][0].name, swallowers[0][1].label.get("type")))

    # ---------------- R9: a promise is marked settled when its outcome is in place ----------------
    ck.rule("C11-R9", "C ordering (value before state)",
            "in Resolver / Rejection (and every other function of async.h that settles a core directly) the outcome is stored first -- "
            "Core::construct for a value, Core::exc for an exception -- and the state is changed to Fulfilled / Rejected after it: "
            "construct can throw (BadType, a throwing copy), and a state that was already claimed then says 'fulfilled' for a core "
            "without a value -- later valid attempts are refused and continuations run on nothing", 4)

    def state_store(e):
        if e["k"] != "call":
            return None
        rv = e.get("recv") or {}
        if not _field(rv, "Core::state"):
            return None
        nm = (e.get("callee") or "").rsplit("::", 1)[-1]
        if e.get("op") == "=" or nm in ("store", "exchange", "compare_exchange_strong", "compare_exchange_weak"):
            for a_ in e.get("args", []):
                c_ = a_.get("const") or ""
                if isinstance(c_, str) and c_.startswith("e:Pistache::Async::State::") and not c_.endswith("Pending"):
                    return c_.rsplit("::", 1)[-1]
                for r_ in (a_.get("refs") or []):
                    if r_.startswith("e:Pistache::Async::State::") and not r_.endswith("Pending"):
                        return r_.rsplit("::", 1)[-1]
            # `claim(settled)`: the settled state arrives through a parameter of an expanded helper
            if nm.startswith("compare_exchange") or nm in ("store", "exchange"):
                return "?"
        return None
    n9 = 0
    for f in prog.flat_library_funcs():
        if not f.file.endswith("/pistache/async.h") or not f.blocks:
            continue
        stores = [(e, state_store(e)) for e in f.events("call") if state_store(e)]
        if not stores:
            continue
        outcome = [e for e in f.events("call") if (strip_tmpl(e.get("callee") or "").endswith("Core::construct") or strip_tmpl(e.get("callee") or "").endswith("CoreT::construct"))]
        outcome += [e for e in f.events(("call", "assign")) if (e.get("op") == "=" and _field(e.get("recv"), "Core::exc")) or (e["k"] == "assign" and ((e.get("lhs") or {}).get("f") or "").endswith("Core::exc"))]
        if not outcome:
            continue
        d9 = cfg.dominators(f)
        for e, which in stores:
            n9 += 1
            ok9 = any(cfg.ev_dominates(d9, o_, e) for o_ in outcome)
            ck.ob("C11-R9", "%s/outcome-before-state" % prog.owner(f).base.replace("Pistache::Async::", ""), ok9, e.loc, f,
                  "the value / exception is stored before the state is set" if ok9 else
                  "the state is set to %s at line %s before the value / exception is stored: if storing it throws, the core stays marked settled "
                  "with nothing in it" % (which, e.get("l")))
    ck.require(n9 >= 4, "direct settlements (state stores next to an outcome store) found in async.h: %d" % n9)

