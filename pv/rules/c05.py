"""C05 — emitted messages are well-formed HTTP/1.1 with exact framing.

Decides structural identities of the serialisers: component order and failure discipline, Content-Length operand == body
operand, chunk framing shape, sibling agreement of the fixed-length writers, growth cap of the output buffer.  Byte-exact
grammar conformance for all sizes is value-level and not decided."""
import re
from .. import cfg, lib, facts
from ..facts import AnalysisBroken, strip_tmpl

H = "Pistache::Http::"
RW = H + "ResponseWriter::"
RS = H + "ResponseStream::"
HELPERS = {"status": H + "(anonymous namespace)::writeStatusLine", "headers": H + "(anonymous namespace)::writeHeaders", "cookies": H + "(anonymous namespace)::writeCookies"}
DSB = "Pistache::DynamicStreamBuf::"


def comp_of(ev):
    """classify a serialiser event into a message component"""
    if ev["k"] != "call":
        return None
    c = ev.get("callee") or ""
    bc = strip_tmpl(c)
    for k, v in HELPERS.items():
        if c == v:
            return k
    if bc == H + "writeHeader":
        t = ev.get("t") or ""
        if "ContentLength" in t:
            return "content-length"
        if "TransferEncoding" in t:
            return "transfer-encoding"
        return "header"
    if bc in ("std::basic_ostream::operator<<", "std::operator<<", H + "operator<<") or c.endswith("operator<<"):
        if any((a.get("t") or "").endswith("crlf") for a in ev.get("args", [])) and len(ev.get("args", [])) >= 1:
            # `os << crlf` alone (recv is the stream variable)
            if (ev.get("recv") or {}).get("v") or (ev["args"][0].get("v") if ev.get("args") else None):
                return "crlf"
    if bc == "std::basic_ostream::write":
        return "body"
    if bc == "Pistache::Tcp::Transport::asyncWrite":
        return "asyncWrite"
    return None


def run(ck):
    prog = ck.prog
    summ = lib.Summaries(prog)
    must_reject = summ.lift_must(lambda x: x["k"] == "call" and strip_tmpl(x.get("callee") or "") == "Pistache::Async::Promise::rejected", "rejected-promise")
    ck.rule("C05-R1", "C ordering + failure discipline",
            "fixed-length serialisers (ResponseWriter::putOnWire, serveFile): status line first; header, cookie and Content-Length writers "
            "before the blank line; body after it; every write is followed by a stream-state test whose failing arm returns a rejected "
            "promise and cannot reach asyncWrite", 10)
    ck.rule("C05-R2", "dataflow identity",
            "the Content-Length operand and the body-write length are the same unmodified variable; sent_bytes_ is advanced by the size of "
            "the very buffer handed to asyncWrite; the client writes Content-Length: body.size() and the body under the same condition", 4)
    ck.rule("C05-R3", "C chunk framing shape",
            "ResponseStream::write / operator<< emit hex size, CRLF, data, CRLF with size and data derived from the same operands; ends() "
            "writes 0 CRLF CRLF, tests the stream, then flushes; the stream constructor emits Transfer-Encoding: chunked and no "
            "Content-Length", 4)
    ck.rule("C05-R4", "B growth cap + class invariant",
            "DynamicStreamBuf::overflow grows only under size < maxSize_ and reserve clamps to maxSize_; sizes are measured from "
            "data_.data() — pbase() is re-seated on every growth/move and is never used as the start of the message", 3)
    ck.rule("C05-R5", "sibling agreement",
            "putOnWire and serveFile emit the same component set {status line, headers, cookies, Content-Length, blank line}", 1)

    writers = {"putOnWire": lib.single(prog, RW + "putOnWire"), "serveFile": lib.single(prog, H + "serveFile")}
    comps = {}
    SER = set(HELPERS.values())

    def w_expand(g_):
        # file-local pieces the serialiser was split into (not the three component writers themselves, not the transport)
        return (g_.is_lambda or (g_.file.endswith("/common/http.cc") and not g_.cls)) and g_.name not in SER and strip_tmpl(g_.name) != H + "writeHeader"
    for name, f0 in writers.items():
        reg = [g_ for g_ in lib.region(prog, f0, within=w_expand) if any(comp_of(x) for x in g_.events("call"))]
        flat = [(e, comp_of(e)) for e, _a in lib.flat_calls(prog, f0, w_expand) if comp_of(e)]
        by = {}
        for e, c in flat:
            by.setdefault(c, []).append(e)
        comps[name] = set(by) - {"asyncWrite", "body", "header"}
        ck.require("status" in by and "crlf" in by and "asyncWrite" in by, "%s: status line / blank line / asyncWrite not recognised (%s)" % (name, sorted(by)))
        pos = {id(e): i for i, (e, _c) in enumerate(flat)}
        st = by["status"][0]
        aw = by["asyncWrite"][0]
        # the blank line: the last `os << crlf` before the first asyncWrite
        blanks = [e for e in by["crlf"] if pos[id(e)] < pos[id(aw)]]
        ck.require(blanks, "%s: no blank line before asyncWrite" % name)
        blank = blanks[-1]
        pre = ["headers", "cookies", "content-length"]
        before = lambda x, y: pos[id(x)] < pos[id(y)]
        okorder = all(before(st, e) for k in pre + ["crlf"] for e in by.get(k, []))
        okorder = okorder and all(before(e, blank) for k in pre for e in by.get(k, []))
        okorder = okorder and before(blank, aw) and all(before(blank, e) for e in by.get("body", []))
        # where everything is written in one function the order is also a dominance fact
        if len(reg) == 1 and reg[0] is f0:
            dom = cfg.dominators(f0)
            okorder = okorder and all(cfg.ev_dominates(dom, st, e) for k in pre + ["crlf"] for e in by.get(k, [])) and cfg.ev_dominates(dom, blank, aw)
        ck.ob("C05-R1", "%s/component-order" % name, okorder, f0.loc, f0, "status < {%s} < blank line < body < asyncWrite" % ", ".join(k for k in pre if k in by))
        # no path hands the message to the transport without having written its Content-Length (whatever the status code, headers or
        # body size): the body that follows the blank line would be unframed
        unframed = []
        # state: (Content-Length written?, (helper, what it returned) of the last bool piece walked through)
        def fstep(st, ev):
            seen, last = st
            c_ = comp_of(ev)
            if c_ == "content-length":
                return (1, last)
            if c_ == "asyncWrite" and seen == 0:
                unframed.append(ev)
                return None
            return st

        def fret(st, ex, g_):
            rv = ex.event.get("const") if ex.event is not None and ex.kind == "return" else None
            return (st[0], (g_.base, rv) if isinstance(rv, bool) else None)
        redges = {}

        def fedge(st, blk, k, succ):
            seen, last = st
            if last is not None:
                # the caller's test of that helper's result: only the edge that agrees with what the helper returned is feasible
                fn_ = blk_owner.get(id(blk))
                if fn_ is not None:
                    key_ = (fn_.id, last[0])
                    if key_ not in redges:
                        redges[key_] = (set(lib.result_edges(fn_, last[0], True)), set(lib.result_edges(fn_, last[0], False)))
                    t_e, f_e = redges[key_]
                    if (blk.id, k) in (f_e if last[1] else t_e):
                        return None
                    if (blk.id, k) in t_e or (blk.id, k) in f_e:
                        return (seen, None)
            return st
        blk_owner = {id(b_): g_ for g_ in [f0] + [h_ for h_ in lib.region(prog, f0, within=w_expand)] for b_ in g_.blocks.values()}
        cfg.run_automaton(f0, (0, None), lib.inlined_step(prog, fstep, lambda g_: w_expand(g_) and g_.id != f0.id, on_return=fret), edge=fedge)
        ck.ob("C05-R1", "%s/content-length-on-every-sending-path" % name, not unframed, unframed[0].loc if unframed else f0.loc, f0,
              "asyncWrite is reached only after writeHeader<ContentLength>" if not unframed else
              "asyncWrite at line %s can be reached on a path that wrote no Content-Length: the receiver cannot tell where the body ends" % unframed[0].get("l"))
        # failure discipline: each write W is followed by the `!os` test -- or, alternatively, lies before a *final gate*: a test of a
        # stream over the same response buffer, made after a non-empty write that follows every other write, whose failing arm rejects
        # without sending and which dominates the asyncWrite.  That is enough because the buffer, once it has refused a byte, is full and
        # stays full (C05-R4: overflow() refuses at maxSize_, nothing shrinks the buffer before it is sent), so the write in front of the
        # gate fails whenever an earlier one did
        gate = None
        dom0 = cfg.dominators(f0)
        streams0 = {d_["var"] for d_ in f0.events("decl") if "ostream" in (d_.get("type") or "")}
        aws0 = [x for x in f0.events("call") if comp_of(x) == "asyncWrite"]
        for gb in f0.blocks.values():
            t_ = gb.term or {}
            if t_.get("k") != "if" or t_.get("cmp") or not t_.get("neg") or (t_.get("core") or {}).get("v") not in streams0 or len(gb.succs) != 2 or gb.succs[0] is None:
                continue
            sv_ = t_["core"]["v"]
            fail_ = gb.succs[0]
            rej_ = not [x for x in cfg.exits_without(f0, must_reject, start_block=fail_) if x.kind != "throw"]
            sends_ = any(comp_of(x) == "asyncWrite" for x in cfg.events_from_block(f0, fail_))
            doms_ = bool(aws0) and all(gb.id in dom0.get(a_.block, ()) or gb.id == a_.block for a_ in aws0)
            # a non-empty write on that very stream in front of the gate, with no other component written between it and the gate
            last_w = [x for x in f0.events("call") if comp_of(x) in ("crlf", "content-length", "body") and
                      ((x.get("args") or [{}])[0].get("v") == sv_ or (x.get("recv") or {}).get("v") == sv_ or sv_ in (x.get("t") or "").split("<<")[0].split(".")[0])
                      and (x.block == gb.id or x.block in dom0.get(gb.id, ()))]
            if rej_ and not sends_ and doms_ and last_w:
                gate = gb
                break

        def before_gate(f_, e_):
            if gate is None:
                return False
            if f_ is f0:
                return e_.block == gate.id or e_.block in dom0.get(gate.id, ())
            sites_ = [s_ for s_ in f0.calls(lambda s_: any(h_.id == f_.id for h_ in prog.resolve_call(s_)))]
            return bool(sites_) and all(s_.block == gate.id or s_.block in dom0.get(gate.id, ()) for s_ in sites_)
        nw = 0
        for f in reg:
          for e in [x for x in f.events("call") if comp_of(x)]:
            c = comp_of(e)
            if c in ("asyncWrite",):
                continue
            nw += 1
            blk = f.blocks[e.block]
            cur = blk
            hops = 0
            while (cur.term is None or cur.term.get("k") not in ("if",)) and hops < 10:
                nx = [s for s in cur.succs if s is not None]
                if len(nx) != 1:
                    break
                cur = f.blocks[nx[0]]
                hops += 1
            t = cur.term or {}
            streams = {d_["var"] for d_ in f.events("decl") if "ostream" in (d_.get("type") or "")} | {p_["name"] for p_ in f.params if "ostream" in p_["type"]}
            direct = (t.get("core") or {}).get("v") in streams or (t.get("core") or {}).get("root") in streams
            if not direct and t.get("k") == "if" and not t.get("cmp"):
                # `if (!ok())` where ok is a local lambda / helper that returns the state of the stream
                for c_ in f.events("call"):
                    if c_["k"] == "call" and re.sub(r"\s+", "", c_.get("t") or "") == re.sub(r"\s+", "", (t.get("core") or {}).get("t") or ""):
                        for g_ in prog.resolve_call(c_):
                            rs_ = [r_ for r_ in g_.events("return")]
                            if rs_ and all(any(re.search(r"\b%s\b" % re.escape(sv), r_.get("t") or "") for sv in streams) and "!" not in (r_.get("t") or "") for r_ in rs_):
                                direct = True
            tested = t.get("k") == "if" and t.get("neg") and direct
            # nothing else is written between W and the test
            between = [x for x in blk.elems[e.idx + 1:] if comp_of(x) and x is not e] if cur is blk else []
            okf = tested and not between
            detail = "followed by `if (!os)`"
            if okf:
                fail = cur.succs[0]
                if f is f0 or "Promise" in (f.d.get("ret") or ""):
                    # every way out of the failing arm has produced a rejected promise (directly or through a local helper that always does)
                    rej = not [x for x in cfg.exits_without(f, must_reject, start_block=fail) if x.kind != "throw"]
                    reach_aw = any(comp_of(x) == "asyncWrite" for x in cfg.events_from_block(f, fail))
                else:
                    # a bool piece of the serialiser: the failing arm returns false, and whoever calls it turns false into a rejected
                    # promise without sending anything
                    ret_false = not [x for x in cfg.exits_without(f, lambda x: x["k"] == "return" and x.get("const") is False, start_block=fail) if x.kind != "throw"]
                    sites = [s_ for g_ in reg + [f0] for s_ in g_.calls(lambda s_: any(h_.id == f.id for h_ in prog.resolve_call(s_)))]
                    rej, reach_aw = ret_false and bool(sites), False
                    for s_ in sites:
                        cf = s_.func
                        fe_ = lib.result_edges(cf, f.base, False)
                        if not fe_:
                            rej = False
                        for bid, k_ in fe_:
                            arm_ = cf.blocks[bid].succs[k_]
                            if [x for x in cfg.exits_without(cf, must_reject, start_block=arm_) if x.kind != "throw"]:
                                rej = False
                            if any(comp_of(x) == "asyncWrite" or (x["k"] == "call" and summ.may(prog.resolve_call(x)[0], lambda y: comp_of(y) == "asyncWrite", "asyncWrite") if x["k"] == "call" and prog.resolve_call(x) and prog.resolve_call(x)[0].blocks else False)
                                   for x in cfg.events_from_block(cf, arm_)):
                                reach_aw = True
                okf = rej and not reach_aw
                detail = "failing arm returns Promise::rejected=%s, reaches asyncWrite=%s" % (rej, reach_aw)
            elif before_gate(f, e):
                okf = True
                detail = "covered by the final gate at line %s: a refused write leaves the buffer full, the write in front of the gate fails too, and the gate rejects without sending" % (gate.term or {}).get("l")
            else:
                detail = "the write of the %s at line %s is not followed by a stream-state test: an overflow there still sends a truncated message" % (c, e.get("l"))
            ck.ob("C05-R1", "%s/%s@checked" % (name, c), okf, e.loc, f, detail)
        ck.require(nw >= 4, "%s: only %d writes recognised" % (name, nw))

    # ---------------- R5 ----------------
    want = {"status", "headers", "cookies", "content-length", "crlf"}
    miss = {n: sorted(want - c) for n, c in comps.items() if want - c}
    ck.ob("C05-R5", "fixed-length-writers-agree", not miss and comps["putOnWire"] == comps["serveFile"], writers["serveFile"].loc, writers["serveFile"],
          "both emit %s" % sorted(want) if not miss else "missing components: %s" % miss)

    # ---------------- R2 ----------------
    f = writers["putOnWire"]
    lenp = f.params[1]["name"]
    cl = [e for e in f.events("call") if comp_of(e) == "content-length"]
    bw = [e for e in f.events("call") if comp_of(e) == "body"]
    assigns = [a for a in f.events("assign") if a["lhs"].get("v") == lenp]
    ok = len(cl) == 1 and len(bw) == 1 and cl[0]["args"][-1].get("v") == lenp and bw[0]["args"][1].get("v") == lenp and bw[0]["args"][0].get("v") == f.params[0]["name"] and not assigns
    ck.ob("C05-R2", "putOnWire/content-length==body-length", ok, cl[0].loc if cl else f.loc, f, "writeHeader<ContentLength>(os, %s) and os.write(%s, %s)" % (lenp, f.params[0]["name"], lenp))
    bufd = [d for d in f.events("decl") if strip_tmpl(d.get("icall") or "") == DSB + "buffer"]
    sb = [a for a in f.events("assign") if strip_tmpl(a["lhs"].get("f") or "") == RW + "sent_bytes_"]
    aw = [e for e in f.events("call") if comp_of(e) == "asyncWrite"]
    plain = lambda v_: (v_ or "").split("@")[0]
    ok = len(bufd) == 1 and len(sb) == 1 and sb[0].get("op") == "+=" and (plain(bufd[0]["var"]) + ".size()") in (sb[0]["rhs"].get("t") or "") and aw and \
        plain(aw[0]["args"][1].get("v")) == plain(bufd[0]["var"])
    ck.ob("C05-R2", "putOnWire/sent_bytes==buffer-sent", ok, sb[0].loc if sb else f.loc, f, "sent_bytes_ += buffer.size(); asyncWrite(fd, buffer)")
    g = writers["serveFile"]
    # the operand of the Content-Length writer, traced back into serveFile through the pieces it was split into
    clf = [(e, a_) for e, a_ in lib.flat_calls(prog, g, w_expand) if comp_of(e) == "content-length"]
    cl = [e for e, _a in clf]
    lenv = (clf[0][1][-1].get("v") or (clf[0][1][-1].get("t") or "").strip()) if clf else None
    ld = [d for d in g.events("decl") if lenv and d.get("var") == lenv]

    def is_file_size(d_):
        if "st_size" in ((d_.get("init") or {}).get("t") or ""):
            return True
        # or a helper every return of which is the st_size of an fstat() result
        hs_ = [h_ for h_ in prog.by_base.get(strip_tmpl(d_.get("icall") or ""), []) if h_.blocks]
        return bool(hs_) and all([r_ for r_ in h_.events("return")] and all("st_size" in (r_.get("t") or "") for r_ in h_.events("return")) for h_ in hs_)
    ok = len(cl) == 1 and len(ld) == 1 and is_file_size(ld[0])
    ck.ob("C05-R2", "serveFile/content-length==file-size", ok, cl[0].loc if cl else g.loc, g, "Content-Length is the fstat() size of the file that is sent")
    wr = lib.single(prog, H + "Experimental::(anonymous namespace)::writeRequest")
    cl = [e for e in wr.calls(lambda e: strip_tmpl(e.get("callee") or "").endswith("::writeHeader") and "ContentLength" in (e.get("t") or ""))]
    bvars = {d_["var"] for d_ in wr.events("decl") if d_.get("icall") == "Pistache::Http::Message::body" or ((d_.get("init") or {}).get("t") or "").endswith(".body()")}
    ck.require(len(bvars) == 1, "local bound to request.body() not found in writeRequest")
    BV = next(iter(bvars))
    bodyw = [e for e in wr.events("call") if e.get("op") == "<<" and any(a.get("v") == BV for a in e.get("args", []))]
    # both happen exactly on the edges that know the body is not empty: `if (!body.empty())` taken, or a bool local that holds that
    # test (`const bool hasBody = !body.empty(); if (hasBody)`)
    nonempty = []
    for b in wr.blocks.values():
        t_ = b.term
        if not t_ or t_.get("k") != "if" or len(b.succs) != 2 or t_.get("cmp"):
            continue
        core = t_.get("core") or {}
        direct = core.get("root") == BV and "empty" in (t_.get("cond") or "")
        via = None
        if not direct and core.get("v"):
            dv = [d_ for d_ in wr.events("decl") if d_.get("var") == core["v"] and (d_.get("type") or "").replace("const ", "").strip() == "bool"]
            it = ((dv[0].get("init") or {}).get("t") or "").replace(" ", "") if dv else ""
            if it in ("!%s.empty()" % BV, "!(%s.empty())" % BV):
                via = True        # the local is true when the body is not empty
            elif it in ("%s.empty()" % BV,):
                via = False
        if direct:
            k_ne = 0 if t_.get("neg") else 1          # edge on which empty() is false
            nonempty.append((b.id, k_ne))
        elif via is not None:
            truth_edge = 1 if t_.get("neg") else 0    # edge on which the local is true
            nonempty.append((b.id, truth_edge if via else 1 - truth_edge))
    ok = len(cl) == 1 and len(bodyw) == 1 and (BV + ".size()") in (cl[0].get("t") or "") and \
        any(cfg.edge_dominates(wr, bid, k_, cl[0]) for bid, k_ in nonempty) and any(cfg.edge_dominates(wr, bid, k_, bodyw[0]) for bid, k_ in nonempty)
    ck.ob("C05-R2", "client-writeRequest/content-length==body", ok, wr.loc, wr, "Content-Length: body.size() and `<< body`, both under !body.empty()")

    # ---------------- R3 ----------------
    # chunk framing of the stream writers, read off the calls in source order with private helpers of ResponseStream and the
    # callbacks handed to them expanded (the frame may be written once in a helper that is given the size and a data-emitting lambda)
    def rs_expand(g_):
        return g_.is_lambda or g_.cls == H + "ResponseStream"

    def uncast(t_):
        """`static_cast<size_t>(sz)` / `(sz)` / `size_t(sz)` -> `sz`: a conversion of the operand is still the operand"""
        t_ = re.sub(r"\s+", "", t_ or "")
        while True:
            m_ = re.match(r"^(?:static_cast<[^<>]*(?:<[^<>]*>)?[^<>]*>|\([A-Za-z_:][\w:]*\)|(?:std::)?(?:size_t|ssize_t|streamsize|int|long|unsignedlong))\((.*)\)$", t_)
            if m_ and lib._balanced(m_.group(1)):
                t_ = m_.group(1)
                continue
            if t_.startswith("(") and t_.endswith(")") and lib._balanced(t_[1:-1]):
                t_ = t_[1:-1]
                continue
            return t_

    def frame_of(fn_):
        """[(kind, last-argument text)] kinds: hex, dec, crlf, ins (operator<< of anything else), write (ostream::write), size (Size<T>())"""
        out_ = []
        for e, args in lib.flat_calls(prog, fn_, rs_expand):
            c_ = strip_tmpl(e.get("callee") or "")
            last = uncast((args[-1].get("t") or "")) if args else ""
            if e.get("op") == "<<":
                if last.endswith("hex"):
                    out_.append(("hex", last, e, args))
                elif last.endswith("dec"):
                    out_.append(("dec", last, e, args))
                elif last.endswith("crlf"):
                    out_.append(("crlf", last, e, args))
                else:
                    out_.append(("ins", last, e, args))
            elif c_ == "std::basic_ostream::write":
                out_.append(("write", last, e, args))
            elif c_ == "Pistache::Size::operator()":
                out_.append(("size", (args[0].get("t") or "") if args else "", e, args))
        return out_
    w = lib.single(prog, RS + "write")
    szp, datap = w.params[1]["name"], w.params[0]["name"]
    fr = frame_of(w)
    if not any(k_ in ("hex", "crlf", "ins") for k_, _t, _e, _a in fr):
        # the frame is not written with stream inserters at all (formatted by hand into a buffer, sputn, ...): this rule reads inserter
        # sequences and cannot say whether another mechanism frames correctly
        raise AnalysisBroken("C05-R3: ResponseStream::write does not frame the chunk with ostream inserters (%s): a mechanism this rule does not model"
                             % sorted({strip_tmpl(e.get("callee") or "").rsplit("::", 1)[-1] for e in w.events("call")})[:6])
    shape = [(k_, t_) for k_, t_, _e, _a in fr if k_ in ("hex", "crlf", "write") or (k_ == "ins" and t_ == szp)]
    want = [("hex", None), ("ins", szp), ("crlf", None), ("write", szp), ("crlf", None)]
    ok = len(shape) == len(want) and all(k_ == wk and (wt is None or t_ == wt) for (k_, t_), (wk, wt) in zip(shape, want))
    wcall = [(e_, a_) for k_, t_, e_, a_ in fr if k_ == "write"]
    ok = ok and len(wcall) == 1 and uncast(wcall[0][1][0].get("t")) == datap and uncast(wcall[0][1][1].get("t")) == szp
    ck.ob("C05-R3", "ResponseStream::write/frame", ok, w.loc, w, "hex %s, CRLF, write(%s, %s), CRLF" % (szp, datap, szp))
    ops = prog.find(H + "operator<<", 1)
    ops = [o for o in ops if o.params and "ResponseStream" in o.params[0]["type"] and len(o.params) == 2 and "(*" not in o.params[1]["type"]]
    ck.require(ops, "template operator<<(ResponseStream&, const T&) has no instantiation (inst driver missing)")
    for o in ops:
        vp = o.params[1]["name"]
        fr = frame_of(o)
        sizes = [t_ for k_, t_, _e, _a in fr if k_ == "size"]
        # hex, <the size computed from the value>, CRLF, the value, CRLF
        shape = [(k_, t_) for k_, t_, _e, _a in fr if k_ in ("hex", "crlf") or (k_ == "ins" and (t_ == vp or vp in t_ and "size" in t_.lower()))]
        kinds = [k_ for k_, _t in shape]
        vals = [t_ for k_, t_ in shape if k_ == "ins"]
        ok = bool(sizes) and sizes[0] == vp and kinds[:1] == ["hex"] and kinds.count("crlf") == 2 and kinds[-3:] == ["crlf", "ins", "crlf"] and vals[-1:] == [vp]
        ck.ob("C05-R3", "operator<<(ResponseStream&, const T&)/frame", ok, o.loc, o, "hex size(%s), CRLF, %s, CRLF" % (vp, vp))
        # the numeric base selected for the size must not leak into the data: for arithmetic T the value would be printed in hex
        # while its size was computed from its decimal digits
        ptype = o.params[1]["type"].replace("const", "").replace("&", "").strip()
        arithmetic = ptype in ("int", "unsigned int", "long", "unsigned long", "short", "unsigned short", "long long", "unsigned long long",
                               "int8_t", "uint8_t", "int16_t", "uint16_t", "int32_t", "uint32_t", "int64_t", "uint64_t", "size_t", "ssize_t")
        if arithmetic:
            seqk = [(k_, t_) for k_, t_, _e, _a in fr]
            vi = [i for i, (k_, t_) in enumerate(seqk) if k_ == "ins" and t_ == vp]
            decs = [i for i, (k_, t_) in enumerate(seqk) if k_ == "dec"]
            hexi = [i for i, (k_, t_) in enumerate(seqk) if k_ == "hex"]
            leak = bool(hexi) and bool(vi) and not any(hexi[0] < d_ < vi[-1] for d_ in decs)
            ck.ob("C05-R3", "operator<<(ResponseStream&, const T&)/base-restored-for-integers", not leak, o.loc, o,
                  "std::dec restored before an integer value is written" if not leak else
                  "std::hex set for the chunk size is still in effect when the %s value is written: the data is printed in hexadecimal while its "
                  "length was computed from its decimal digits, so size and data disagree" % ptype)
    en = lib.single(prog, RS + "ends")
    d = cfg.dominators(en)
    zero = [e for e in en.events("call") if e.get("op") == "<<" and any(a.get("const") == "s:0" for a in e.get("args", []))]
    crlfs = [e for e in en.events("call") if e.get("op") == "<<" and any((a.get("t") or "").endswith("crlf") for a in e.get("args", []))]
    fl = [e for e in en.calls(lambda e: (e.get("callee") or "") == RS + "flush")]
    osv = {d_["var"] for d_ in en.events("decl") if "ostream" in (d_.get("type") or "")}
    # the stream-state test: `if (!os)`, or a bool local that records the state (`const bool fits = static_cast<bool>(os); if (!fits)`);
    # good_edges = the edges on which the stream is known to be good
    good_edges = []
    for b in en.blocks.values():
        t_ = b.term
        if not t_ or t_.get("k") != "if" or t_.get("cmp") or len(b.succs) != 2:
            continue
        cv_ = (t_.get("core") or {}).get("v")
        if cv_ in osv:
            good_edges.append((b.id, 1 if t_.get("neg") else 0))
            continue
        dl = [x for x in en.events("decl") if x.get("var") == cv_ and "bool" in (x.get("ctype") or x.get("type") or "")]
        it_ = re.sub(r"\s+", "", (dl[0].get("init") or {}).get("t") or "") if dl else ""
        if dl and any(re.search(r"\b%s\b" % re.escape(v_), it_) for v_ in osv):
            means_failed = it_.startswith("!") or ".fail()" in it_ or ".bad()" in it_
            truth_edge = 1 if t_.get("neg") else 0         # edge on which the local is true
            good_edges.append((b.id, (1 - truth_edge) if means_failed else truth_edge))
    tst = good_edges
    ok = len(zero) == 1 and len(crlfs) == 2 and len(fl) == 1 and len(tst) == 1 and cfg.ev_dominates(d, zero[0], crlfs[0]) and \
        all(cfg.ev_dominates(d, c, fl[0]) for c in crlfs) and cfg.edge_dominates(en, tst[0][0], tst[0][1], fl[0])
    ck.ob("C05-R3", "ResponseStream::ends/terminator", ok, en.loc, en, "\"0\" CRLF CRLF, `if (!os) throw`, then flush()")
    ctor = [f2 for f2 in prog.funcs.values() if f2.base == RS + "ResponseStream" and len(f2.params) >= 5]
    ck.require(ctor, "ResponseStream constructor not found")
    creg = lib.region(prog, ctor[0], within=lambda g_: g_.cls == H + "ResponseStream")
    te = [e for g_ in creg for e in g_.events("call") if comp_of(e) == "transfer-encoding"]
    clh = [e for g_ in creg for e in g_.events("call") if comp_of(e) == "content-length"]
    ok = len(te) == 1 and not clh and lib.refs_enumerator(te[0], H + "Header::Encoding::Chunked")
    ck.ob("C05-R3", "ResponseStream::ResponseStream/chunked-no-length", ok, ctor[0].loc, ctor[0], "Transfer-Encoding: chunked, no Content-Length")
    # ... on every path: the body that follows is always chunk-framed, so the announcement cannot depend on anything (a handler that has
    # set a Transfer-Encoding of its own does not change how write() frames the data)
    if te:
        summ_te = lib.Summaries(prog)
        must_te = summ_te.lift_must(lambda e: e["k"] == "call" and comp_of(e) == "transfer-encoding" and lib.refs_enumerator(e, H + "Header::Encoding::Chunked"), "writes-te-chunked")
        cf = prog.flat(ctor[0])
        # paths on which one of the head writers has reported that the head does not fit are refusals, not responses (the status-line and
        # cookie arms throw; the header arm leaves the constructor without completing the head -- nothing well-formed is claimed for it)
        refused = set()
        for wfn in {strip_tmpl(e.get("callee") or "") for e in cf.events("call") if strip_tmpl(e.get("callee") or "").startswith(H + "write") or
                    strip_tmpl(e.get("callee") or "").startswith(H + "(anonymous namespace)::write")}:
            refused |= set(lib.result_edges(cf, wfn, False))
        loose = [x for x in cfg.exits_without(cf, must_te, avoid_edge=lambda st, blk, k, sid: None if (blk.id, k) in refused else st) if x.kind != "throw"]
        ck.ob("C05-R3", "ResponseStream::ResponseStream/chunked-on-every-path", not loose, te[0].loc, ctor[0],
              "every way through the constructor announces chunked transfer coding" if not loose else
              "a path through the ResponseStream constructor does not write `Transfer-Encoding: chunked` although every write() that follows is chunk-framed")

    # ---------------- R4 ----------------
    ov = lib.single(prog, DSB + "overflow")
    res = [e for e in ov.calls(lambda e: (e.get("callee") or "") == DSB + "reserve")]
    # reserve() is reached only on an edge that knows data_.size() < maxSize_ (size compared directly or through a local; `<` taken or
    # `>=` not taken)
    szv = {dd["var"] for dd in ov.events("decl") if dd.get("var") and strip_tmpl(dd.get("icall") or "") == "std::vector::size"}
    is_size = lambda r_: r_.get("v") in szv or "data_.size()" in (r_.get("t") or "")
    is_cap = lambda r_: strip_tmpl(r_.get("f") or "") == DSB + "maxSize_"
    under = lib.relation_edges(ov, is_size, is_cap, ("<",))
    ok = bool(res) and bool(under) and all(any(cfg.edge_dominates(ov, bid, k_, e) for bid, k_ in under) for e in res)
    ck.ob("C05-R4", "DynamicStreamBuf::overflow/grows-under-cap", ok, ov.loc, ov, "reserve() only on the data_.size() < maxSize_ edge")
    # overflow() is the only put path of the buffer: one byte at a time, refused only when the buffer is full -- so a refused write
    # leaves it full and every later write of the same message is refused too, which is what lets the serialisers test the stream
    # once per component (some through another ostream object over the same buffer).  A bulk put path (xsputn) can refuse a large
    # write and accept a later small one: whether a given override keeps the refusal sticky is not something this rule can read off
    dsc = prog.cls("Pistache::DynamicStreamBuf")
    bulk = sorted({m_.get("name") for m_ in dsc["methods"] if m_.get("virtual") and any("basic_streambuf" in o_ for o_ in (m_.get("overrides") or []))
                   and m_.get("name") in ("xsputn", "sync", "seekoff", "seekpos", "setbuf")})
    bulk_msg = None
    if bulk:
        # (raised at the end of this rule: what *can* be decided about the buffer is decided first, and a definite violation wins)
        bulk_msg = ("C05-R4: DynamicStreamBuf overrides %s: a put path besides overflow() whose refusal semantics (sticky or not) this rule "
                    "does not model" % ", ".join(bulk))
    rv = lib.single(prog, DSB + "reserve")
    rz = [e for e in rv.calls(lambda e: e.base_callee() == "std::vector::resize")]
    pname = rv.params[0]["name"]
    ok = len(rz) == 1
    how = "?"
    if ok:
        av = rz[0]["args"][0].get("v")
        import re as _re
        M = r"(?:this->)?maxSize_"
        if av == pname:
            # the parameter itself, overwritten with the cap on the edge where it exceeds it
            over = lib.relation_edges(rv, lambda r_: r_.get("v") == pname, is_cap, (">", ">="))
            asg = [a for a in rv.events("assign") if a["lhs"].get("v") == pname and strip_tmpl(a["rhs"].get("f") or "") == DSB + "maxSize_"]
            dom_ = cfg.dominators(rv)
            ok = len(asg) == 1 and any(cfg.edge_dominates(rv, bid, k_, asg[0]) for bid, k_ in over) and any(bid in dom_.get(rz[0].block, ()) for bid, _k in over)
            how = "if (size > maxSize_) size = maxSize_"
        else:
            # a local computed as the smaller of the two: `(size > max) ? max : size`, `(size < max) ? size : max`, std::min(size, max)
            dv = [dd for dd in rv.events("decl") if dd.get("var") == av]
            t_ = _re.sub(r"\s+", " ", ((dv[0].get("init") or {}).get("t") or "")) if dv else ""
            # a bool local naming the comparison is read as the comparison
            for bd in rv.events("decl"):
                if bd.get("var") and (bd.get("type") or "").replace("const ", "").strip() == "bool" and _re.search(r"\b%s\b" % _re.escape(bd["var"]), t_):
                    t_ = _re.sub(r"\b%s\b" % _re.escape(bd["var"]), "(" + _re.sub(r"\s+", " ", (bd.get("init") or {}).get("t") or "").strip("() ") + ")", t_)
            P_ = _re.escape(pname)
            pats = [r"^\(?\s*%s\s*>=?\s*%s\s*\)?\s*\?\s*%s\s*:\s*%s$" % (P_, M, M, P_), r"^\(?\s*%s\s*<=?\s*%s\s*\)?\s*\?\s*%s\s*:\s*%s$" % (M, P_, M, P_),
                    r"^\(?\s*%s\s*<=?\s*%s\s*\)?\s*\?\s*%s\s*:\s*%s$" % (P_, M, P_, M), r"^\(?\s*%s\s*>=?\s*%s\s*\)?\s*\?\s*%s\s*:\s*%s$" % (M, P_, P_, M),
                    r"^std::min(<[^>]*>)?\(\s*%s\s*,\s*%s\s*\)$" % (P_, M), r"^std::min(<[^>]*>)?\(\s*%s\s*,\s*%s\s*\)$" % (M, P_)]
            ok = bool(dv) and any(_re.match(p_, t_) for p_ in pats) and not [a for a in rv.events("assign") if a["lhs"].get("v") == av]
            how = t_
    ck.ob("C05-R4", "DynamicStreamBuf::reserve/clamps", ok, rv.loc, rv, "size is clamped to maxSize_ before data_.resize(size)" + (" [%s]" % how if ok else ""))
    # the configured cap reaches every buffer a response is serialised into: constructors of ResponseWriter (incl. the copy made by
    # clone(), which the router hands to every route handler) and the stream created by stream()
    nb = 0
    for fn in prog.funcs.values():
        if fn.cls == H + "ResponseWriter" and fn.d.get("ctor"):
            for e in fn.events("init"):
                if e.get("f") == RW + "buf_":
                    nb += 1
                    t = e.get("t") or ""
                    ok = "getMaxResponseSize()" in t or ".maxSize()" in t or "std::move(" in t
                    ck.ob("C05-R4", "ResponseWriter%s/buffer-cap-from-configuration" % fn.d.get("sig", ""), ok, e.loc, fn,
                          "buf_ initialised with %s" % t if ok else
                          "buf_ is initialised with `%s`: the configured maximum response size is lost for this writer, so an over-limit response "
                          "is emitted instead of being refused" % t)
    st = lib.single(prog, RW + "stream")
    cons = [e for e in st.events("construct") if (e.get("cls") or "") == H + "ResponseStream" and not e.get("copymove")]
    ok = bool(cons) and any(".maxSize()" in (a.get("t") or "") for a in cons[0].get("args", []))
    ck.ob("C05-R4", "ResponseWriter::stream/buffer-cap-from-configuration", ok, st.loc, st, "the stream inherits buf_.maxSize()")
    ck.require(nb >= 2, "ResponseWriter constructors initialising buf_: %d" % nb)
    pb = []
    for fn in prog.funcs.values():
        if fn.cls == "Pistache::DynamicStreamBuf":
            pb += [e for e in fn.calls(lambda e: strip_tmpl(e.get("callee") or "") == "std::basic_streambuf::pbase")]
    ck.ob("C05-R4", "DynamicStreamBuf/no-pbase-origin", not pb, pb[0].loc if pb else rv.loc, pb[0].func if pb else rv,
          "offsets are measured from data_.data()" if not pb else
          "pbase() is used as an origin at line %s, but the put area is re-seated at the old end on every growth and at the write position on every move: "
          "after a move the computed offset is wrong and later bytes overwrite earlier ones" % pb[0].get("l"))
    # the write position survives a move: the moved-to buffer's put area begins at the source's put pointer (the storage itself is moved,
    # so the pointer stays valid) -- re-seating it at the start of the storage forgets everything written and not yet flushed
    nmv = 0
    # member functions whose result is computed from the put pointer (written() = pptr() - data_.data(), say)
    pp_funcs = {g_.base for g_ in prog.funcs.values() if g_.cls == "Pistache::DynamicStreamBuf" and
                any(strip_tmpl(e.get("callee") or "") == "std::basic_streambuf::pptr" for e in g_.events("call")) and
                any(True for _ in g_.events("return")) and not g_.base.endswith("::buffer")}
    for fn in prog.funcs.values():
        if fn.cls != "Pistache::DynamicStreamBuf" or not fn.params or "DynamicStreamBuf &&" not in (fn.params[0].get("type") or ""):
            continue
        if not (fn.base.endswith("::DynamicStreamBuf") or fn.base.endswith("::operator=")):
            continue
        # the move operation and the private helpers of the class it hands the source to
        reg_ = lib.region(prog, fn, within=lambda g_: g_.cls == "Pistache::DynamicStreamBuf")
        sp, keeps = [], False
        for g_ in reg_:
            srcs = {p_.get("name") for p_ in g_.params if "DynamicStreamBuf" in (p_.get("type") or "")}
            if not srcs:
                continue
            # locals holding the source's write position
            posv = set()
            for d_ in g_.events("decl"):
                ic = strip_tmpl(d_.get("icall") or "")
                refs_ = [strip_tmpl(r_) for r_ in (d_.get("refs") or [])]
                if (ic == "std::basic_streambuf::pptr" or ic in pp_funcs or "c:std::basic_streambuf::pptr" in refs_ or any(r_[2:] in pp_funcs for r_ in refs_ if r_.startswith("c:"))) \
                        and any(("v:" + s_) in refs_ for s_ in srcs):
                    posv.add(d_["var"])
            for e in g_.calls(lambda e: strip_tmpl(e.get("callee") or "") == "std::basic_streambuf::setp" and ((e.get("recv") or {}).get("t") or "this").strip() in ("this", "")):
                a0 = re.sub(r"\s+", "", (e.get("args") or [{}])[0].get("t") or "")
                if a0 in ("nullptr", "NULL", "0"):
                    continue
                sp.append(e)
                if any(a0 == "%s.pptr()" % s_ for s_ in srcs) or any(re.search(r"\b%s\b" % re.escape(v_), a0) for v_ in posv):
                    keeps = True
            if [e for e in g_.calls(lambda e: strip_tmpl(e.get("callee") or "").rsplit("::", 1)[-1] in ("pbump", "advance") and
                                   any(("pptr" in (a.get("t") or "")) or any(re.search(r"\b%s\b" % re.escape(v_), a.get("t") or "") for v_ in posv) for a in (e.get("args") or [])))]:
                keeps = True
        if not sp:
            continue
        nmv += 1
        ck.ob("C05-R4", "DynamicStreamBuf/%s/move-keeps-the-write-position" % ("move-assignment" if fn.base.endswith("operator=") else "move-constructor"), keeps, sp[0].loc, fn,
              "the put area of the moved-to buffer starts at the source's write position" if keeps else
              "after the move the put area starts at `%s`: what was written to the source and not yet flushed (status line, headers, pending chunks) is overwritten by the next write"
              % ((sp[0].get("args") or [{}])[0].get("t") or "")[:50])
    ck.require(nmv >= 2, "DynamicStreamBuf move operations that re-seat the put area: %d" % nmv)
    if bulk_msg:
        raise AnalysisBroken(bulk_msg)

    # ---------------- facts shared with C02 ----------------
    ck.borrow("C02", ["C02-R2"], "C05-R6",
              "the status line is `HTTP-version SP status-code SP reason-phrase CRLF`: the code is written in decimal and the space after it "
              "is written unconditionally (an empty reason phrase still needs it)",
              key_pred=lambda k: k.startswith("server-writes"), min_instances=2)

    # ---------------- R1 clause: a refusal comes before the first byte, never after it ----------------
    for wname, wf in sorted(writers.items()):
        late = []
        refuses = lambda e: (e["k"] == "call" and strip_tmpl(e.get("callee") or "") == "Pistache::Async::Promise::rejected") or e["k"] == "throw"
        is_aw = lambda e: e["k"] == "call" and e.base_callee() == "Pistache::Tcp::Transport::asyncWrite"
        for e in [x for x in wf.events(("call", "throw")) if refuses(x)]:
            if any(any(y is e for y in cfg.events_after(wf, a_)) for a_ in wf.events("call") if is_aw(a_)):
                late.append(e)
        # ... nor from a continuation that runs when part of the message has already been written
        for lf in prog.lambdas_in(wf):
            rj = [x for x in lf.events(("call", "throw")) if refuses(x)]
            # (a rejection handler -- it takes the std::exception_ptr of a write that failed -- passes a failure on, it refuses nothing)
            if not rj or any("exception_ptr" in (p_.get("type") or "") for p_ in lf.params):
                continue
            for t_ in wf.events("call"):
                if (t_.get("callee") or "").rsplit("::", 1)[-1] == "then" and any((a_.get("lam") or "").split("#in:")[0] == lf.id.split("#in:")[0] for a_ in t_.get("args", [])):
                    if "asyncWrite" in ((t_.get("recv") or {}).get("t") or t_.get("t") or ""):
                        late.append(rj[0])
        ck.ob("C05-R1", "%s/refusal-only-before-the-first-write" % wname, not late, (late[0].loc if late else wf.loc), wf,
              "every rejected promise / throw of the serialiser lies before anything is handed to asyncWrite" if not late else
              "the refusal at line %s comes after part of the message was handed to asyncWrite: the peer has the head (with its Content-Length) "
              "and never gets the body it announces" % late[0].get("l"))

    # ---------------- R3 clause: what was flushed is not flushed again ----------------
    # (found by the mutation sweep: deleting `buf_.clear()` in ResponseStream::flush survives the repository's tests)
    fl_ = lib.single(prog, RS + "flush")
    aws_ = [e for e in fl_.events("call") if e.base_callee() == "Pistache::Tcp::Transport::asyncWrite"]
    ck.require(aws_, "ResponseStream::flush does not hand its buffer to asyncWrite")
    clears_ = lib.Summaries(prog).lift_must(lambda e: e["k"] == "call" and strip_tmpl(e.get("callee") or "") in ("Pistache::DynamicStreamBuf::clear",) and
                                             ((e.get("recv") or {}).get("f") or "").endswith("ResponseStream::buf_"), "clears-stream-buffer")
    kept_ = [x for x in cfg.exits_without(fl_, clears_, start_block=aws_[0].block, start_idx=aws_[0].idx + 1) if x.kind != "throw"]
    ck.ob("C05-R3", "ResponseStream::flush/buffer-cleared-after-hand-over", not kept_, aws_[0].loc, fl_,
          "buf_.clear() follows the asyncWrite on every path" if not kept_ else
          "flush() can return with the chunks it has just handed to asyncWrite still in buf_: the next flush sends them a second time, and the "
          "peer sees every earlier chunk repeated")

    # ---------------- R7: a writer leaves the caller's stream as it found it ----------------
    ck.rule("C05-R7", "C must-pass-through (sticky stream state)",
            "a library function that writes into a std::ostream it was handed (header, cookie, date, media-type and status-line writers) "
            "and selects another numeric base on it (std::hex, std::oct, setf(hex)) restores the decimal base on every path before it "
            "returns: the flag is sticky, and the next number written to the same stream -- the Content-Length, a status code, a max-age "
            "-- would come out in that base", 1)
    nwr = 0
    for f in prog.library_funcs():
        osp = [p_["name"] for p_ in f.params if "ostream" in (p_.get("type") or "") and "&" in (p_.get("type") or "")]
        if not osp or not f.blocks:
            continue
        nwr += 1

        def manip(ev, names):
            if ev["k"] != "call":
                return False
            if ev.get("op") == "<<" or (ev.get("callee") or "").rsplit("::", 1)[-1] in ("setf", "flags", "operator<<"):
                txt = " ".join((a.get("t") or "") for a in ev.get("args", [])[-2:])
                return any(re.search(r"(^|[^\w])(std::)?(ios(_base)?::)?%s($|[^\w])" % n_, txt) for n_ in names)
            return False
        sets = [e for e in f.events("call") if manip(e, ("hex", "oct"))]
        for e in sets:
            # (or the destructor of a format guard -- a local object whose destructor puts the saved flags back -- declared before)
            guards7 = {d_["var"] for d_ in f.events("decl") if d_.get("var") and any(
                any((c_.get("callee") or "").rsplit("::", 1)[-1] in ("flags", "copyfmt", "setf", "unsetf") for c_ in g_.events("call"))
                for g_ in prog.funcs.values() if g_.blocks and g_.base.rsplit("::", 1)[-1].startswith("~") and
                strip_tmpl(g_.cls or "").rsplit("::", 1)[-1] and strip_tmpl(g_.cls or "").rsplit("::", 1)[-1] in (d_.get("type") or "") + (d_.get("ctor") or ""))
                and cfg.ev_dominates(cfg.dominators(f), d_, e)}
            restores = lambda ev: manip(ev, ("dec",)) or (ev["k"] == "call" and (ev.get("callee") or "").rsplit("::", 1)[-1] in ("flags", "copyfmt") and ev is not e) or \
                (ev["k"] == "dtor" and ev.get("var") in guards7)
            loose = [x for x in cfg.exits_without(f, restores, start_block=e.block, start_idx=e.idx + 1) if x.kind != "throw"]
            ck.ob("C05-R7", "%s/base-restored" % f.base.replace("Pistache::", ""), not loose, e.loc, f,
                  "the decimal base is restored on every path" if not loose else
                  "%s selects another numeric base on the caller's stream at line %s and can return without restoring std::dec: numbers written "
                  "later to the same stream (Content-Length, status code) are printed in that base" % (f.name, e.get("l")))
    ck.require(nwr >= 10, "writers taking a std::ostream&: %d" % nwr)
    ck.ob("C05-R7", "writers-with-a-caller-stream", True, "", "", "%d library functions take a std::ostream&; every base change among them judged above" % nwr, nontrivial=False)

    # ---------------- R9: a moved writer is the writer ----------------
    ck.rule("C05-R9", "E exhaustiveness over the members (hand-written move operations)",
            "handlers park ResponseWriter / ResponseStream objects (move them into a container, a lambda, another thread): the hand-written "
            "move constructor and move assignment of ResponseStream, ResponseWriter and DynamicStreamBuf carry every data member -- a "
            "member they forget (an 'already ended' flag, a byte count) starts from its default in the moved-to object, which then "
            "terminates the stream a second time or frames with the wrong count", 3)
    nmv = 0
    for cn in (RS.rstrip(":"), RW.rstrip(":"), DSB.rstrip(":")):
        c_ = prog.cls(cn)
        ck.require(c_ is not None, "class %s not found" % cn)
        short = cn.rsplit("::", 1)[-1]
        fields = {x["q"]: x for x in c_["fields"]}
        seen_kind = set()
        for f_ in prog.funcs.values():
            if not f_.blocks or strip_tmpl(f_.cls or "") != cn or len(f_.params) != 1 or "&&" not in (f_.params[0].get("type") or "") or short not in (f_.params[0].get("type") or ""):
                continue
            kind = "move-constructor" if f_.d.get("ctor") else ("move-assignment" if f_.base.endswith("::operator=") else None)
            if kind is None or kind in seen_kind:
                continue
            seen_kind.add(kind)
            written = set()
            ff_ = prog.flat(f_)         # (a helper both operations were given since -- `moveFrom(other)` -- is part of them)
            for g_ in [ff_] + [h_ for c2_ in ff_.events("call") if not c2_.get("inlined") for h_ in prog.resolve_call(c2_) if h_.blocks and strip_tmpl(h_.cls or "") == cn]:
              for e in g_.events(("init", "assign", "call")):
                if e["k"] == "init" and e.get("f"):
                    written.add(strip_tmpl(e["f"]))
                elif e["k"] == "assign" and e["lhs"].get("f"):
                    written.add(strip_tmpl(e["lhs"]["f"]))
                elif e["k"] == "call" and (e.get("recv") or {}).get("f") and (e.get("op") == "=" or (e.get("callee") or "").rsplit("::", 1)[-1] in ("swap", "store", "reset", "assign")):
                    written.add(strip_tmpl(e["recv"]["f"]))
            # a delegating move (`*this = std::move(other)` / swap(other)) covers what its target covers: not used here, so not modelled
            missing = sorted(q.rsplit("::", 1)[-1] for q in fields if strip_tmpl(q) not in written)
            nmv += 1
            ck.ob("C05-R9", "%s/%s-carries-every-member" % (short, kind), not missing, f_.loc, f_,
                  "%d members, all carried over" % len(fields) if not missing else
                  "the %s of %s does not carry %s: in the moved-to object it starts from its default" % (kind, short, missing))
    ck.require(nmv >= 3, "hand-written move operations of the response classes found: %d" % nmv)

    # ---------------- R4 clause: end-of-file is told apart on the int_type value ----------------
    # (a byte 0xFF converted to `char` compares equal to EOF where char is signed: the buffer would refuse that one byte, or take it for
    # the end of the data)
    iseof = lambda t_: bool(re.search(r"(traits_type::eof\(\)|char_traits<char>::eof\(\)|::Eof\b|\bEOF\b)", t_ or ""))
    ischar = lambda ty_: re.sub(r"\bconst\b|\s+|&", "", ty_ or "") in ("char", "std::char_traits<char>::char_type", "char_type", "CharT", "signedchar")
    nef, badef = 0, []
    for f in prog.library_funcs():
        if not f.blocks or not ("/src/" in f.file or "/include/pistache/" in f.file) or f.file.startswith(facts.VERIF):
            continue
        for e in f.events(("call", "cmp")):
            if e["k"] == "call" and (e.get("callee") or "").endswith("eq_int_type"):
                nef += 1
                if any(ischar(a_.get("ty")) for a_ in e.get("args", [])):
                    badef.append((f, e))
            elif e["k"] == "cmp":
                l_, r_ = (e.get("lhs") or {}), (e.get("rhs") or {})
                for a_, b_ in ((l_, r_), (r_, l_)):
                    if iseof(b_.get("t")):
                        nef += 1
                        if ischar(a_.get("ty")):
                            badef.append((f, e))
    ck.ob("C05-R4", "eof-compared-as-int_type", not badef, (badef[0][1].loc if badef else ""), (badef[0][0] if badef else ""),
          "%d end-of-file tests in the library, none on a value already narrowed to char" % nef if not badef else
          "%s compares a `char` with end-of-file (line %s): the byte 0xFF is equal to EOF once it is a signed char, so the buffer refuses it or "
          "stops there" % (badef[0][0].name, badef[0][1].get("l")))

    # ---------------- R2 clause: the status that is written is the status that was asked for ----------------
    # (from the mutation sweep: `response_.code_ = code;` deleted from ResponseWriter::stream survives the suite -- every streamed
    # response is then 200 OK)
    ncode = 0
    for f in [g_ for g_ in prog.funcs.values() if g_.blocks and strip_tmpl(g_.cls or "") == RW.rstrip(":")]:
        cps = [p_["name"] for p_ in f.params if re.sub(r"\bconst\b|&|\s+", "", p_.get("type") or "").endswith("Http::Code") or (p_.get("type") or "").strip() in ("Code", "Http::Code")]
        if not cps:
            continue
        sinks = [e for e in f.events(("call", "construct")) if (e.get("callee") or "") == RW + "putOnWire" or "ResponseStream" in (e.get("cls") or "")]
        passes = [e for e in f.events("call") if strip_tmpl(e.get("callee") or "").startswith(RW) and any(a_.get("v") == cps[0] for a_ in e.get("args", []))]
        stores = [e for e in f.events("assign") if ((e.get("lhs") or {}).get("f") or "").endswith("::code_") and (e.get("rhs") or {}).get("v") == cps[0]]
        if not sinks:
            # a forwarding overload: it hands the code on to another member
            ncode += 1
            ck.ob("C05-R2", "%s%s/code-forwarded" % (f.base.replace(H, ""), f.d.get("sig", "")[:40]), bool(passes), f.loc, f, "`%s` is handed on to %s" % (cps[0], passes[0].get("callee") if passes else "nothing"))
            continue
        d_ = cfg.dominators(f)
        okc = bool(stores) and all(any(cfg.ev_dominates(d_, st_, sk_) for st_ in stores) for sk_ in sinks)
        ncode += 1
        ck.ob("C05-R2", "%s/code-stored-before-the-head" % f.base.replace(H, ""), okc, (sinks[0].loc), f,
              "response_.code_ = %s precedes the writer" % cps[0] if okc else
              "%s writes the response without storing its `%s` parameter into the response first: the status line carries the default (200 OK) "
              "whatever the handler asked for" % (f.name, cps[0]))
    ck.require(ncode >= 3, "ResponseWriter members taking a status code: %d" % ncode)

