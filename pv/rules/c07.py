"""C07 — a peer that cannot be written to does not stall other connections.

Decides (all paths): the would-block arm of the drain routine leaves the drain loop without another socket write,
arms write interest on every path, the writable event resumes draining, and arming reaches epoll_ctl(MOD).
Does not decide timing."""
import re
from .. import cfg, lib
from .. import facts
from ..facts import AnalysisBroken, strip_tmpl

T = "Pistache::Tcp::Transport::"
WRITERS = {T + "sendRawBuffer", T + "sendFile"}


def is_write_call(ev):
    if ev["k"] != "call":
        return False
    c = ev.get("callee") or ""
    return c in WRITERS or (c in lib.SOCKET_WRITE_SYSCALLS and not (ev.get("cfile") or "").startswith(facts.REPO))


def run(ck):
    prog = ck.prog
    ck.rule("C07-R1", "C path automaton + bool-flag constant propagation",
            "from the errno==EAGAIN/EWOULDBLOCK arm of Transport::asyncWriteImpl no path reaches another socket write "
            "in the same invocation (loop back-edges are pruned only when the loop flag is known)", 1)
    ck.rule("C07-R2", "C must-pass-through",
            "every path through the would-block arm calls Reactor::modifyFd with NotifyOn::Write in the interest set", 1)
    ck.rule("C07-R3", "C must-pass-through / call graph",
            "the writable arm of Transport::onReady calls asyncWriteImpl on every non-throwing path; Reactor::modifyFd reaches "
            "epoll_ctl; SyncImpl::runOnce re-enters Epoll::poll after every handleFds", 3)
    ck.rule("C07-R4", "C must-pass-through",
            "the would-block arm puts the unwritten tail back at the head of the same FIFO (pop_front then push_front) before leaving", 1)

    summ = lib.Summaries(prog)
    may_write = summ.lift_may(is_write_call, "socket-write")

    def arms_write_direct(ev):
        return ev["k"] == "call" and (ev.get("callee") or "") == "Pistache::Aio::Reactor::modifyFd" and \
            lib.refs_enumerator(ev, "Pistache::Polling::NotifyOn::Write")
    must_arm = summ.lift_must(arms_write_direct, "arm-write-interest")
    f = lib.single(prog, T + "asyncWriteImpl")
    arms = lib.errno_arms(f, lib.WOULD_BLOCK)
    # only arms that follow a socket write
    ck.require(arms, "no errno==EAGAIN/EWOULDBLOCK arm found in %s" % f.name)
    step0 = lib.flag_step(prog, f)
    for arm, conds in sorted(arms.items()):
        site = "%s:%s" % (f.file, f.blocks[conds[0]].term.get("l"))
        key = "asyncWriteImpl/would-block-arm"
        # R1: reach another write?
        hits = []

        def step(st, ev):
            # a helper or local lambda that may write to the socket counts as a write
            if is_write_call(ev) or may_write(ev):
                hits.append(ev)
                return None
            return step0(st, ev)
        cfg.run_automaton(f, frozenset(), step, edge=lib.flag_edge, start=arm)
        ck.ob("C07-R1", key, not hits, site, f,
              ("socket write %s at %s is reachable again from the would-block arm without returning to the event loop"
               % (hits[0].get("callee"), hits[0].loc)) if hits else "no socket write reachable; loop flag forces exit",
              path=["would-block test at %s" % site] + (["reaches %s" % hits[0].loc] if hits else []))

        # R2: must pass modifyFd(... Write ...)
        bad = [x for x in cfg.exits_without(f, must_arm, start_block=arm, avoid_edge=None) if x.kind != "throw"]
        ck.ob("C07-R2", key, not bad, site, f,
              "a path leaves the would-block arm without arming write interest" if bad else "modifyFd(Read|Write) on every path")

        # R4: pop_front then push_front on the same deque
        seq = [e for e in cfg.events_from_block(f, arm, stop=lambda e: e["k"] == "call" and (e.get("callee") or "").endswith("modifyFd"))
               if e["k"] == "call" and (e.base_callee() in ("std::deque::pop_front", "std::deque::push_front"))]
        names = [(e.base_callee().rsplit("::", 1)[1], (e.get("recv") or {}).get("t")) for e in seq]
        ok = len(names) >= 2 and names[0][0] == "pop_front" and names[1][0] == "push_front" and names[0][1] == names[1][1]
        if ok:
            push = seq[1]
            ok = any("deferred" in (a.get("t") or "") or a.get("moved") for a in push.get("args", [])) or "WriteEntry" in push.get("t", "")
        ck.ob("C07-R4", key, ok, site, f, "sequence in arm: %s" % names)

    # R3a: writable arm of onReady resumes draining
    g = lib.single(prog, T + "onReady")
    wblocks = [b for b in g.blocks.values() if b.term and b.term.get("k") in ("if", "cond") and "c:Pistache::Aio::FdSet::Entry::isWritable" in (b.term.get("refs") or [])]
    ck.require(wblocks, "isWritable test not found in Transport::onReady")
    is_drain = summ.lift_must(lambda ev: ev["k"] == "call" and (ev.get("callee") or "") == T + "asyncWriteImpl", "resume-drain")
    for b in wblocks:
        # the edge on which isWritable() holds (`if (w) {..}` or `if (!w) continue;`)
        wk = 1 if b.term.get("neg") else 0
        arm = b.succs[wk]
        heads = {x.id for x in g.blocks.values() if x.term and x.term.get("k") == "rangefor"} | {h for h, _b in cfg.natural_loops(g)}
        missing = []

        def step(st, ev):
            if is_drain(ev):
                return None
            return st

        # a path on which the connection is known to have nothing queued (a predicate over toWrite answered "no entry") has nothing
        # to resume
        nothing_queued = set()
        for lf_ in prog.lambdas_in(g) + [h_ for c_ in g.events("call") for h_ in prog.resolve_call(c_) if h_.blocks and h_.cls == g.cls]:
            rs_ = list(lf_.events("return"))
            if rs_ and all(("f:" + T + "toWrite") in (r_.get("refs") or []) and "!=" in (r_.get("t") or "") for r_ in rs_):
                nothing_queued |= set(lib.result_edges(g, lf_.id if lf_.is_lambda else lf_.base, False)) | set(lib.result_edges(g, lf_.base, False))

        def edge(st, blk, k, succ):
            if (blk.id, k) in nothing_queued:
                return None
            if succ in heads:
                missing.append(blk.id)
                return None
            return st
        exits, _ = cfg.run_automaton(g, 0, step, edge=edge, start=arm)
        bad = [x for x in exits if x.kind != "throw"]
        ck.ob("C07-R3", "onReady/writable-arm->asyncWriteImpl", not bad and not missing, "%s:%s" % (g.file, b.term.get("l")), g,
              "writable event handled without resuming the drain" if (bad or missing) else "asyncWriteImpl(fd) on every non-throwing path")
        # nothing may reduce the interest set after the drain: a would-block inside asyncWriteImpl re-arms Read|Write, and a later
        # modifyFd(Read) in the caller would silently cancel it (the rest of the response would stay queued forever)
        for d_ in [e for e in g.events("call") if is_drain(e) and cfg.edge_dominates(g, b.id, wk, e)]:
            later = [e for e in cfg.events_after(g, d_, stop=lambda e: False) if e["k"] == "call" and (e.get("callee") or "") == "Pistache::Aio::Reactor::modifyFd"
                     and not lib.refs_enumerator(e, "Pistache::Polling::NotifyOn::Write") and e.block not in heads]
            # only events of the same loop iteration: stop at the loop head
            same_iter = [e for e in cfg.events_after(g, d_, edge_ok=lambda blk, k, succ: succ not in heads) if e in later]
            ck.ob("C07-R3", "onReady/no-interest-drop-after-drain", not same_iter, d_.loc, g,
                  "write interest is reset to Read before the drain, never after it" if not same_iter else
                  "modifyFd without NotifyOn::Write at %s runs after asyncWriteImpl: it cancels the write interest armed by a would-block" % same_iter[0].loc)
    # R5: every write moved into a connection's FIFO (re-)arms write interest, unconditionally: the edge-triggered writable
    # notification of an already-armed descriptor may have been consumed together with a readable event (onReady handles only one of
    # the two), and only a fresh EPOLL_CTL_MOD makes the kernel report it again
    ck.rule("C07-R5", "C must-pass-through",
            "in Transport::handleWriteQueue every push into toWrite[fd] is followed, on every path to the next iteration or the exit, by "
            "Reactor::modifyFd with NotifyOn::Write", 1)
    hw = lib.single(prog, T + "handleWriteQueue")
    is_fifo_push = lambda e: e["k"] == "call" and e.base_callee() == "std::deque::push_back" and "WriteEntry" in (e.get("callee") or "")
    nsites, fails = lib.followed_by(prog, summ, hw, is_fifo_push, arms_write_direct, "arm-write-interest",
                                    within=lambda g: g.base.startswith(T) and g.base not in (T + "asyncWriteImpl",))
    ck.require(nsites >= 1, "push into toWrite not found in handleWriteQueue or its helpers")
    ck.ob("C07-R5", "handleWriteQueue/push-arms-write-interest", not fails, fails[0][1].loc if fails and fails[0][1] is not None else hw.loc, hw,
          "modifyFd(Read|Write) after every queued write" if not fails else
          "a write can be queued without re-arming write interest (%s): if the descriptor's writable edge was already consumed, nothing wakes "
          "the worker for this connection again" % fails[0][2])
    # R3b: arming reaches the kernel
    for m in prog.find("Pistache::Aio::Reactor::modifyFd", 2):
        chain = lib.reaches_external(prog, m, {"epoll_ctl"})
        ck.ob("C07-R3", "Reactor::modifyFd%s->epoll_ctl" % m.d.get("sig", ""), chain is not None, m.loc, m,
              "; ".join(chain) if chain else "no call chain to epoll_ctl", path=chain)
    # ... on every path, all the way down: every registration request that reaches the poller ends in epoll_ctl.  With edge-triggered
    # registrations it is the epoll_ctl(MOD) itself -- even with an unchanged mask -- that makes the kernel report a descriptor that is
    # already writable; a request that is dropped on the way as "nothing to change" leaves a parked write parked for ever
    summ_ep = lib.Summaries(prog)
    must_ctl = summ_ep.lift_must(lambda e: e["k"] == "call" and (e.get("callee") or "") == "epoll_ctl", "epoll_ctl")
    for nm_ in ("addFd", "addFdOneShot", "rearmFd", "removeFd"):
        for pf in prog.find("Pistache::Polling::Epoll::" + nm_, 1):
            pf = prog.flat(pf)
            loose = [x for x in cfg.exits_without(pf, must_ctl) if x.kind != "throw"]
            ck.ob("C07-R3", "Epoll::%s/always-epoll_ctl" % nm_, not loose, pf.loc, pf,
                  "every path of Epoll::%s reaches epoll_ctl" % nm_ if not loose else
                  "Epoll::%s can return without calling epoll_ctl: the request to (re-)arm the descriptor is dropped, and an edge-triggered "
                  "descriptor that is already ready is never reported again" % nm_)
    # R3c: runOnce re-enters poll after handleFds
    r = lib.single(prog, "Pistache::Aio::SyncImpl::runOnce")
    hf = [e for e in r.calls(lambda e: (e.get("callee") or "").endswith("SyncImpl::handleFds"))]
    ck.require(hf, "handleFds call not found in SyncImpl::runOnce")
    for e in hf:
        def is_poll(ev):
            return ev["k"] == "call" and (ev.get("callee") or "") == "Pistache::Polling::Epoll::poll"
        after = cfg.events_after(r, e, stop=is_poll)
        reenter = any(is_poll(x) for x in after)
        again = [x for x in after if x["k"] == "call" and (x.get("callee") or "").endswith("SyncImpl::handleFds")]
        # a second handleFds may only be reached through poll
        ck.ob("C07-R3", "runOnce/handleFds->poll", reenter and not again, e.loc, r,
              "poll re-entered after handleFds" if reenter and not again else "handleFds can repeat without polling")

    # R6: the premises of the would-block protocol itself
    ck.rule("C07-R6", "C must-pass-through + D who-may-use",
            "every accepted connection is switched to non-blocking mode before it is handed to a worker (sendfile(2) takes no per-call "
            "flag: on a blocking descriptor it never reports would-block and parks the worker in the kernel); and the interest a worker "
            "arms with modifyFd is persistent — EPOLLONESHOT is set only by the explicit one-shot registration (addFdOneShot), never by "
            "addFd / rearmFd: a one-shot write interest is used up by the next *readable* event and the stalled queue is never resumed", 3)
    L = "Pistache::Tcp::Listener::"
    hn = lib.single(prog, L + "handleNewConnection")
    dp = [e for e in hn.calls(lambda e: (e.get("callee") or "") == L + "dispatchPeer")]
    ck.require(dp, "dispatchPeer call not found in Listener::handleNewConnection")
    mnb = summ.lift_must(lambda e: e["k"] == "call" and (e.get("callee") or "") in ("Pistache::make_non_blocking",), "make-non-blocking")
    blocking = []

    def nb_step(st, ev):
        if mnb(ev):
            return 1
        if any(ev is d_ for d_ in dp) and st == 0:
            blocking.append(ev)
        return st
    cfg.run_automaton(hn, 0, nb_step)
    ck.ob("C07-R6", "handleNewConnection/non-blocking-before-dispatch", not blocking, dp[0].loc, hn,
          "make_non_blocking(client_fd) on every path to dispatchPeer" if not blocking else
          "a connection can reach dispatchPeer without having been made non-blocking: a write the peer does not read blocks the worker")
    EP = "Pistache::Polling::Epoll::"
    nfn = 0
    for fn_ in prog.funcs.values():
        if not fn_.base.startswith(EP) or fn_.is_lambda or not fn_.blocks:
            continue
        uses = [e for e in fn_.events() if "e:EPOLLONESHOT" in (e.get("refs") or []) or e.get("const") == "e:EPOLLONESHOT" or "EPOLLONESHOT" in (e.get("t") or "")]
        if fn_.base in (EP + "addFd", EP + "rearmFd", EP + "addFdOneShot", EP + "toEpollEvents"):
            nfn += 1
            ok_ = (not uses) or fn_.base == EP + "addFdOneShot"
            ck.ob("C07-R6", "%s/one-shot-only-on-request" % fn_.base.replace("Pistache::Polling::", ""), ok_, uses[0].loc if uses else fn_.loc, fn_,
                  "no EPOLLONESHOT" if not uses else ("the explicit one-shot registration" if ok_ else
                  "EPOLLONESHOT is set in %s: the registration made through modifyFd/registerFd is silently one-shot" % fn_.base.rsplit("::", 1)[1]))
    ck.require(nfn >= 3, "Epoll registration functions found: %d" % nfn)

    # ---------------- facts shared with C06 ----------------
    ck.borrow("C06", ["C06-R7"], "C07-R7",
              "what was pending for a stalled connection is delivered intact once it reads again: the bytes a send helper put on the wire "
              "before the socket filled up are reported to asyncWriteImpl (one transmitting call per invocation), so the resumed write "
              "continues behind them instead of repeating them", min_instances=2)
    ck.borrow("C06", ["C06-R4"], "C07-R8",
              "a write that hits would-block more than once continues where it stopped: the holder that detach(offset) re-queues records "
              "exactly the absolute offset it is given", min_instances=2)

    ck.borrow("C06", ["C06-R3"], "C07-R12",
              "the tail a would-block parked at the head of the FIFO is still there when the peer reads again: the drain routine removes an "
              "entry only after it has taken its deferred out (to settle it or to move it into the re-queued entry), and the re-queued entry "
              "carries the unsent tail -- a resumed drain that discards the parked entry never delivers what was pending",
              key_pred=lambda k: k.endswith("no-entry-dropped-unsettled") or k.endswith("requeue-carries-tail"), min_instances=2)

    ck.borrow("C13", ["C13-R3"], "C07-R13",
              "the queue through which responses reach a worker is shared by all its connections, and its wake-up is consumed by the first "
              "pop: the worker moves every queued write to its connection's FIFO whatever state any one connection is in -- a drain that "
              "stops because one peer's FIFO is long (head-of-line blocking) leaves the other peers' responses in the mailbox until the "
              "stalled peer reads again", key_pred=lambda k: k.startswith("drain-loop:Pistache::Tcp::Transport::"), min_instances=3)

    # every readable event of a peer is read (until would-block): the call of handleIncoming in onReady is guarded by what the event says
    # (isReadable, the tag, isPeerFd) and by nothing about the connection's queues -- input that is deliberately left in the socket keeps a
    # level-triggered registration firing and is never reported again by an edge-triggered one
    g14 = lib.single(prog, T + "onReady")
    hin = [e for e in g14.events("call") if (e.get("callee") or "") == T + "handleIncoming"]
    ck.require(hin, "Transport::onReady does not call handleIncoming")
    odd_guards = []
    for e in hin:
        for b in g14.blocks.values():
            if not b.term or len(b.succs) != 2:
                continue
            if any(b.succs[k_] is not None and cfg.edge_dominates(g14, b.id, k_, e) for k_ in (0, 1)):
                refs_ = [r_ for r_ in (b.term.get("refs") or []) if r_.startswith(("c:", "f:"))]
                for r_ in refs_:
                    nm_ = strip_tmpl(r_[2:])
                    if nm_.startswith("Pistache::Aio::FdSet::Entry::") or nm_.startswith("Pistache::Polling::Tag") or nm_.startswith("std::") or \
                            nm_ in (T + "isPeerFd", T + "isTimerFd", T + "peers", T + "timers") or nm_.endswith("::tag") or "PollableQueue" in nm_ or "NotifyFd" in nm_:
                        continue
                    # a predicate of the transport: fine unless it looks at the pending writes
                    looks = any(g_.blocks and any(("f:" + T + "toWrite") in (x_.get("refs") or []) or strip_tmpl(x_.get("f") or "") == T + "toWrite" for x_ in g_.events())
                                for g_ in prog.by_base.get(nm_, [])) or nm_ == T + "toWrite"
                    if looks:
                        odd_guards.append((b, nm_))
    # (a predicate introduced since was expanded into onReady: its call event is still there, marked `inlined`)
    dom14 = cfg.dominators(g14)
    for e in hin:
        for c_ in g14.events("call"):
            nm_ = strip_tmpl(c_.get("callee") or "")
            if c_.get("inlined") and nm_.startswith(T) and cfg.ev_dominates(dom14, c_, e):
                if any(g_.blocks and any(strip_tmpl(x_.get("f") or "") == T + "toWrite" for x_ in g_.events("member")) for g_ in prog.by_base.get(nm_, [])):
                    odd_guards.append((g14.blocks[c_.block], nm_))
    read_always = not odd_guards
    ck.rule("C07-R15", "B purity of a guard",
            "Transport::onReady reads from a peer whenever the event says readable: no test on the way to handleIncoming looks at the "
            "connection's pending writes (back-pressure by not reading leaves input in the socket: a level-triggered registration then "
            "fires on every epoll_wait -- the worker spins -- and an edge-triggered one never reports it again)", 1)
    impure14 = []

    # ---------------- R14: the caller's trigger mode is honoured ----------------
    ck.rule("C07-R14", "B guard of a store (the condition mentions the mode only)",
            "the transport registers and re-arms peer sockets edge-triggered and reads / drains accordingly (until would-block): every Epoll "
            "registration wrapper that takes a mode sets EPOLLET on the `mode == Mode::Edge` edge and on nothing else -- a wrapper that "
            "makes some registrations level-triggered on its own (those with write interest, say) turns input the worker deliberately "
            "leaves unread while a peer is stalled into an event that fires on every epoll_wait: the worker spins", 3)
    for wf in [g_ for g_ in prog.flat_library_funcs() if g_.base.startswith("Pistache::Polling::Epoll::") and g_.blocks and any(p_["name"] == "mode" or "Mode" in (p_.get("type") or "") for p_ in g_.params)]:
        modep = [p_["name"] for p_ in wf.params if "Mode" in (p_.get("type") or "")][:1]
        ets = [e for e in wf.events(("assign", "return", "iret", "decl")) if "e:EPOLLET" in (e.get("refs") or []) or e.get("const") == "e:EPOLLET"]
        ck.require(modep and ets, "%s takes a trigger mode but never sets EPOLLET" % wf.name)
        for e in ets:
            guards = [(b, k) for b in wf.blocks.values() if b.term and len(b.succs) == 2 for k in (0, 1) if b.succs[k] is not None and cfg.edge_dominates(wf, b.id, k, e)]
            # only the tests that lie inside the wrapper's own logic: the innermost one decides (outer ones, e.g. of a caller the
            # wrapper was expanded into, are not about the mode)
            guards = [(b, k) for b, k in guards if ("v:" + modep[0]) in (b.term.get("refs") or []) or any(r_.startswith("v:mode") for r_ in (b.term.get("refs") or []))] or guards
            # `switch (mode) { case Mode::Edge: ev.events |= EPOLLET; break; ... }`
            sw_ok = None
            if not [g_ for g_ in guards if ("v:" + modep[0]) in (g_[0].term.get("refs") or []) or any(r_.startswith("v:mode") for r_ in (g_[0].term.get("refs") or []))]:
                domw = cfg.dominators(wf)
                for b in wf.blocks.values():
                    if (b.term or {}).get("k") != "switch":
                        continue
                    refs_ = {r_.split("@")[0] if r_.startswith("v:") else r_ for r_ in (b.term.get("refs") or [])}
                    for s_ in b.succs:
                        lab_ = (wf.blocks[s_].label or {}) if s_ in wf.blocks else {}
                        if lab_.get("k") == "case" and (s_ == e.block or s_ in domw.get(e.block, ())):
                            only_from_switch = all(p_ == b.id for p_ in wf.blocks[s_].preds)
                            sw_ok = str(lab_.get("const") or "").endswith("Mode::Edge") and only_from_switch and not (refs_ - {"v:" + modep[0], "v:mode"})
            if sw_ok is not None:
                ck.ob("C07-R14", "%s/EPOLLET-iff-edge-mode" % wf.base.replace("Pistache::Polling::", ""), sw_ok, e.loc, wf,
                      "EPOLLET is set under `case Mode::Edge` of a switch over the mode" if sw_ok else
                      "EPOLLET is set under a case label that is not (only) Mode::Edge of a switch over the caller's mode")
                continue
            tern = re.search(r"\(?\s*([^?()]*)\)?\s*\?[^:]*EPOLLET", e.get("t") or "")
            if not guards and tern:
                # `return (mode == Mode::Edge) ? (bits | EPOLLET) : bits;`
                condt = tern.group(1)
                okt = bool(re.match(r"^\s*\w+\s*==\s*(\w+::)*Mode::Edge\s*$", condt))
                ck.ob("C07-R14", "%s/EPOLLET-iff-edge-mode" % wf.base.replace("Pistache::Polling::", ""), okt, e.loc, wf,
                      "EPOLLET chosen by `%s`" % condt.strip() if okt else "EPOLLET chosen by `%s`, not by the caller's mode alone" % condt.strip())
                continue
            pure = bool(guards)
            on_edge = False
            for b, k in guards:
                refs_ = {r_.split("@")[0] if r_.startswith("v:") else r_ for r_ in (b.term.get("refs") or [])}
                if refs_ - {"v:" + modep[0], "v:mode", "e:Pistache::Polling::Mode::Edge", "e:Pistache::Polling::Mode::Level"}:
                    pure = False
                r_ = lib.rel_on_edge(b.term, k)
                if r_ is not None and r_[1] == "==" and "Mode::Edge" in ((r_[2].get("t") or "") + (r_[0].get("t") or "") + str(b.term.get("rconst"))):
                    on_edge = True
                if r_ is not None and r_[1] == "!=" and "Mode::Level" in ((r_[2].get("t") or "") + (r_[0].get("t") or "") + str(b.term.get("rconst"))):
                    on_edge = True
                if r_ is not None and r_[1] == "==" and "Mode::Level" in ((r_[2].get("t") or "") + (r_[0].get("t") or "") + str(b.term.get("rconst"))):
                    on_edge = False
            if not (pure and on_edge):
                impure14.append(wf.name)
            if not (pure and on_edge) and read_always:
                ck.note("C07-R14: %s does not derive EPOLLET from the caller's mode alone; harmless as long as every readable event is read (C07-R15 holds)" % wf.name)
            ck.ob("C07-R14", "%s/EPOLLET-iff-edge-mode" % wf.base.replace("Pistache::Polling::", ""), (pure and on_edge) or read_always, e.loc, wf,
                  "EPOLLET is set on the mode == Edge edge, whose condition mentions the mode only" if pure and on_edge else
                  "EPOLLET does not follow the caller's mode alone, but every readable event is read (C07-R15): no input is left to re-fire" if read_always else
                  "whether %s registers edge-triggered does not depend on the caller's mode alone (guards: %s): some registrations the "
                  "transport asks for as edge-triggered are made level-triggered" % (wf.name, [b.term.get("cond") for b, _k in guards]))

    # (leaving input unread on purpose is sound with edge-triggered registrations -- the re-arm after the drain reports it again -- and
    # harmful only together with a registration that is not edge-triggered: the two clauses are judged together)
    if not read_always and not impure14:
        ck.note("C07-R15: onReady skips the read of a readable peer depending on %s; harmless while every registration follows the caller's edge mode (C07-R14 holds)" % odd_guards[0][1])
    ck.ob("C07-R15", "onReady/readable-is-always-read", read_always or not impure14, (hin[0].loc), g14,
          "handleIncoming is guarded by the event and the tag only" if read_always else
          ("the read is conditional, but every registration is edge-triggered as asked (the re-arm reports the input again)" if not impure14 else
           "the read of a readable peer is skipped depending on %s, which looks at the pending writes, and %s does not register edge-triggered as asked: "
           "the unread input fires on every epoll_wait" % (odd_guards[0][1].replace("Pistache::Tcp::", ""), impure14[0])), structural=True)

    # ---------------- R9: an idle worker sleeps in epoll_wait ----------------
    ck.rule("C07-R9", "dataflow identity",
            "Epoll::poll hands its timeout parameter to epoll_wait unchanged (through casts only), and the reactor's loop calls it with "
            "the default of -1 ms: a negative time-out means 'wait until something happens' -- turned into 0 (a clamp, a max, a "
            "conditional) the worker spins through an empty event loop for as long as a connection is blocked", 2)
    ep = lib.single(prog, "Pistache::Polling::Epoll::poll")
    ew = [e for e in ep.calls(lambda e: (e.get("callee") or "") == "epoll_wait")]
    ck.require(ew and len(ew[0].get("args", [])) >= 4, "epoll_wait call not found in Epoll::poll")
    tparam = [p_["name"] for p_ in ep.params if "chrono" in (p_.get("type") or "") or "milliseconds" in (p_.get("type") or "")]
    ck.require(tparam, "timeout parameter of Epoll::poll not found")

    def norm_(t_):
        t_ = re.sub(r"\s+", "", t_ or "")
        while True:
            m_ = re.match(r"^(?:static_cast<[^<>]*>|\(int\)|int)\((.*)\)$", t_)
            if m_:
                t_ = m_.group(1)
                continue
            if t_.startswith("(") and t_.endswith(")"):
                t_ = t_[1:-1]
                continue
            return t_
    a4 = ew[0]["args"][3]
    expr = norm_(a4.get("t"))
    seen_ = set()
    while a4.get("v") and expr == a4["v"] and expr not in seen_:
        seen_.add(expr)
        dl = [d_ for d_ in ep.events("decl") if d_.get("var") == a4["v"]]
        if not dl:
            break
        expr = norm_((dl[0].get("init") or {}).get("t"))
        a4 = dl[0].get("init") or {}
    same = expr == "%s.count()" % tparam[0]
    floors = re.search(r"clamp(<[^>]*>)?\([^,]*,0[,)]|max(<[^>]*>)?\((0,|[^,]*,0\))|<=?0\?0:|>=?0\?[^:]*:0$", expr) is not None
    if not same and not floors:
        # some other computation of the time-out: this rule knows the identity and the floor-at-zero patterns, nothing else
        raise AnalysisBroken("C07-R9: the time-out handed to epoll_wait is computed as `%s`, a form this rule cannot judge" % expr[:100])
    ck.ob("C07-R9", "Epoll::poll/timeout-unchanged", same, ew[0].loc, ep,
          "epoll_wait(..., int(%s.count()))" % tparam[0] if same else
          "epoll_wait is given `%s`, not the caller's time-out itself: a negative (infinite) time-out does not survive" % expr[:90])
    ro = lib.single(prog, "Pistache::Aio::SyncImpl::runOnce")
    pc = [e for e in ro.calls(lambda e: (e.get("callee") or "") == "Pistache::Polling::Epoll::poll")]
    ck.require(pc, "Epoll::poll call not found in SyncImpl::runOnce")
    for e in pc:
        a_ = e.get("args") or []
        tm = a_[1] if len(a_) > 1 else {}
        infinite = (tm.get("dflt") and "-1" in (tm.get("dt") or tm.get("t") or "")) or re.search(r"\(-1\)|-1ms", re.sub(r"\s+", "", tm.get("t") or "")) is not None
        ck.ob("C07-R9", "SyncImpl::runOnce/waits-without-limit", bool(infinite), e.loc, ro,
              "poller.poll(events) with the default time-out of -1 ms" if infinite else
              "runOnce polls with `%s`: with a finite (or zero) time-out the loop wakes up although nothing happened" % (tm.get("t") or "")[:60])

    # ---------------- R10: a descriptor is not a set of send flags ----------------
    ck.rule("C07-R10", "type-level (declared types of arguments vs. parameter roles) over every call site of the transport",
            "in transport.cc no expression of declared type Fd (a descriptor) is bound to a parameter that carries socket flags (a "
            "parameter named *flag* of a library constructor / function, or the flags argument of send / sendfile-style libc calls): a "
            "re-queued or resumed write sent with its descriptor number as flags (MSG_OOB = 1, MSG_DONTROUTE = 4, ...) is mangled by the "
            "kernel for some descriptor values only", 3)
    nflag = 0
    for g in prog.funcs.values():
        if not (g.file.endswith("/common/transport.cc") or g.file.endswith("/pistache/transport.h")):
            continue
        for e in g.events(("call", "construct")):
            cid = e.get("cid") or ""
            args = e.get("args") or []
            pn = None
            if cid in prog.funcs:
                pn = [p_.get("name") or "" for p_ in prog.funcs[cid].params]
            elif (e.get("callee") or "") in ("send", "sendto", "sendmsg", "recv"):
                pn = ["fd", "buf", "len", "flags"] + ["x"] * 4
            if not pn:
                continue
            for i_, a in enumerate(args):
                if i_ >= len(pn) or "flag" not in pn[i_].lower() or a.get("dflt"):
                    continue
                nflag += 1
                ty = (a.get("vt") or a.get("ty") or "")
                isfd = ty.replace("const ", "").strip() in ("Pistache::Fd", "Fd") or (a.get("v") or "") in ("fd", "peerFd", "peer_fd", "sockfd")
                own = prog.owner(g)
                ck.ob("C07-R10", "%s: %s(%s)" % (own.base.replace(T, ""), facts.strip_tmpl(e.get("callee") or e.get("cls") or "").rsplit("::", 1)[-1], pn[i_]), not isfd, e.loc, g,
                      "flags argument `%s` is not a descriptor" % (a.get("t") or "")[:40] if not isfd else
                      "`%s` (a descriptor, declared %s) is passed as the flags of %s" % ((a.get("t") or "")[:40], ty, (e.get("t") or "")[:70]))
    ck.require(nflag >= 3, "only %d flag-carrying arguments found in transport.cc" % nflag)

    # ---------------- facts shared with C08 ----------------
    ck.borrow("C08", ["C08-R1"], "C07-R11",
              "what is pending for a stalled connection is dropped only when the peer itself is gone or its idle time-out has been answered: "
              "handlePeerDisconnection (which erases toWrite[fd]) is called only from the read loop and from the continuation of the queued "
              "408 -- which is sent *behind* the pending data; a direct call from anywhere else releases a connection that is merely "
              "blocked and nothing pending for it is ever delivered",
              key_pred=lambda k: "handlePeerDisconnection" in k, min_instances=1)
