"""C17 — cookies survive write/parse and a Cookie header yields exactly its pairs.

Decides: attribute-name table agreement between Cookie::write and Cookie::fromRaw (each name mapped to the same member),
bounded reads in cookie.cc, keyed keep-first insertion into the jar and jar clearing before a Cookie header is re-parsed.
Equality of the parsed cookie, iteration and rejection of every malformed text are value-level and not decided."""
import re
from .. import cfg, lib, facts, tables
from ..facts import AnalysisBroken, strip_tmpl

H = "Pistache::Http::"
MEMBERS = ("path", "domain", "maxAge", "expires", "secure", "httpOnly")


def run(ck):
    prog = ck.prog
    ck.rule("C17-R1", "H writer/reader table agreement",
            "every attribute name Cookie::write emits is matched by Cookie::fromRaw and bound to the same Cookie member "
            "(Path, Domain, Max-Age, Expires, Secure, HttpOnly), and is written whenever the member is present", 12)
    ck.rule("C17-R2", "G bounded-buffer taint",
            "cookie.cc passes pointers into the raw header text only to length-bounded sinks", 1)
    ck.rule("C17-R3", "I keyed keep-first insertion",
            "CookieJar::add stores with unordered_map::insert keyed by name and value; HeadersStep clears the jar before re-adding the pairs "
            "of a Cookie header (so a rolled-back step re-parses idempotently)", 2)

    w = lib.single(prog, H + "Cookie::write")
    # writer: every insertion of a literal that names an attribute ("; Secure", "Path=", ...) and the tests that decide whether it is
    # reached.  An attribute is written exactly when it is present: the deciding tests are presence tests of one member
    # (`m.has_value()`, `if (m)`, a bool member) and nothing else -- a test on the attribute's *value* drops some values on the way out
    wmap, wguard = {}, {}
    wdom = cfg.dominators(w)

    def arg_lit(a, blk):
        """a literal argument, or a parameter of an expanded helper that was handed one"""
        c = a.get("const")
        if not (isinstance(c, str) and c.startswith("s:")) and a.get("v") and "@" in a["v"]:
            c = (lib.bound_init(w, a["v"], blk, wdom) or {}).get("const")
        return c[2:] if isinstance(c, str) and c.startswith("s:") else None
    for e in w.calls(lambda e: e.get("op") == "<<"):
        lits = [l_ for l_ in (arg_lit(a, e.block) for a in e.get("args", [])) if l_ is not None]
        name = None
        for l in lits:
            n = l.strip("; =").strip()
            if n and re.match(r"^[A-Za-z][A-Za-z-]*$", n):
                name = n
        if not name:
            continue
        guards = []
        for b in w.blocks.values():
            t = b.term
            if not t or t.get("k") != "if" or len(b.succs) != 2:
                continue
            for k_ in (0, 1):
                if b.succs[k_] is not None and cfg.edge_dominates(w, b.id, k_, e):
                    guards.append((b, k_))
        mems = set()
        odd = []
        for b, k_ in guards:
            t = b.term
            trefs = list(t.get("refs") or [])
            # (a parameter of an expanded helper stands for the member it was handed)
            for r in list(trefs):
                if r.startswith("v:") and "@" in r:
                    bi = lib.bound_init(w, r[2:], b.id, wdom) or {}
                    if bi.get("f"):
                        trefs.append("f:" + bi["f"])
            ms = {r.rsplit("::", 1)[1] for r in trefs if r.startswith("f:" + H + "Cookie::") and r.rsplit("::", 1)[1] in MEMBERS}
            core_t = re.sub(r"\s+", "", (t.get("core") or {}).get("t") or "")
            presence = len(ms) == 1 and not t.get("cmp") and (k_ == 0) != bool(t.get("neg")) and \
                re.match(r"^(this->)?%s(\.has_value\(\))?$" % re.escape(next(iter(ms))), core_t) is not None
            if presence:
                mems |= ms
            else:
                odd.append(t.get("cond") or "")
        if len(mems) == 1:
            wmap[next(iter(mems))] = name
            wguard[name] = odd
        elif name not in wmap.values():
            wguard.setdefault(name, odd or ["<no presence test of an attribute member>"])
            wmap.setdefault("?" + name, name)
    ck.require(len([m for m in wmap if not m.startswith("?")]) >= 5, "attribute writers found in Cookie::write: %s" % wmap)
    r = lib.single(prog, H + "Cookie::fromRaw")
    rmap = {}
    for e in r.calls(lambda e: strip_tmpl(e.get("callee") or "").endswith("::match_attribute")):
        args = e.get("args") or []
        lit = args[0].get("const")
        mem = (args[-1].get("t") or "").rsplit("::", 1)[-1]
        if isinstance(lit, str) and lit.startswith("s:"):
            rmap[lit[2:]] = mem
    if not rmap:
        # table-driven reader: a namespace-scope table whose rows are {"Name", length, lambda}, each lambda forwarding to
        # match_attribute with the member pointer.  Rows and lambdas are paired by their order in the file.
        for v in prog.vars:
            if not (v.get("file") or "").endswith("/common/cookie.cc"):
                continue
            lits = re.findall(r'\{\s*"([^"]+)"\s*,', v.get("init") or "")
            lams_ = sorted([g for g in prog.funcs.values() if g.is_lambda and g.file == v.get("file") and g.parent not in prog.funcs and g.line >= (v.get("line") or 0) and
                            any(strip_tmpl(c_.get("callee") or "").endswith("::match_attribute") for c_ in g.events("call"))], key=lambda g: (g.line, g.id))
            if lits and len(lits) == len(lams_):
                for lit_, g in zip(lits, lams_):
                    for c_ in g.calls(lambda c_: strip_tmpl(c_.get("callee") or "").endswith("::match_attribute")):
                        rmap[lit_] = ((c_.get("args") or [{}])[-1].get("t") or "").rsplit("::", 1)[-1]
    ck.require(len(rmap) >= 6, "match_attribute calls found in Cookie::fromRaw: %s" % rmap)
    for mem, name in sorted(wmap.items()):
        got = rmap.get(name)
        if not mem.startswith("?"):
            ck.ob("C17-R1", "attribute:%s" % name, got == mem, w.loc, w,
                  "written for Cookie::%s, read back into Cookie::%s" % (mem, got) if got else "written for Cookie::%s but no matcher reads %r" % (mem, name))
        odd = wguard.get(name) or []
        ck.ob("C17-R1", "attribute:%s/written-whenever-present" % name, not odd and not mem.startswith("?"), w.loc, w,
              "decided by the presence of Cookie::%s alone" % mem if not odd and not mem.startswith("?") else
              "whether %s is written also depends on `%s`: a cookie whose attribute is present but fails that test is written without it "
              "and does not parse back equal" % (name, "`, `".join(odd)[:120]))

    # Expires is written in the four-digit-year form (FullDate::write's default, RFC 1123): the two-digit-year forms are parsed
    # into 1969..2068 only
    fw = [e for e in w.calls(lambda e: (e.get("callee") or "") == H + "FullDate::write")]
    ck.require(fw, "FullDate::write not found in Cookie::write")
    for e in fw:
        a = e.get("args") or []
        fmt = a[1] if len(a) > 1 else {}
        ok = fmt.get("dflt") and "RFC1123" in (fmt.get("dt") or "RFC1123") or "RFC1123" in (fmt.get("t") or "")
        ck.ob("C17-R1", "Expires/four-digit-year-format", bool(ok), e.loc, w, "value.write(os%s)" % ("" if fmt.get("dflt") else ", " + (fmt.get("t") or "")))
    # every attribute member is written by its matcher only: no later statement of fromRaw clears or overrides one attribute because of
    # another
    wr_ = [e for e in r.events(("assign", "call")) if (e["k"] == "assign" and (e["lhs"].get("f") or "").startswith(H + "Cookie::") and (e["lhs"].get("f") or "").rsplit("::", 1)[1] in MEMBERS)
           or (e["k"] == "call" and ((e.get("recv") or {}).get("f") or "").startswith(H + "Cookie::") and ((e.get("recv") or {}).get("f") or "").rsplit("::", 1)[1] in MEMBERS
               and lib.is_stl_mutation(e))]
    # ... nor hands one to a function that may modify it (a parameter of non-const reference or pointer type)
    for e in r.events("call"):
        cps = e.get("cparams") or []
        for i_, a_ in enumerate(e.get("args", [])):
            fq = a_.get("f") or ""
            if fq.startswith(H + "Cookie::") and fq.rsplit("::", 1)[1] in MEMBERS and i_ < len(cps):
                pt = cps[i_].strip()
                if (pt.endswith("&") or pt.endswith("*")) and not pt.startswith("const ") and "const &" not in pt and not (e.get("callee") or "").startswith("std::"):
                    wr_.append(e)
    ck.ob("C17-R1", "fromRaw/attributes-written-only-by-matchers", not wr_, wr_[0].loc if wr_ else r.loc, r,
          "Cookie::fromRaw itself never assigns or resets an attribute member" if not wr_ else
          "`%s` changes an attribute outside its matcher: a written cookie that carries this combination of attributes is not parsed back equal" % (wr_[0].get("t") or "")[:60])

    n = 0
    for f in prog.funcs.values():
        if not f.file.endswith("/common/cookie.cc"):
            continue
        for e, sink, arg, bounded in lib.taint_flows(f):
            n += 1
            ck.ob("C17-R2", "%s:%s" % (f.base.replace("Pistache::", ""), sink), bounded, e.loc, f, "length-bounded" if bounded else "%s on the raw cookie text (%s)" % (sink, arg))
    # cookie.cc builds strings through Token::text(), i.e. std::string(gptr, size()): verify that helper instead when no direct flow exists
    tok = lib.single(prog, "Pistache::StreamCursor::Token::text")
    cons = [e for e in tok.events("construct") if strip_tmpl(e.get("cls") or "") == "std::basic_string" and len([a for a in e.get("args", []) if not a.get("dflt")]) >= 2]
    ck.ob("C17-R2", "Token::text/bounded-copy", bool(cons), tok.loc, tok, "std::string(gptr, size())")

    add = lib.single(prog, H + "CookieJar::add")
    # every way CookieJar::add puts something into its (nested) maps keeps what is already there: insert / emplace / try_emplace, or
    # operator[] used as get-or-create; never `m[k] = v` / insert_or_assign / erase-then-insert
    muts = [e for e in add.calls(lambda e: lib.is_stl_mutation(e) and lib.is_assoc_call(e))]
    def keepfirst(e):
        nm = e.base_callee().rsplit("::", 1)[1]
        if not lib.is_unique_assoc_call(e):
            return False
        return nm in ("insert", "emplace", "try_emplace", "emplace_hint") or (nm == "operator[]" and not lib.is_subscript_store(add, e))
    names = sorted({e.base_callee().rsplit("::", 1)[1] for e in muts})
    ck.ob("C17-R3", "CookieJar::add/keyed-insert", bool(muts) and all(keepfirst(e) for e in muts), add.loc, add, "stores with %s" % names)
    hs = lib.single(prog, H + "Private::HeadersStep::apply")
    # in the step itself or in the private helper of the step that handles the cookie headers
    hreg = lib.region(prog, hs, within=lambda g_: g_.cls == hs.cls and g_.cls)
    afr = [e for g_ in hreg for e in g_.calls(lambda e: (e.get("callee") or "") == H + "CookieJar::addFromRaw")]
    ok = bool(afr)
    for a in afr:
        g_ = a.func
        d = cfg.dominators(g_)
        clr = [e for e in g_.calls(lambda e: (e.get("callee") or "") == H + "CookieJar::removeAllCookies")]
        ok = ok and bool(clr) and cfg.ev_dominates(d, clr[0], a) and a.block == clr[0].block
    ck.ob("C17-R3", "HeadersStep/jar-cleared-before-readd", ok, afr[0].loc if afr else hs.loc, hs, "removeAllCookies() immediately precedes addFromRaw()")

    # malformed attribute values are errors: nothing in cookie.cc swallows an exception (a handler that completes normally turns a
    # malformed cookie into an accepted one with the attribute silently missing)
    nh = 0
    for f in prog.funcs.values():
        if not f.file.endswith("/common/cookie.cc"):
            continue
        for hb in [b for b in f.blocks.values() if b.label and b.label.get("k") == "catch"]:
            nh += 1
            quiet = [x for x in cfg.exits_without(f, lambda e: e["k"] == "throw", start_block=hb.id) if x.kind != "throw"]
            ck.ob("C17-R1", "%s/catch(%s)-rethrows" % (f.base.replace(H, ""), hb.label.get("type")), not quiet, "%s:%s" % (f.file, hb.label.get("l")), f,
                  "the handler throws on every path" if not quiet else
                  "the handler for %s completes normally: the malformed value that raised it is accepted as if the attribute were absent" % hb.label.get("type"))
    ck.note("C17-R1: %d catch handler(s) in cookie.cc" % nh)

    # cookie names and values are compared exactly: the jar's two map levels use the default hash and equality of std::string (a
    # case-insensitive key type would merge `sid` and `SID`, which are different cookies, and answer has()/get() for names the header
    # never listed)
    jar = prog.cls(H + "CookieJar")
    jf = [x for x in jar["fields"] if "unordered_map" in (x.get("ctype") or x["type"]) or "map<" in (x.get("ctype") or x["type"])]
    ck.require(jf, "CookieJar has no map member")
    for x in jf:
        ct = (x.get("ctype") or x["type"]).replace(" ", "")
        # std::unordered_map<K, V> with the defaults prints with exactly two template arguments at each level
        custom = bool(re.search(r"Lowercase|Hash|Equal|Compare|less<|greater<", ct))
        multi = bool(re.search(r"multimap|multiset", ct))
        ck.ob("C17-R3", "type:CookieJar::%s/unique-keys" % x["name"], not multi, "%s:%s" % (jar["file"], x.get("line") or 0), "",
              "unique keys at every level" if not multi else
              "CookieJar::%s is declared %s: a multimap keeps every insertion, so a cookie added twice (a Set-Cookie line parsed again after a "
              "roll-back, the same pair listed twice) is stored and iterated twice" % (x["name"], ct[:160]), nontrivial=False)
        ck.ob("C17-R3", "type:CookieJar::%s/exact-keys" % x["name"], not custom, "%s:%s" % (jar["file"], x.get("line") or 0), "",
              "declared %s" % ct[:120] if not custom else
              "CookieJar::%s is declared %s: names (or values) that differ are treated as the same key" % (x["name"], ct[:160]), nontrivial=False)

    # ---------------- facts shared with C03 ----------------
    ck.borrow("C03", ["C03-R8"], "C17-R4",
              "malformed cookie text ends in an error, never in a parser that spins: every iteration of the attribute loop of Cookie::fromRaw "
              "and of the pair loop of CookieJar::addFromRaw definitely consumes input",
              key_pred=lambda k: "Cookie" in k, min_instances=2)
    lib.no_stale_static_rule(ck, "C17-R5", ('cookie.cc',), "the cookie reader and writer")
    ck.borrow("C18", ["C18-R1"], "C17-R6",
              "the attribute names of a cookie are recognised with match_string, which compares only after it has established that as many "
              "bytes as the name is long are left in the text: cookie text that ends in the beginning of an attribute name is not read past its end",
              key_pred=lambda k: k.startswith("match_string") or k.startswith("match_raw"), min_instances=2)

    # ---------------- value classes do not point into themselves ----------------
    lib.self_view_rule(ck, "C17-R7", ['Pistache::Http::Cookie', 'Pistache::Http::CookieJar'],
                       "cookies and jars are copied freely (CookieJar::add copies the cookie, iterators hand out copies)")

    # ---------------- R8: no empty bucket in the jar ----------------
    ck.rule("C17-R8", "D who-may-mutate (container invariant)",
            "the jar files cookies in buckets by name (a map of maps) and its iterator, get() and has() take a bucket for 'at least one "
            "cookie of that name' -- the iterator dereferences the bucket's begin() unconditionally.  Buckets are created with their "
            "first cookie and nothing takes cookies out of a bucket: the only removal in CookieJar is of whole buckets (clear / erase on "
            "the outer table)", 1)
    jar = prog.cls("Pistache::Http::CookieJar")
    ck.require(jar is not None, "CookieJar not found")
    outer = [x for x in jar["fields"] if "map<" in (x.get("ctype") or "")]
    ck.require(len(outer) == 1, "CookieJar storage field: %s" % [x["name"] for x in outer])
    oct_ = outer[0]["ctype"]
    i2 = oct_.find("map<", oct_.find("map<") + 1)
    nested = i2 > 0
    REMOVERS8 = ("clear", "erase", "extract", "swap", "pop_back", "pop_front")
    rem_outer, rem_inner = [], []
    for f in prog.funcs.values():
        if not f.blocks or not (f.cls == "Pistache::Http::CookieJar" or (f.is_lambda and prog.owner(f).cls == "Pistache::Http::CookieJar")):
            continue
        for e in f.events("call"):
            nm = (e.get("callee") or "").rsplit("::", 1)[-1]
            if nm not in REMOVERS8 or "map<" not in (e.get("ccls") or ""):
                continue
            if (e.get("ccls") or "") == oct_:
                rem_outer.append((e, f))
            elif nested and (e.get("ccls") or "") in oct_:
                rem_inner.append((e, f))
    ck.ob("C17-R8", "CookieJar/buckets-never-emptied", not rem_inner, (rem_inner[0][0].loc if rem_inner else "%s:%s" % (jar.get("file"), jar.get("line"))),
          (rem_inner[0][1] if rem_inner else ""),
          "removals on the outer table: %d; none on a bucket%s" % (len(rem_outer), "" if nested else " (storage is not nested)") if not rem_inner else
          "%s at line %s empties or shrinks a bucket and leaves it in the table: the iterator dereferences begin() of an empty bucket, and a "
          "name without cookies is still 'there'" % (rem_inner[0][0].get("t"), rem_inner[0][0].get("l")))

    # ---------------- R9: one way into the jar ----------------
    ck.rule("C17-R9", "D who-may-write",
            "cookies get into a jar through CookieJar::add only (keep-first by name and value) and leave it through removeAllCookies only: "
            "no other member function mutates the storage -- a bulk path (merge, swap, operator[]) has its own idea of what happens to a "
            "name that is already there, and a pair the header lists is then dropped or replaces another", 2)
    stor = outer[0]["q"]
    nmut = 0
    for f in prog.funcs.values():
        if not f.blocks or not (strip_tmpl(f.cls or "") == "Pistache::Http::CookieJar" or (f.is_lambda and strip_tmpl(prog.owner(f).cls or "") == "Pistache::Http::CookieJar")) or f.d.get("ctor"):
            continue
        for fld_, how, ev in lib.direct_writes(f):
            if strip_tmpl(fld_) != strip_tmpl(stor):
                continue
            nmut += 1
            ownb = prog.owner(f).base.rsplit("::", 1)[-1]
            ok_ = ownb in ("add", "removeAllCookies", "operator=")
            ck.ob("C17-R9", "CookieJar::%s/%s" % (ownb, how), ok_, ev.loc, f,
                  "storage changed by %s" % ownb if ok_ else
                  "CookieJar::%s changes the jar's storage directly (%s) instead of going through add(): what it does with a name or pair that "
                  "is already in the jar is not add()'s keep-first" % (ownb, how))
    ck.require(nmut >= 2, "mutations of the jar's storage found: %d" % nmut)

    # ---------------- R1 clause: an extension attribute is written as name=value, whatever the value ----------------
    cw_ = lib.single(prog, "Pistache::Http::Cookie::write")
    EXT = "f:Pistache::Http::Cookie::ext"
    nloop = 0
    for hdr, body in cfg.natural_loops(cw_):
        # the loop that walks Cookie::ext: its range / iterators are initialised from that member
        over_ext = any(EXT in (e.get("refs") or []) for b_ in (set(body) | set(cw_.blocks[hdr].preds)) if b_ in cw_.blocks for e in cw_.blocks[b_].elems if e["k"] in ("decl", "call")) or \
            EXT in ((cw_.blocks[hdr].term or {}).get("refs") or [])
        ins = [e for b_ in body for e in cw_.blocks[b_].elems if e["k"] == "call" and e.get("op") == "<<"]
        if not over_ext or not ins:
            continue
        nloop += 1
        is_eq = lambda e: e["k"] == "call" and e.get("op") == "<<" and any(a_.get("const") in ("s:=", "c:61") for a_ in (e.get("args") or [])[-1:])
        bare = []

        def st_(st, ev):
            if is_eq(ev):
                return 1
            return st

        def ed_(st, blk, k, succ):
            if succ == hdr and blk.id != hdr:
                if st == 0:
                    bare.append(blk.id)
                return None
            if succ not in body:
                return None
            return st
        for s0 in [x_ for x_ in cw_.blocks[hdr].succs if x_ is not None and x_ in body]:
            cfg.run_automaton(cw_, 0, st_, edge=ed_, start=s0)
        # a bare extension token is harmless while the reader keeps every token of its extension branch (one without '=' is stored with
        # an empty value): it loses data only together with a reader that gives up when it finds no '='
        fr_ = lib.single(prog, "Pistache::Http::Cookie::fromRaw")
        ext_ins = lambda e: e["k"] == "call" and e.base_callee() in ("std::map::insert", "std::unordered_map::insert", "std::map::emplace", "std::unordered_map::emplace", "std::map::try_emplace", "std::unordered_map::try_emplace", "std::map::operator[]", "std::unordered_map::operator[]") and \
            ((e.get("recv") or {}).get("f") or "").endswith("Cookie::ext")
        reader_drops = False
        for bid_, k_ in lib.result_edges(fr_, "Pistache::match_until", False):
            arm_ = fr_.blocks[bid_].succs[k_]
            if arm_ is not None and [x for x in cfg.exits_without(fr_, ext_ins, start_block=arm_) if x.kind != "throw"]:
                reader_drops = True
        if bare and not reader_drops:
            ck.note("C17-R1: Cookie::write can write an extension attribute without '='; harmless while Cookie::fromRaw stores every token of its extension branch")
            bare = []
        ck.ob("C17-R1", "Cookie::write/ext-name-always-followed-by-=", not bare, ins[0].loc, cw_,
              "every way round the loop over the extension attributes writes '=' (or the reader keeps bare tokens)" if not bare else
              "an extension attribute can be written without its '=' (block %s): Cookie::fromRaw reads an extension as name '=' value, a bare "
              "token is something else to it" % bare[0])
    if not nloop:
        ck.note("C17-R1: the loop over Cookie::ext in Cookie::write was not recognised: the name=value clause of extension attributes is not decided")
