"""C18 — media types survive write/parse; invalid ones are rejected cleanly.

Decides: no read past the given length in MediaType::parseRaw and what it calls, agreement of the matched literals with the
printed ones, every syntactic failure raises HttpError(Unsupported_Media_Type), case folding with tolower on both sides,
rounding of the quality value.  Quality formatting and parameter round trip are value-level and not decided."""
import re
from .. import cfg, lib, facts, tables
from ..facts import AnalysisBroken, strip_tmpl

M = "Pistache::Http::Mime::"


def run(ck):
    prog = ck.prog
    ck.rule("C18-R1", "G bounded-buffer taint + look-ahead bound",
            "MediaType::parseRaw and the matchers it calls hand pointers into the (str, len) text only to length-bounded sinks; "
            "match_string/match_raw compare at most `len` bytes after a remaining() < len bail-out; the one-byte look-ahead is bounded "
            "(StreamBuf::snext)", 5)
    ck.rule("C18-R2", "H matched-literal / printed-literal agreement",
            "the literals MediaType::parseRaw matches for types, subtypes and suffixes are exactly those MediaType::toString prints for the "
            "same enumerators", 3)
    ck.rule("C18-R3", "C failure arms",
            "every syntactic failure of MediaType::parseRaw goes through the `raise` lambda, which throws HttpError with "
            "Code::Unsupported_Media_Type", 2)
    ck.rule("C18-R4", "I case folding + rounding",
            "the case-insensitive arm of match_string folds both operands with tolower (no bit tricks that also alias punctuation to "
            "control characters); Q::fromFloat rounds to the nearest hundredth", 2)

    pr = lib.single(prog, M + "MediaType::parseRaw")
    n = 0
    scope = [pr] + prog.by_base.get("Pistache::match_string", []) + prog.by_base.get("Pistache::match_raw", []) + prog.by_base.get("Pistache::match_double", []) + \
        prog.by_base.get("Pistache::match_literal", []) + prog.by_base.get("Pistache::match_until", [])
    # ... and the constructors of whatever stream buffer parseRaw lays over the text (they are handed the same pointer and length)
    for c_ in pr.events(("construct", "decl")):
        cn_ = strip_tmpl(c_.get("cls") or c_.get("ctor") or "")
        if "StreamBuf" in cn_:
            scope += [g_ for g_ in prog.funcs.values() if g_.d.get("ctor") and strip_tmpl(g_.cls or "") == cn_ and g_.blocks and g_ not in scope]
    for f in scope:
        for e, sink, arg, bounded in lib.taint_flows(f):
            n += 1
            ck.ob("C18-R1", "%s:%s" % (f.base.replace("Pistache::", ""), sink), bounded, e.loc, f, "length-bounded" if bounded else "%s reads past the given length (%s)" % (sink, arg))
    ck.require(n >= 3, "bounded-buffer flows under MediaType::parseRaw: %d" % n)
    for name in ("Pistache::match_raw", "Pistache::match_string"):
        for f in [x for x in prog.by_base.get(name, []) if len(x.params) >= 3 and "size_t" in x.params[1]["type"]]:
            lenp = f.params[1]["name"]
            # edges on which remaining() >= len is known: the not-taken edge of `if (remaining() < len) return false`, or the taken edge
            # of `remaining() >= len && ...`
            enough = []
            for b in f.blocks.values():
                t_ = b.term
                if not t_ or len(b.succs) != 2:
                    continue
                for k_ in (0, 1):
                    r_ = lib.rel_on_edge(t_, k_)
                    if r_ is None or b.succs[k_] is None:
                        continue
                    for a_, rel_, o_ in ((r_[0], r_[1], r_[2]), (r_[2], lib._SWAP[r_[1]], r_[0])):
                        if "remaining" in (a_.get("t") or "") and rel_ in (">=",) and o_.get("v") == lenp:
                            enough.append((b.id, k_))
            tests = enough
            uses = [e for e in f.events("call") if (e.get("callee") or "") in lib.BOUNDED_SINKS] + [e for e in f.events("subscript")]
            ok = bool(tests) and all(any(cfg.edge_dominates(f, bid_, k_, e) for bid_, k_ in tests) for e in uses) and \
                all((e["args"][-1].get("v") == lenp) for e in uses if e["k"] == "call")
            ck.ob("C18-R1", "%s/remaining-before-compare" % name.replace("Pistache::", ""), ok, f.loc, f, "`cursor.remaining() < %s` bails out before %d bounded reads" % (lenp, len(uses)))

    # ---------------- R2 ----------------
    rpairs = [p_ for g in [pr] + prog.lambdas_in(pr) for p_ in tables.chain_pairs(g)]
    # (or the reader walks namespace-scope tables of {"literal", length, Enum} rows, first match wins: the rows, in their order)
    tpairs = list(tables.referenced_tables(prog, pr, prog.lambdas_in(pr), as_pairs=True))
    tpairs = [(lit, en if en.startswith("Pistache") else M + en.split("Mime::")[-1]) for lit, en in tpairs]
    rpairs += [p_ for p_ in tpairs if p_ not in rpairs]
    rmap = dict(rpairs)
    ts = lib.single(prog, M + "MediaType::toString")
    wmap = {}
    # the enumerator -> text switches: local lambdas of toString, or file-local helpers it calls
    for lf in lib.region(prog, ts, within=lambda g_: g_.file == ts.file and not g_.cls):
        if lf.id != ts.id:
            wmap.update(tables.switch_map(lf))
    ck.require(len(rmap) >= 15 and len(wmap) >= 15, "mime tables: reader %d writer %d" % (len(rmap), len(wmap)))
    for kind in ("Type", "Subtype", "Suffix"):
        w = {k: v for k, v in wmap.items() if ("::" + kind + "::") in k and isinstance(v, str)}
        r = {en: lit for lit, en in rpairs if ("::" + kind + "::") in en}
        probs = []
        for en, lit in w.items():
            if en not in r:
                if lit and en.rsplit("::", 1)[1] not in ("None", "Ext", "Vendor"):
                    probs.append("%s is printed as %r but never matched" % (en.rsplit("::", 1)[1], lit))
            elif r[en].lower() != lit.lower().lstrip("+"):
                probs.append("%s is matched as %r but printed as %r" % (en.rsplit("::", 1)[1], r[en], lit))
        ck.ob("C18-R2", "table:%s" % kind, not probs and len(r) >= 2, pr.loc, pr, "; ".join(probs[:3]) or "%d literals agree" % len(r))
        # the chain takes the first literal that matches the text *as a prefix*: a literal tried earlier must not be a proper prefix of
        # one tried later, or the later one can never be read back ("json" before "json-patch+json")
        shadow = []
        nseq = 0
        for g in [pr] + prog.lambdas_in(pr):
            seq = [(lit, bid) for lit, en, bid in tables.chain_pairs(g, with_block=True) if ("::" + kind + "::") in en]
            nseq += len(seq)
            for a_, ba in seq:
                later = cfg.reachable_blocks(g, ba)
                for b_, bb in seq:
                    if bb != ba and bb in later and ba not in cfg.reachable_blocks(g, bb) and a_ and b_.lower() != a_.lower() and b_.lower().startswith(a_.lower()):
                        shadow.append((a_, b_))
        # a table walked front to back: the rows' order is the matching order
        tseq = [lit for lit, en in tpairs if ("::" + kind + "::") in en]
        shadow += [(a_, b_) for i_, a_ in enumerate(tseq) for b_ in tseq[i_ + 1:] if a_ and b_.lower() != a_.lower() and b_.lower().startswith(a_.lower())]
        seq = [None] * (nseq + len(tseq))
        ck.ob("C18-R2", "table:%s/no-literal-shadows-a-later-one" % kind, not shadow, pr.loc, pr,
              "the %d literals are tried in an order in which none is a prefix of a later one" % len(seq) if not shadow else
              "%r is tried before %r and matches its beginning: a media type written with %r is read back as %r followed by rubbish"
              % (shadow[0][0], shadow[0][1], shadow[0][1], shadow[0][0]), structural=True)

    # a scan that stops at delimiters must not come before the table lookup of a literal that contains one of them: the scanned
    # token can then never be that literal ("schema+json" after a scan that stops at '+')
    scans = [(e, set(re.findall(r"'(.)'", (e.get("args") or [{}])[0].get("t") or ""))) for e in pr.calls(lambda e: strip_tmpl(e.get("callee") or "") == "Pistache::match_until")]
    lits_all = {v for v in wmap.values() if isinstance(v, str) and v}
    cmps = [(e, a_["const"][2:]) for e in pr.events("call") for a_ in e.get("args", [])
            if isinstance(a_.get("const"), str) and a_["const"].startswith("s:") and a_["const"][2:] in lits_all | {x.lstrip("+") for x in lits_all}]
    ck.require(len(cmps) + len(tpairs) >= 15, "table comparisons found in MediaType::parseRaw: %d" % (len(cmps) + len(tpairs)))
    dpr = cfg.dominators(pr)
    cut = [(sc, lit, ce) for sc, dl in scans if dl for ce, lit in cmps if (set(lit) & dl) and cfg.ev_dominates(dpr, sc, ce)]
    ck.ob("C18-R2", "table-literals-vs-scan-delimiters", not cut, cut[0][0].loc if cut else pr.loc, pr,
          "no table literal is looked up after a scan that stops inside it (%d scans, %d comparisons)" % (len(scans), len(cmps)) if not cut else
          "the scan `%s` stops at %s, and the token it delimits is then compared with %r: a media type written with that literal is "
          "never recognised again" % ((cut[0][0].get("t") or "")[:50], sorted(set(cut[0][1]) & dict((id(a), b) for a, b in scans)[id(cut[0][0])]), cut[0][1]))

    # ---------------- R3 ----------------
    # every way parseRaw reports a failure -- a throw in the routine, in one of its lambdas (the `raise` helper) or in a file-local helper
    # it was split into -- is HttpError(Unsupported_Media_Type); a lambda that exists to throw throws on every path
    preg = lib.region(prog, pr, within=lambda g_: g_.file == pr.file and not g_.cls)
    th_all = [(g, e) for g in preg for e in g.events("throw")]
    ck.require(th_all, "no throw found in MediaType::parseRaw and its helpers")
    for g, e in th_all:
        is415 = "HttpError" in (e.get("type") or "") and lib.refs_enumerator(e, "Pistache::Http::Code::Unsupported_Media_Type")
        ck.ob("C18-R3", "%s/throw-is-415" % ("raise-lambda" if g.is_lambda else g.base.rsplit("::", 1)[-1]), bool(is415), e.loc, g,
              "throws HttpError(Unsupported_Media_Type)" if is415 else
              "`%s`: text that is not a media type is rejected with something else than an unsupported-media-type error" % (e.get("t") or "")[:80])
    raisers = [g for g in preg if g.is_lambda and any(True for _ in g.events("throw"))]
    for g in raisers:
        ck.ob("C18-R3", "raise-lambda/always-throws", cfg.always_throws(g), g.loc, g, "the failure helper throws on every path")
    calls = [e for g in preg for e in g.calls(lambda e: any(h.id == r_.id for r_ in raisers for h in prog.resolve_call(e)))]
    direct = [e for g, e in th_all if not g.is_lambda]
    ck.ob("C18-R3", "parseRaw/failure-sites", len(calls) + len(direct) >= 5, pr.loc, pr, "%d failure sites call the throwing helper; %d throw directly" % (len(calls), len(direct)))

    # ---------------- R4 ----------------
    for f in [x for x in prog.by_base.get("Pistache::match_string", []) if len(x.params) >= 4]:
        # the characters compared in the insensitive arm -- in match_string, in a lambda it hands to an algorithm or in a file-local
        # folding helper -- are both folded with tolower (directly, through a local, or through a helper that returns tolower(c))
        reg4 = lib.region(prog, f, within=lambda g_: g_.file == f.file and not g_.cls and g_.base != f.base)
        folders = {"tolower"} | {g_.base.rsplit("::", 1)[-1] for g_ in prog.library_funcs() if g_.file == f.file and not g_.cls and not g_.is_lambda and
                                 [r_ for r_ in g_.events("return")] and any("tolower(" in (r_.get("t") or "") for r_ in g_.events("return"))}
        fold_re = re.compile(r"\b(?:%s)\s*\(" % "|".join(sorted(map(re.escape, folders))))
        tl = [e for g_ in reg4 for e in g_.calls(lambda e: (e.get("callee") or "") in ("tolower", "std::tolower"))]
        pairs = []
        for g_ in reg4:
            decls = {d["var"]: d for d in g_.events("decl") if d.get("var")}

            def folded(o_):
                if fold_re.search(o_.get("t") or ""):
                    return True
                d_ = decls.get(o_.get("v"))
                return d_ is not None and bool(fold_re.search((d_.get("init") or {}).get("t") or ""))

            def is_char(o_):
                d_ = decls.get(o_.get("v"))
                return "char" in (o_.get("ty") or "") or (d_ is not None and "char" in (d_.get("type") or ""))
            for e in g_.events("cmp"):
                if e.get("op") in ("!=", "==") and is_char(e.get("lhs") or {}) and is_char(e.get("rhs") or {}) and e.get("rconst") is None:
                    fl_, fr_ = folded(e["lhs"]), folded(e["rhs"])
                    if fl_ or fr_:
                        pairs.append((e, fl_ and fr_))
        ok = len(tl) >= 1 and bool(pairs) and all(p_[1] for p_ in pairs)
        # the C library's bounded case-insensitive comparison folds both operands itself (ONLY_C_LOCALE build: ASCII letters only)
        libfold = [e for g_ in reg4 for e in g_.calls(lambda e: (e.get("callee") or "") in ("strncasecmp",))]
        if libfold and not pairs:
            ok = True
        ck.ob("C18-R4", "match_string/folds-with-tolower", ok, f.loc, f, ("both compared characters go through std::tolower" if not libfold else "strncasecmp folds both operands") if ok else
              "the case-insensitive comparison does not fold both operands with tolower (%d tolower calls, %d folded comparisons): punctuation may alias control characters" % (len(tl), len(pairs)))
    qf = lib.single(prog, M + "Q::fromFloat")
    rounds = [e for e in qf.calls(lambda e: (e.get("callee") or "") in ("round", "std::round", "lround", "std::lround", "llround", "nearbyint", "std::nearbyint", "rint", "std::rint"))]
    ck.ob("C18-R4", "Q::fromFloat/rounds", bool(rounds), qf.loc, qf, "round(f * 100.0)" if rounds else "the quality is truncated: q=0.29 parses back as 0.28")

    # ---------------- R5: a parsed media type prints as the text it was parsed from ----------------
    ck.rule("C18-R5", "C must-pass-through",
            "MediaType::parseRaw stores the text it is given (raw_ = std::string(str, len)) on every path, and MediaType::toString "
            "answers with that text whenever it is there: from the edge on which raw_ is not empty every return is `return raw_`", 2)
    RAW = M + "MediaType::raw_"
    is_raw_store = lambda e: (e["k"] == "call" and e.get("op") == "=" and strip_tmpl((e.get("recv") or {}).get("f") or "") == RAW) or \
        (e["k"] == "assign" and strip_tmpl((e.get("lhs") or {}).get("f") or "") == RAW)
    stores = [e for e in pr.events(("call", "assign")) if is_raw_store(e)]
    p0, p1 = (pr.params[0]["name"], pr.params[1]["name"]) if len(pr.params) >= 2 else ("?", "?")
    import re as _re
    whole = [e for e in stores if _re.search(r"\b%s\b" % _re.escape(p0), " ".join(a.get("t") or "" for a in e.get("args", [])) + ((e.get("rhs") or {}).get("t") or "")) and
             _re.search(r"\b%s\b" % _re.escape(p1), " ".join(a.get("t") or "" for a in e.get("args", [])) + ((e.get("rhs") or {}).get("t") or ""))]
    dom_pr = cfg.dominators(pr)
    first_cons = [e for e in pr.events("call") if (e.get("callee") or "") in ("Pistache::match_string", "Pistache::match_raw", "Pistache::match_literal", "Pistache::match_until")]
    ok_ = bool(whole) and (not first_cons or all(cfg.ev_dominates(dom_pr, whole[0], c_) for c_ in first_cons))
    ck.ob("C18-R5", "parseRaw/keeps-the-text", ok_, whole[0].loc if whole else pr.loc, pr, "raw_ = std::string(%s, %s) before anything is matched" % (p0, p1))
    nonempty = lib.result_edges(ts, "std::basic_string::empty", False)
    nonempty = [(bid, k_) for bid, k_ in nonempty if ("f:" + RAW) in [strip_tmpl(r) for r in (ts.blocks[bid].term.get("refs") or [])]]
    ck.require(nonempty, "`!raw_.empty()` test not found in MediaType::toString")
    is_ret_raw = lambda e: e["k"] == "return" and ("f:" + RAW) in [strip_tmpl(r) for r in (e.get("refs") or [])] and (e.get("t") or "").strip() in ("this->raw_", "raw_")
    for bid, k_ in nonempty:
        bad_ = [x for x in cfg.exits_without(ts, is_ret_raw, start_block=ts.blocks[bid].succs[k_]) if x.kind != "throw"]
        ck.ob("C18-R5", "toString/returns-the-parsed-text", not bad_, "%s:%s" % (ts.file, ts.blocks[bid].term.get("l")), ts,
              "raw_ is returned whenever it is not empty" if not bad_ else
              "with a non-empty raw_ toString() can rebuild the text from the parsed fields instead: spelling, separators and parameter order of the original are lost")

    # letters of the grammar are never compared byte-for-byte: the quality parameter `q` and the table tokens go through the
    # case-insensitive matchers
    bodies5 = [pr] + prog.lambdas_in(pr)
    sens = []
    for g_ in bodies5:
        for b in g_.blocks.values():
            t_ = b.term
            rc = (t_ or {}).get("rconst")
            if t_ and t_.get("cmp") in ("==", "!=") and isinstance(rc, str) and rc.startswith("c:") and chr(int(rc[2:])).isalpha() and \
                    any(r.startswith("c:Pistache::StreamCursor::") for r in (t_.get("leafrefs") or t_.get("refs") or [])):
                sens.append((g_, t_))
        for e in g_.events("cmp"):
            rc = e.get("rconst")
            if e.get("op") in ("==", "!=") and isinstance(rc, str) and rc.startswith("c:") and chr(int(rc[2:])).isalpha() and "cursor" in ((e.get("lhs") or {}).get("t") or ""):
                sens.append((g_, e))
    ck.ob("C18-R4", "parseRaw/letters-matched-case-insensitively", not sens, "%s:%s" % (pr.file, sens[0][1].get("l")) if sens else pr.loc, pr,
          "no byte-for-byte comparison with a letter" if not sens else
          "the byte under the cursor is compared with the letter %r directly: the other capitalisation of that grammar token is no longer recognised" % chr(int(sens[0][1]["rconst"][2:])))

    # who writes raw_: the text a media type was parsed from is stored by parseRaw (and the constructors) only.  toString() answers
    # with raw_ whenever it is there, so anything else that fills it -- a memoised rendering -- freezes the string form while the
    # object can still change
    wr_raw = [(f2, e) for f2 in prog.library_funcs() for e in f2.events(("call", "assign", "init")) if
              (e["k"] == "assign" and strip_tmpl((e.get("lhs") or {}).get("f") or "") == RAW) or
              (e["k"] == "call" and e.get("op") in ("=", "+=") and strip_tmpl((e.get("recv") or {}).get("f") or "") == RAW) or
              (e["k"] == "call" and strip_tmpl((e.get("recv") or {}).get("f") or "") == RAW and lib.is_stl_mutation(e))]
    for f2, e in wr_raw:
        okw = prog.owner(f2).base in (M + "MediaType::parseRaw",) or prog.owner(f2).d.get("ctor")
        ck.ob("C18-R5", "raw_-written-only-by-parseRaw@%s" % prog.owner(f2).base.replace(M, ""), bool(okw), e.loc, f2,
              "the parsed text is stored while parsing" if okw else
              "%s writes MediaType::raw_: toString() returns raw_ when it is set, so from then on later changes of the object (quality, "
              "parameters) no longer show in its string form" % prog.owner(f2).base.replace(M, ""))

    # parameters are stored under the name and with the value that were parsed: nothing rewrites the key or the value between the token
    # and the store (a folded name is not the name the text had; getParam() and toString() would not give it back)
    stores_p = [e for e in pr.calls(lambda e: strip_tmpl((e.get("recv") or {}).get("f") or "") == M + "MediaType::params" and lib.is_stl_mutation(e) and lib.is_assoc_call(e))]
    ck.require(stores_p, "store into MediaType::params not found in parseRaw")
    for e in stores_p:
        kv = set()
        for a_ in e.get("args", []):
            kv |= {r_[2:] for r_ in (a_.get("refs") or []) if r_.startswith("v:")} | ({a_["v"]} if a_.get("v") else set()) | ({a_["root"]} if a_.get("root") else set())
            kv |= set(re.findall(r"[A-Za-z_]\w*", a_.get("t") or "")) & {d_["var"] for d_ in pr.events("decl") if d_.get("var")}
        dpr2 = cfg.dominators(pr)
        touched = []
        for x in pr.events(("call", "assign")):
            if x is e or not cfg.ev_dominates(dpr2, x, e):
                continue
            if x["k"] == "assign" and ((x.get("lhs") or {}).get("root") in kv or (x.get("lhs") or {}).get("v") in kv) and (x.get("lhs") or {}).get("t") not in kv:
                touched.append(x)       # element store into the key / value
            if x["k"] == "call" and strip_tmpl(x.get("callee") or "") in ("std::transform", "std::for_each", "std::replace", "std::reverse") and \
                    any((a_.get("root") in kv) or any(v_ in (a_.get("t") or "") for v_ in kv) for a_ in x.get("args", [])):
                touched.append(x)
            if x["k"] == "call" and (x.get("recv") or {}).get("v") in kv and lib.is_stl_mutation(x) and x.get("op") not in ("=",):
                touched.append(x)
        ck.ob("C18-R5", "parseRaw/parameter-stored-as-parsed", not touched, (touched[0].loc if touched else e.loc), pr,
              "key and value go from their tokens into params unchanged" if not touched else
              "`%s` rewrites the parameter name / value before it is stored: the media type no longer has the parameter it was written with"
              % (touched[0].get("t") or "")[:70])
    lib.no_stale_static_rule(ck, "C18-R6", ('mime.cc',), "the media-type reader and writer")

    # ---------------- R7: a MediaType is a self-contained value ----------------
    lib.self_view_rule(ck, "C18-R7", ["Pistache::Http::Mime::MediaType"],
                       "a parsed MediaType is handed around by value (header objects, vectors of accepted types)")

