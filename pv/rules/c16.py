"""C16 — typed headers survive write/parse and are found under any capitalisation.

Decides: case-insensitivity of every name-keyed container and comparator, first-occurrence-wins insertion and intact raw
value, writer/reader token-table agreement, registration of every concrete header type, rounding of the quality value.
Round-trip equality over all representable values is value-level and not decided."""
import os
import re
from .. import cfg, lib, facts, tables
from ..facts import AnalysisBroken, strip_tmpl

HH = "Pistache::Http::Header::"
H = "Pistache::Http::"


def tolower_calls(f):
    return [e for e in f.calls(lambda e: (e.get("callee") or "") in ("tolower", "std::tolower", "::tolower"))]


def run(ck):
    prog = ck.prog
    ck.rule("C16-R1", "I type-level container/comparator discipline",
            "every container keyed by a header name carries both LowercaseHash and LowercaseEqual; LowercaseHash hashes the toLowercase "
            "image; LowercaseEqual folds both operands with tolower; LowercaseEqualStatic folds the dynamic operand and every call site "
            "passes an all-lower-case literal as the static one", 7)
    ck.rule("C16-R2", "I keep-first insertion + intact value",
            "Collection::add/addRaw insert with unordered_map::insert (the first occurrence wins, never operator[]=/insert_or_assign/"
            "emplace-over); HeadersStep::apply reaches addRaw on every header line with the value built from the same "
            "(offset(start), diff(start)) pair it hands to the typed parser", 4)
    ck.rule("C16-R3", "H writer/reader table agreement",
            "every token a header writer can emit is mapped back to the same enumerator by its reader (case-folded when the reader is "
            "case-insensitive): Connection, Content-/Transfer-Encoding, Cache-Control (names, and the delta-bearing set equals the "
            "timed table), Expect", 4)
    ck.rule("C16-R4", "exhaustiveness over the class hierarchy",
            "every concrete Header subclass that declares a Name is registered through RegisterHeader, so HeadersStep stores its typed "
            "form", 15)
    ck.rule("C16-R5", "C rounding shape",
            "Mime::Q::fromFloat converts the fraction to hundredths through round()/lround() (0.29 * 100 is 28.999…: truncation loses the "
            "written quality)", 1)

    # ---------------- R1 ----------------
    n = 0
    for c in prog.class_list:
        if not c["name"].startswith(HH) or c.get("dependent"):
            continue
        for fl in c["fields"]:
            ct = fl.get("ctype") or fl["type"]
            if ("unordered_map<std::basic_string" in ct.replace(" ", "").replace("std::__cxx11::", "std::") or "unordered_map<std::string" in fl["type"]) and c["name"] in (HH + "Collection", HH + "Registry"):
                n += 1
                ok = "LowercaseHash" in ct and "LowercaseEqual" in ct
                ck.ob("C16-R1", "container:%s" % fl["q"].replace(HH, ""), ok, "%s:%s" % (c["file"], fl["line"]), "", "declared %s" % fl["type"][:120], nontrivial=False)
    ck.require(n >= 3, "name-keyed containers found: %d" % n)
    lh = lib.single(prog, HH + "LowercaseHash::operator()")
    calls = [e for e in lh.calls(lambda e: (e.get("callee") or "") == HH + "toLowercase")]
    hashes = [e for e in lh.events("call") if "std::hash" in (e.get("callee") or "") and "toLowercase" in " ".join(a.get("t") or "" for a in e.get("args", []))]
    ck.ob("C16-R1", "LowercaseHash/hashes-folded-key", bool(calls) and bool(hashes), lh.loc, lh, "std::hash<std::string>{}(toLowercase(key))")
    tl = lib.single(prog, HH + "toLowercase")
    ok = any("tolower" in (a.get("t") or "") for e in tl.calls(lambda e: (e.get("callee") or "") == "std::transform") for a in e.get("args", []))
    ck.ob("C16-R1", "toLowercase/uses-tolower", ok, tl.loc, tl, "std::transform(..., ::tolower)")
    for name, both in ((HH + "LowercaseEqual::operator()", True), (HH + "LowercaseEqualStatic", False)):
        fn = lib.single(prog, name)
        lams = prog.lambdas_in(fn)
        ck.require(lams, "comparator lambda not found in %s" % name)
        lf = lams[0]
        tc = tolower_calls(lf)
        folded = {(e["args"][0].get("v")) for e in tc}
        params = [p_["name"] for p_ in lf.params]
        ok = (set(params) <= folded) if both else (params[0] in folded)
        eq = [e for e in fn.calls(lambda e: (e.get("callee") or "") == "std::equal")]
        ok = ok and bool(eq) and len(eq[0].get("args", [])) >= 5
        ck.ob("C16-R1", "%s/folds-%s" % (name.replace(HH, ""), "both-operands" if both else "dynamic-operand"), ok, lf.loc, lf,
              "tolower applied to %s; ranges compared with both end iterators" % sorted(x for x in folded if x))
    for e in prog.call_sites(HH + "LowercaseEqualStatic"):
        lit = e["args"][1].get("const") if len(e.get("args", [])) > 1 else None
        if lit is None:
            # literal wrapped in a std::string temporary
            t = e["args"][1].get("t") or ""
            lit = "s:" + t.strip('"') if t.startswith('"') else None
        ok = isinstance(lit, str) and lit.startswith("s:") and lit[2:] == lit[2:].lower()
        ck.ob("C16-R1", "LowercaseEqualStatic-site:%s" % (lit[2:] if isinstance(lit, str) else "?"), ok, e.loc, e.func, "static operand %r is lower-case" % (lit[2:] if isinstance(lit, str) else None))

    # ---------------- R2 ----------------
    for name, fld in (("add", "headers"), ("addRaw", "rawHeaders")):
        fn = [f for f in prog.find(HH + "Collection::" + name, 1) if len(f.params) == 1 and ("shared_ptr" in f.params[0]["type"] or "Raw" in f.params[0]["type"]) and not f.d.get("inst")][0]
        muts = [e for e in fn.calls(lambda e: strip_tmpl((e.get("recv") or {}).get("f") or "") == HH + "Collection::" + fld and lib.is_stl_mutation(e))]
        names = sorted({e.base_callee().rsplit("::", 1)[1] for e in muts})
        # a store through an iterator / reference into the collection replaces what the first occurrence put there
        names += sorted({how for fld_, how, _e in lib.direct_writes(fn) if how.startswith("alias-assign") and strip_tmpl(fld_) == HH + "Collection::" + fld})
        keep = bool(names) and all(n_ in ("insert", "emplace", "try_emplace", "emplace_hint") for n_ in names)
        ck.ob("C16-R2", "Collection::%s/keeps-first" % name, keep, fn.loc, fn,
              "stores with %s" % names if keep else "stores with %s: a later header with the same name replaces the first one" % names)
    hs = lib.single(prog, H + "Private::HeadersStep::apply")
    ar = [e for e in hs.calls(lambda e: (e.get("callee") or "") == HH + "Collection::addRaw")]
    ck.require(ar, "addRaw not found in HeadersStep::apply")
    hl = cfg.innermost_loop(hs, ar[0].block)
    ck.require(hl is not None, "header loop (the loop around addRaw) not found in HeadersStep::apply")
    hdr16, body16 = hl
    # every iteration of the header loop that comes round again passed addRaw
    miss = []

    def step(st, ev):
        if any(ev is a for a in ar):
            return None
        if ev["k"] == "return":
            return None
        return st

    def edge(st, blk, k, succ):
        if succ not in body16:
            return None
        if succ == hdr16:
            miss.append(blk.id)
            return None
        return st
    for s_ in hs.blocks[hdr16].succs:
        if s_ is not None and s_ in body16 and s_ != hdr16:
            cfg.run_automaton(hs, 0, step, edge=edge, start=s_)
    # the typed parser, the cookie parsers and the raw copy are all handed the same (pointer, length) expressions
    norm = lambda t: re.sub(r"\s+", "", t or "")
    pairs = {}
    for e in hs.events("call"):
        c = e.get("callee") or ""
        if c in (HH + "Header::parseRaw", H + "CookieJar::addFromRaw", H + "Cookie::fromRaw") and len(e.get("args", [])) >= 2:
            pairs[c.rsplit("::", 1)[1] + "@%s" % e.get("l")] = (norm(e["args"][0].get("t")), norm(e["args"][1].get("t")))
    pr = [k for k in pairs if k.startswith("parseRaw@")]
    rawpair = None
    real = lambda args: [x for x in (args or []) if not x.get("dflt")]
    # the value operand of the Header::Raw handed to addRaw: a moved string local, or a string built in place
    raws = [c_ for c_ in hs.events("construct") if (c_.get("cls") or "") == HH + "Raw" and not c_.get("copymove") and
            any(c_.block == a_.block and c_.idx < a_.idx for a_ in ar)]
    for rc in raws:
        ra = real(rc.get("args"))
        if len(ra) < 2:
            continue
        val = ra[1]
        mv = (val.get("moved") or {}).get("v") or val.get("v")
        if not mv:
            m_ = re.match(r"^(?:std::move\()?\s*([A-Za-z_]\w*)\s*\)?$", val.get("t") or "")
            mv = m_.group(1) if m_ else None
        if mv:
            for d in hs.events("decl"):
                if d.get("var") == mv and len(real(d.get("cargs"))) == 2:
                    rawpair = tuple(norm(x.get("t")) for x in real(d["cargs"]))
        else:
            for c_ in hs.events("construct"):
                if (c_.get("cls") or "").startswith("std::basic_string") and len(real(c_.get("args"))) == 2 and norm(c_.get("t")) == norm(val.get("t")):
                    rawpair = tuple(norm(x.get("t")) for x in real(c_["args"]))
    same = bool(pr) and rawpair is not None and all(p_ == rawpair for p_ in pairs.values())
    ck.ob("C16-R2", "HeadersStep/always-raw-copy", not miss, ar[0].loc, hs, "every header line (registered or not) reaches addRaw" if not miss else "a header line can be completed without storing its raw copy")
    ck.ob("C16-R2", "HeadersStep/same-value-bytes", same, ar[0].loc, hs, "typed parser, cookie parsers and raw copy all get %s" % (rawpair,) if same else
          "the value handed to the typed parser and the raw copy differ: %s vs raw %s" % (sorted(set(pairs.values())), rawpair))

    # ---------------- R3 ----------------
    def agree(name, writer, reader, insensitive, allow_unmapped=()):
        probs = []
        for en, lit in writer.items():
            if lit in ("", True, False) or en in allow_unmapped:
                continue
            key = None
            for rl in reader:
                if (rl.lower() == lit.lower()) if insensitive else (rl == lit):
                    key = rl
            if key is None:
                probs.append("writer emits %r for %s but the reader has no such token" % (lit, en.rsplit("::", 1)[1]))
            elif reader[key].rsplit("::", 1)[-1] != en.rsplit("::", 1)[-1]:
                probs.append("%r is written for %s but read back as %s" % (lit, en.rsplit("::", 1)[1], reader[key].rsplit("::", 1)[-1]))
        return probs

    def reader_of(cls):
        """the function that reads a header of class cls: its own override of parseRaw, or of parse (a class needs only one of the two)"""
        for m_ in ("parseRaw", "parse"):
            if prog.by_base.get(HH + cls + "::" + m_):
                return lib.single(prog, HH + cls + "::" + m_)
        raise AnalysisBroken("anchor %s%s::parseRaw / ::parse (the reader of the header) not found in the analysed program" % (HH, cls))

    def reader_pairs(fn):
        """{literal: enumerator} however the reader maps tokens: if-chain, function-local static table, namespace-scope table it walks"""
        out = dict(tables.reader_map(prog, fn))
        for k_, v_ in tables.referenced_tables(prog, fn, prog.lambdas_in(fn)).items():
            out.setdefault(k_, v_)
        return out

    w = tables.writer_map(prog, lib.single(prog, HH + "Connection::write"), lib)
    pr_ = reader_of("Connection")
    r = reader_pairs(pr_)
    ins = all(any(a.get("const") == "e:Pistache::CaseSensitivity::Insensitive" for a in e.get("args", [])) for e in pr_.calls(lambda e: (e.get("callee") or "") == "Pistache::match_string"))
    ck.require(len(w) >= 2 and len(r) >= 2, "Connection tables not extracted (%d/%d)" % (len(w), len(r)))
    probs = agree("Connection", w, r, ins, allow_unmapped=("Pistache::Http::ConnectionControl::Ext",))
    ck.ob("C16-R3", "table:Connection", not probs, pr_.loc, pr_, "; ".join(probs) or "writer %s ⊆ reader %s (case-insensitive=%s)" % (sorted(w.values()), sorted(r), ins))
    w = tables.writer_map(prog, lib.single(prog, HH + "encodingString"), lib)
    er = reader_of("EncodingHeader")
    r = reader_pairs(er)
    ck.require(len(w) >= 5 and len(r) >= 5, "Encoding tables not extracted (%d/%d)" % (len(w), len(r)))
    probs = agree("Encoding", w, r, True, allow_unmapped=(HH + "Encoding::Unknown",))
    ck.ob("C16-R3", "table:Encoding", not probs, er.loc, er, "; ".join(probs) or "writer %s ⊆ reader %s" % (sorted(w.values()), sorted(r)))
    cw = lib.single(prog, HH + "CacheControl::write")
    # the two tables of the writer: local lambdas, or file-local functions it calls
    lams = [g_ for g_ in lib.region(prog, cw, within=lambda g_: g_.is_lambda or (g_.file == cw.file and not g_.cls), depth=1) if g_.id != cw.id]
    maps = [tables.switch_map(l) for l in lams]
    names = [m for m in maps if any(isinstance(v, str) and v for v in m.values())]
    preds = [p_ for p_ in (tables.enum_predicate(l) for l in lams if not any(isinstance(v, str) and v for v in tables.switch_map(l).values())) if p_]
    ck.require(names, "directive-name lambda not found in CacheControl::write")
    triv = timed = None
    for v in prog.vars:
        # static locals of CacheControl::parseRaw, or file-scope tables of http_header.cc
        mine = "CacheControl::parse" in (v.get("func") or "") or (not v.get("func") and (v.get("file") or "").endswith("/common/http_header.cc"))
        if v["name"].endswith("TrivialDirectives") and mine:
            triv = tables.static_table(v.get("init"))
        if v["name"].endswith("TimedDirectives") and mine:
            timed = tables.static_table(v.get("init"))
    ck.require(triv and timed, "TrivialDirectives / TimedDirectives tables not found")
    cr = reader_of("CacheControl")
    rd = dict(triv)
    rd.update(timed)
    probs = agree("CacheControl", names[0], rd, False, allow_unmapped=("Pistache::Http::CacheDirective::Ext",))
    rt = {v.rsplit("::", 1)[1] for v in timed.values()}
    if preds:
        wd = {k.rsplit("::", 1)[1] for k in preds[0]}
        if wd != rt:
            probs.append("directives written with delta-seconds %s differ from the reader's timed table %s" % (sorted(wd), sorted(rt)))
    else:
        ck.note("C16-R3: the has-delta predicate of CacheControl::write is not in a recognised shape: timed-set agreement not checked")
    if set(triv) & set(timed):
        probs.append("a directive is both trivial and timed: %s" % sorted(set(triv) & set(timed)))
    ck.ob("C16-R3", "table:CacheControl", not probs, cr.loc, cr, "; ".join(probs) or "%d directive names agree; delta-bearing set == timed table %s" % (len(rd), sorted(rt)))
    ew = lib.single(prog, HH + "Expect::write")
    lits = [l_ for l_ in (tables.arg_literal(prog, a) for e in ew.events("call") if e.get("op") == "<<" for a in e.get("args", [])[-1:]) if l_ is not None]
    epr = reader_of("Expect")
    erd = dict(reader_pairs(epr))
    # other reader shapes: the literal (or the named constant both sides share) handed to a comparison routine
    for e in epr.events("call"):
        if (e.get("callee") or "") in tables.MATCHERS | {"memcmp", "std::memcmp", "std::operator==", "std::operator!="} or \
                strip_tmpl(e.get("callee") or "") in ("std::basic_string::compare", "std::basic_string_view::compare", "std::operator==", "std::operator!="):
            for a in e.get("args", []):
                l_ = tables.arg_literal(prog, a)
                if l_ is not None:
                    erd.setdefault(l_, "?")
    ok = bool(lits) and all(l in erd for l in lits)
    # the reader must compare over the given length (not a NUL-terminated scan) — shared with C03
    bounded = all((e.get("callee") or "") in ("strncmp", "std::strncmp", "strncasecmp", "memcmp", "std::memcmp") for e in epr.calls(lambda e: (e.get("callee") or "") in tables.MATCHERS | {"memcmp", "std::memcmp"}))
    ck.ob("C16-R3", "table:Expect", ok and bounded, epr.loc, epr, "writer %s ⊆ reader %s; length-bounded comparison=%s" % (lits, sorted(erd), bounded))

    # ---------------- R4 ----------------
    registered = set()
    for v in prog.vars:
        t = v["type"]
        if "Registrar<" in t:
            registered.add(t.split("Registrar<", 1)[1].rsplit(">", 1)[0].strip().split("::")[-1])
    ck.require(len(registered) >= 15, "registered headers found: %d" % len(registered))
    names_declared = {v["name"].rsplit("::", 2)[-2] for v in prog.vars if v["name"].startswith(HH) and v["name"].endswith("::Name")}
    subs = {s for s in prog.subclasses(HH + "Header") if s.startswith(HH)}
    # not registrable: abstract bases without a Name, and Raw-like helpers
    for s in sorted(subs):
        short = s.replace(HH, "")
        if short not in names_declared:
            continue
        if facts.VERIF in (prog.cls(s).get("file") or ""):
            continue
        ck.ob("C16-R4", "registered:%s" % short, short in registered, "%s:%s" % (prog.cls(s)["file"], prog.cls(s)["line"]), "",
              "RegisterHeader(%s)" % short if short in registered else "%s declares a Name but is never registered: it is parsed only as a raw header" % short, nontrivial=False)

    # ---------------- R5 ----------------
    qf = lib.single(prog, "Pistache::Http::Mime::Q::fromFloat")
    rounds = [e for e in qf.calls(lambda e: (e.get("callee") or "") in ("round", "std::round", "lround", "std::lround", "llround", "roundf", "nearbyint", "std::nearbyint", "rint", "std::rint"))]
    casts = [e for e in qf.events("cast") if "round" in ((e.get("sub") or {}).get("t") or "") or "rint" in ((e.get("sub") or {}).get("t") or "")]
    ck.ob("C16-R5", "Q::fromFloat/rounds", bool(rounds) and bool(casts), qf.loc, qf,
          "static_cast<Type>(round(f * 100.0))" if rounds and casts else "the fraction is converted to hundredths by truncation: q=0.29 is read back as 0.28")

    # ---------------- R3 (Host): one grammar for host[:port] ----------------
    hp = lib.single(prog, HH + "Host::parse")
    uses_ap = any(e["k"] in ("decl", "construct", "call") and "AddressParser" in ((e.get("ctor") or "") + (e.get("cls") or "") + (e.get("callee") or "") + (e.get("type") or "")) for e in hp.events())
    colon_split = [e for e in hp.events("call") if (e.get("callee") or "").rsplit("::", 1)[-1] in ("find", "rfind", "find_first_of", "find_last_of") and
                   any(a_.get("const") in ("c:58", "s::") for a_ in e.get("args", []))]
    bracket = any(a_.get("const") in ("c:93", "c:91", "s:]", "s:[") for e in hp.events("call") for a_ in e.get("args", [])) or \
        any((b.term or {}).get("rconst") in ("c:93", "c:91") for b in hp.blocks.values())
    ok_ = uses_ap or not colon_split or bracket
    ck.ob("C16-R3", "Host::parse/brackets-before-colon", ok_, colon_split[0].loc if colon_split else hp.loc, hp,
          "host[:port] is split by the address parser (which knows bracketed IPv6 literals)" if uses_ap else
          ("splits at a ':' it looks for itself, with a bracket test" if ok_ else
           "the Host value is split at a ':' found by %s without looking at brackets: the colons of an IPv6 literal like [::1] are taken for the port separator"
           % colon_split[0]["callee"].rsplit("::", 1)[-1]))

    # ---------------- facts shared with C02 / C09 ----------------
    ck.borrow("C02", ["C02-R3"], "C16-R6",
              "the value of a received header starts after the colon and any number of blanks (none, one, several are all legal) and ends "
              "before CRLF: HeadersStep skips ':' and then the blanks it finds, not a fixed count",
              key_pred=lambda k: k == "reader:HeadersStep-splits-on-colon-space", min_instances=1)
    ck.borrow("C04", ["C04-R2"], "C16-R12",
              "the header block of a message is read from its first byte: whatever the parser's steps and its header collections keep "
              "while a message is received (a resume offset, the collections themselves) is re-initialised by reset() -- what is left of "
              "an abandoned message would make the next one on the connection lose or mangle its first headers",
              key_pred=lambda k: "Step" in k or "Header::Collection" in k or "covers-every-step" in k, min_instances=6)
    ck.borrow("C18", ["C18-R2"], "C16-R13",
              "Content-Type and Accept carry media types: the literals the media-type reader matches are those its writer prints for the "
              "same enumerators, and in the order the reader tries them none is a prefix of a later one (a sub type such as "
              "`json-patch+json` would be read as `json` and rejected or mangled)", min_instances=3)
    ck.borrow("C09", ["C09-R5"], "C16-R7",
              "header and date writers / parsers keep no state between calls (no mutable static or thread_local local): what is written for a "
              "value does not depend on which values the thread wrote before",
              key_pred=lambda k: k == "serving-path/static-locals", min_instances=1)
    lib.no_stale_static_rule(ck, "C16-R8", ('http_header.cc', 'http_headers.cc'), "the typed-header readers and writers")
    ck.borrow("C03", ["C03-R13"], "C16-R9",
              "every built-in header class has a reader that returns: parse / parseRaw resolve to an override, not to the pair of base-class "
              "defaults that call each other", min_instances=10)
    ck.borrow("C01", ["C01-R5"], "C16-R10",
              "a header value is stored only when its line is known to be complete: nothing is written into the header tables on a path "
              "where the buffered input may just have run out -- the tables keep the first value they are given, so a value cut short by "
              "the end of a read would stay cut short", min_instances=1)

    # ---------------- R11: a line ends at CR LF, never at a lone CR ----------------
    ck.rule("C16-R11", "contradiction / sibling agreement over every function of the parser units",
            "wherever the stream and message parsers look for the carriage return that ends a line (a comparison with CR or a search for "
            "it), the same function also requires the line feed after it, as StreamCursor::eol() does: a second end-of-line test that is "
            "content with a lone CR cuts a header value there and swallows the byte behind it as if it were the LF", 1)
    CRRE = re.compile(r"(?<![A-Za-z_0-9])(CR|'\\r'|0x0[dD]\b)(?![A-Za-z_0-9])")
    LFRE = re.compile(r"(?<![A-Za-z_0-9])(LF|'\\n'|0x0[aA]\b)(?![A-Za-z_0-9])")
    ncr = 0
    for g_ in prog.funcs.values():
        if os.path.basename(g_.file) not in ("http.cc", "stream.cc", "stream.h", "http_headers.cc") or not (g_.file.startswith(facts.REPO + "/src/") or g_.file.startswith(facts.REPO + "/include/")):
            continue
        cr = [e for e in g_.events(("cmp", "call")) if (e["k"] == "cmp" and CRRE.search(e.get("t") or "")) or
              (e["k"] == "call" and any(CRRE.fullmatch((a.get("t") or "").strip()) for a in (e.get("args") or [])) and
               re.search(r"(memchr|find|strchr|match_until)", e.get("callee") or ""))]
        if not cr:
            continue
        ncr += 1
        lf = [e for e in g_.events(("cmp", "call")) if (e["k"] == "cmp" and LFRE.search(e.get("t") or "")) or
              (e["k"] == "call" and (e.get("callee") or "").endswith("StreamCursor::eol"))]
        ck.ob("C16-R11", "%s/CR-needs-LF" % g_.base.replace("Pistache::", ""), bool(lf), cr[0].loc, g_,
              "the carriage return is accepted as a line end only with the line feed behind it" if lf else
              "`%s` looks for a carriage return, and nothing in %s requires a line feed after it: a lone CR inside a header value ends the line" % ((cr[0].get("t") or "")[:60], g_.name))
    ck.require(ncr >= 1, "no end-of-line test found in the parser units")
