"""C08 — connection lifecycle is balanced: nothing leaks, nothing is released twice.

Decides the release *paths* (single release path, ordering inside it, no input after disconnect, registration exactly once,
response-timer ownership).  Descriptor counts in /proc are a runtime observation and are not decided."""
import re
from .. import cfg, lib, facts
from ..facts import AnalysisBroken, strip_tmpl

T = "Pistache::Tcp::Transport::"
PEER_FD = "Pistache::Tcp::Peer::fd"


def libc(ev, name):
    return ev["k"] == "call" and ev.get("callee") == name and not (ev.get("cfile") or "").startswith(facts.REPO)


def count_on_paths(f, pred, start=None, start_idx=0, cap=3, prog=None, until=None):
    """Set of counts of events satisfying pred along non-throwing entry->exit paths (counts capped).  With prog: private helpers of
    the transport that contain such events are walked through (the routine may have been split)."""
    ended = []

    def step(st, ev):
        if until is not None and until(ev):
            ended.append(st)        # the next round of the same job begins: this one is judged up to here
            return None
        return min(st + 1, cap) if pred(ev) else st
    if prog is not None:
        step = lib.inlined_step(prog, step, lambda g: g.base.startswith(T) and g.id != f.id and any(pred(x) for h in lib.region(prog, g, within=lambda h: h.base.startswith(T)) for x in h.events("call")))
    exits, _ = cfg.run_automaton(f, 0, step, start=start, start_idx=start_idx)
    return sorted({x.state for x in exits if x.kind != "throw"} | set(ended))


def run(ck):
    prog = ck.prog
    ck.rule("C08-R1", "D who-may-call (single release path)",
            "Transport::removePeer is called only from Transport::handlePeerDisconnection; close() of a descriptor obtained from Peer::fd() "
            "happens only in removePeer; handlePeerDisconnection is called only from the read loop and the idle time-out continuation", 4)
    ck.rule("C08-R2", "C ordering / exactly-once on all paths",
            "handlePeerDisconnection notifies the handler (onDisconnection) before removePeer, each exactly once; removePeer performs "
            "peers.erase, toWrite.erase, reactor removeFd and close exactly once each on its non-throwing path, removeFd before close", 6)
    ck.rule("C08-R3", "C path automaton",
            "in Transport::handleIncoming no handler_->onInput is reachable after handlePeerDisconnection(peer) within the call", 1)
    ck.rule("C08-R4", "C exactly-once on all paths",
            "handlePeer performs peers.insert, onConnection and registerFd exactly once each; handleNewPeer reaches handlePeer on exactly "
            "one arm (directly or through peersQueue), never both; handleNewConnection hands every accepted descriptor to dispatchPeer", 5)
    ck.rule("C08-R5", "C must-pass-through",
            "response time-outs are disarmed with the response (Timeout::~Timeout, ResponseWriter::putOnWire, ResponseStream::flush) and "
            "Transport::onReady erases the timer entry it handled", 4)
    ck.rule("C08-R6", "C path automaton (timer-entry ownership)",
            "Transport::handleTimer — sole consumer of a TimerEntry that onReady then erases — settles entry.deferred or closes entry.fd "
            "on every path (exempt: the read() would-block arm, see table)", 1)

    # ---------------- R1 ----------------
    sites = prog.call_sites(T + "removePeer")
    ck.require(sites, "no call site of removePeer")
    for e in sites:
        f = e.func
        ok = f.base == T + "handlePeerDisconnection"
        where = f.base if not f.is_lambda else "lambda in " + strip_tmpl(f.d.get("parentName") or "")
        ck.ob("C08-R1", "caller-of:removePeer<-%s" % where.replace("Pistache::", ""), ok, e.loc, f,
              "single release path" if ok else "%s releases a peer without going through the disconnection notification" % where)
    IDLE = "Pistache::Http::TransportImpl::checkIdlePeers"

    def only_a_continuation(lf, depth=3):
        """lf is a lambda that runs only as a continuation: it is handed to a then() call, or it is invoked only from lambdas of the same
        function that are"""
        own_ = prog.owner(lf)
        users = [own_] + prog.lambdas_in(own_)
        as_cont = any(strip_tmpl(c.get("callee") or "").endswith("Promise::then") and any(a.get("lam") == lf.name for a in (c.get("args") or []))
                      for u in users for c in u.events("call"))
        invokers = [u for u in users for c in u.events("call") if (c.get("callee") or "") == lf.name]
        if not as_cont and not invokers:
            return False
        return all(u.is_lambda and u.id != lf.id and depth > 0 and only_a_continuation(u, depth - 1) for u in invokers)

    for e in prog.call_sites(T + "handlePeerDisconnection"):
        f = e.func
        where = f.base if not f.is_lambda else "lambda in " + strip_tmpl(f.d.get("parentName") or "")
        ok = where in (T + "handleIncoming", "lambda in " + IDLE)
        if not ok and f.is_lambda and lib.only_reached_from(prog, prog.owner(f), (IDLE,)) and only_a_continuation(f):
            # the idle check was split into helpers: still a continuation (of the queued 408), in code reached from the idle check only
            ok = True
            where = "lambda in " + IDLE
        ck.ob("C08-R1", "caller-of:handlePeerDisconnection<-%s" % where.replace("Pistache::", ""), ok, e.loc, f, "called from %s" % where)
    nclose = 0
    for f in prog.flat_library_funcs():     # (a close wrapper introduced since is part of its callers)
        if f.file.startswith(facts.VERIF) or "/client/" in f.file:
            continue
        fdvars = {d["var"] for d in f.events("decl") if strip_tmpl(d.get("icall") or "") == PEER_FD}

        def is_peer_fd(fn_, a_):
            fv = {d["var"] for d in fn_.events("decl") if strip_tmpl(d.get("icall") or "") == PEER_FD}
            return a_.get("v") in fv or PEER_FD.rsplit("::", 1)[1] + "()" in (a_.get("t") or "") and "peer" in (a_.get("t") or "").lower()
        for e in f.calls(lambda e: libc(e, "close")):
            a = e["args"][0] if e.get("args") else {}
            derived = a.get("v") in fdvars or ("c:" + PEER_FD) in (e.get("refs") or [])
            # or a helper that is handed the peer's descriptor by every caller
            derived = derived or (a.get("v") in {p_["name"] for p_ in f.params} and lib.param_fed_by(prog, f, a["v"], is_peer_fd))
            if derived:
                nclose += 1
                ck.ob("C08-R1", "close(peer fd) in %s" % f.base.replace("Pistache::", ""), lib.only_reached_from(prog, f, {T + "removePeer"}), e.loc, f,
                      "peer descriptor closed in %s" % f.base)
    ck.require(nclose >= 1, "close of a peer descriptor not found")

    # ---------------- R2 ----------------
    f = lib.single(prog, T + "handlePeerDisconnection")
    dom = cfg.dominators(f)
    od = [e for e in f.calls(lambda e: (e.get("callee") or "") == "Pistache::Tcp::Handler::onDisconnection")]
    rp = [e for e in f.calls(lambda e: (e.get("callee") or "") == T + "removePeer")]
    c1 = count_on_paths(f, lambda e: e in od)
    c2 = count_on_paths(f, lambda e: e in rp)
    ok = len(od) == 1 and len(rp) == 1 and cfg.ev_dominates(dom, od[0], rp[0]) and c1 == [1] and c2 == [1]
    ck.ob("C08-R2", "handlePeerDisconnection/notify-then-release", ok, f.loc, f,
          "onDisconnection counts per path %s, removePeer counts per path %s, notify dominates release: %s" % (c1, c2, bool(od and rp and cfg.ev_dominates(dom, od[0], rp[0]))))
    g = lib.single(prog, T + "removePeer")
    gdom = cfg.dominators(g)
    effects = {
        "peers.erase": lambda e: e["k"] == "call" and e.base_callee() == "std::unordered_map::erase" and strip_tmpl((e.get("recv") or {}).get("f") or "") == T + "peers",
        "toWrite.erase": lambda e: e["k"] == "call" and e.base_callee() == "std::unordered_map::erase" and strip_tmpl((e.get("recv") or {}).get("f") or "") == T + "toWrite",
        "removeFd": lambda e: e["k"] == "call" and (e.get("callee") or "") == "Pistache::Aio::Reactor::removeFd",
        "close": lambda e: libc(e, "close"),
    }
    evs = {}
    greg = lib.region(prog, g, within=lambda h_: h_.base.startswith(T) and h_.base not in (T + "handlePeerDisconnection",))
    for name, pred in effects.items():
        cnt = count_on_paths(g, pred, prog=prog)
        # (a helper or lambda whose body was expanded into removePeer is looked at there, with its parameters bound)
        evs[name] = [e for h_ in greg if h_.id not in getattr(g, "inlined_funcs", ()) for e in h_.events("call") if pred(e)]
        ck.ob("C08-R2", "removePeer/%s-once" % name, cnt == [1], evs[name][0].loc if evs[name] else g.loc, g, "occurrences per non-throwing path: %s" % cnt)
    if evs["removeFd"] and evs["close"]:
        # no path reaches close() before removeFd() (walking through the helpers the routine was split into)
        early = []

        def ostep(st, ev):
            if effects["removeFd"](ev):
                return 1
            if effects["close"](ev) and st == 0:
                early.append(ev)
            return st
        cfg.run_automaton(g, 0, lib.inlined_step(prog, ostep, lambda h_: h_.base.startswith(T) and h_.id != g.id and h_ in greg))
        ck.ob("C08-R2", "removePeer/removeFd-before-close", not early, evs["close"][0].loc, g,
              "the descriptor leaves the epoll interest list before it is closed")

        def is_peer_fd2(fn_, a_):
            fv = {d["var"] for d in fn_.events("decl") if strip_tmpl(d.get("icall") or "") == PEER_FD}
            return a_.get("v") in fv

        def fd_arg_ok(e, n):
            a_ = e["args"][-1 if n == "removeFd" else 0]
            fn_ = e.func
            if is_peer_fd2(fn_, a_):
                return True
            return a_.get("v") in {p_["name"] for p_ in fn_.params} and lib.param_fed_by(prog, fn_, a_["v"], is_peer_fd2)
        same = all(fd_arg_ok(e, n) for n in ("removeFd", "close", "toWrite.erase") for e in evs[n])
        ck.ob("C08-R2", "removePeer/same-descriptor", same, g.loc, g, "toWrite.erase, removeFd and close all use the value of peer->fd()")

    # ---------------- R3 ----------------
    h = lib.single(prog, T + "handleIncoming")
    discs = [e for e in h.calls(lambda e: (e.get("callee") or "") == T + "handlePeerDisconnection")]
    ck.require(len(discs) >= 1, "disconnect arms in handleIncoming: %d" % len(discs))
    for i, e in enumerate(discs):
        after = cfg.events_after(h, e)
        bad = [x for x in after if x["k"] == "call" and (x.get("callee") or "") == "Pistache::Tcp::Handler::onInput"]
        rd = [x for x in after if libc(x, "recv")]
        ck.ob("C08-R3", "handleIncoming/disconnect-arm-%d" % i, not bad and not rd, e.loc, h,
              "the arm leaves the read loop" if not bad and not rd else "after the disconnection the loop continues (%s reachable at %s)" % (
                  "onInput" if bad else "recv", (bad or rd)[0].loc))

    # ---------------- R8: descriptor ownership of queued file writes ----------------
    ck.rule("C08-R8", "I ownership (type-level) + D who-may-call",
            "the descriptor of a queued file write is owned by its BufferHolder: the file constructor creates a shared owner whose deleter "
            "closes it, detach() hands the same owner to the holder it returns, and nothing else in the transport closes a buffer's "
            "descriptor by hand — so every way an entry leaves the queue (sent, failed, peer gone, removePeer, dropped) closes it once; a "
            "FileBuffer (which opens the descriptor) exists only as the argument of the asyncWrite that wraps it", 5)
    bh = prog.cls(T + "BufferHolder")
    owner = [x for x in bh["fields"] if "shared_ptr" in (x.get("ctype") or x["type"])]
    dtor_idiom = [f2 for f2 in prog.funcs.values() if f2.d.get("dtor") and f2.cls in (T + "BufferHolder", T + "WriteEntry", "Pistache::FileBuffer")
                  and any(libc(c, "close") for c in f2.events("call"))]
    if not owner and dtor_idiom:
        # another ownership idiom (a destructor closes the descriptor): equivalent for this rule, but copies of the holder would then
        # close twice — that is a different analysis; do not guess
        raise AnalysisBroken("C08-R8: descriptor ownership is implemented by a destructor (%s), an idiom this rule does not model" % dtor_idiom[0].name)
    ck.ob("C08-R8", "BufferHolder/has-owner-field", bool(owner), "%s:%s" % (bh["file"], owner[0]["line"] if owner else bh["line"]), "",
          "field %s %s" % (owner[0]["type"], owner[0]["name"]) if owner else
          "BufferHolder holds only a raw descriptor: whichever path drops a queued file write without sending it completely leaks the file", nontrivial=False)
    if owner:
        oq = owner[0]["q"]
        mk = [f2 for f2 in prog.funcs.values() if f2.cls == T + "BufferHolder" and any(e["k"] == "lambda" for e in f2.events()) and
              any((c.get("callee") or "") == "close" for lf in prog.lambdas_in(f2) for c in lf.events("call"))]
        ck.ob("C08-R8", "BufferHolder/owner-deleter-closes", bool(mk), mk[0].loc if mk else "%s:%s" % (bh["file"], bh["line"]), mk[0] if mk else "",
              "the owner's deleter calls close()" if mk else "no deleter closing the descriptor found")
        ctors = [f2 for f2 in prog.funcs.values() if f2.cls == T + "BufferHolder" and f2.d.get("ctor") and f2.params and "FileBuffer" in f2.params[0]["type"]]
        ck.require(ctors, "BufferHolder(const FileBuffer&) not found")
        inits = [e for e in ctors[0].events("init") if e.get("f") == oq]
        # (or the file constructor delegates to another constructor of the class, which initialises the owner from its parameter)
        for dc in ctors[0].events("construct"):
            tgt = prog.funcs.get(dc.get("cid") or "")
            if tgt is not None and tgt.cls == T + "BufferHolder" and tgt.id != ctors[0].id:
                pn_ = {p_["name"] for p_ in tgt.params}
                inits += [e for e in tgt.events("init") if e.get("f") == oq and any(re.search(r"\b%s\b" % re.escape(n_), e.get("t") or "") for n_ in pn_)]
        okc = bool(inits) and mk and any((c.get("callee") or "") == mk[0].name for c in ctors[0].events("call"))
        ck.ob("C08-R8", "BufferHolder(FileBuffer)/creates-owner", bool(okc), ctors[0].loc, ctors[0], "the file constructor initialises the owner from buffer.fd()")
        dt = lib.single(prog, T + "BufferHolder::detach")
        cons = [e for e in dt.events("construct") if (e.get("cls") or "") == T + "BufferHolder" and not e.get("copymove")
                and any((a.get("f") or "").endswith("BufferHolder::_fd") for a in e.get("args", []))]
        okd = bool(cons) and all(any((a.get("f") or "") == oq for a in e.get("args", [])) for e in cons)
        ck.ob("C08-R8", "BufferHolder::detach/passes-owner", okd, cons[0].loc if cons else dt.loc, dt, "the detached file holder shares the owner")
    manual = []
    for f2 in prog.library_funcs():
        if not (f2.base.startswith(T) or (f2.is_lambda and (f2.d.get("parentName") or "").startswith(T))):
            continue
        for e in f2.calls(lambda e: libc(e, "close")):
            if "c:" + T + "BufferHolder::fd" in (e.get("refs") or []):
                manual.append(e)
    ck.ob("C08-R8", "transport/no-manual-close-of-buffer-fd", not manual, manual[0].loc if manual else "%s:%s" % (bh["file"], bh["line"]), manual[0].func if manual else "",
          "no close(buffer.fd()) by hand" if not manual else "close(buffer.fd()) at %s closes a descriptor its holder also owns (double close) or is the only path that closes it (leak elsewhere)" % manual[0].loc)

    # a FileBuffer opens a descriptor and has no destructor: it gets an owner only when asyncWrite wraps it in a BufferHolder, so it must
    # not exist before that (a named FileBuffer that waits for a continuation leaks whenever the continuation never runs)
    nfb = 0
    for f2 in prog.library_funcs():
        if f2.cls == "Pistache::FileBuffer":
            continue
        for e in f2.events(("decl", "construct")):
            if e.get("copymove"):
                continue
            if e["k"] == "decl" and strip_tmpl(e.get("ctor") or "") == "Pistache::FileBuffer" and [a for a in (e.get("cargs") or []) if not a.get("dflt")] \
                    and "FileBuffer" not in ((e["cargs"][0].get("ty") or "")):
                nfb += 1
                # fine when every way on from the declaration hands it to asyncWrite in this very function
                var_ = e.get("var")
                takes = lambda c: c["k"] == "call" and (c.get("callee") or "").endswith("Transport::asyncWrite") and any(a.get("v") == var_ for a in c.get("args", []))
                loose = [x for x in cfg.exits_without(f2, takes, start_block=e.block, start_idx=e.idx + 1) if x.kind != "throw"]
                ck.ob("C08-R8", "FileBuffer@%s/handed-over-at-once" % prog.owner(f2).base.replace("Pistache::", ""), not loose, e.loc, f2,
                      "handed to asyncWrite on every path from its declaration" if not loose else
                      "`%s` opens the file long before a BufferHolder owns the descriptor: on every path on which the write that would take "
                      "it over is never issued (early return, rejected header write, peer gone) the descriptor stays open for ever" % e.get("var"))
            elif e["k"] == "construct" and strip_tmpl(e.get("cls") or "") == "Pistache::FileBuffer" and e.get("args") and \
                    "FileBuffer" not in ((e["args"][0].get("ty") or "")):
                t_ = re.sub(r"\s+", "", e.get("t") or "")
                taken = [c for c in f2.calls(lambda c: (c.get("callee") or "").endswith("Transport::asyncWrite"))
                         if any(t_ and t_ in re.sub(r"\s+", "", a.get("t") or "") for a in c.get("args", []))]
                if any(d_.get("var") and t_ and re.sub(r"\s+", "", (d_.get("init") or {}).get("t") or "") == t_ for d_ in f2.events("decl")):
                    continue    # the initialiser of a named FileBuffer: reported above
                nfb += 1
                ck.ob("C08-R8", "FileBuffer@%s/handed-over-at-once" % prog.owner(f2).base.replace("Pistache::", ""), bool(taken), e.loc, f2,
                      "a temporary in the argument list of Transport::asyncWrite")
    ck.require(nfb >= 1, "no FileBuffer construction found in the library")

    # ---------------- R11: per-descriptor state does not outlive the connection ----------------
    ck.rule("C08-R11", "I container discipline (type-level) + mod-set",
            "every associative member of Tcp::Transport or of a class derived from it whose key is a descriptor number is erased on the "
            "release path (removePeer and what it calls): the kernel hands the number to the next connection at once, which would inherit "
            "whatever is still filed under it.  Stated exception: `timers` (keyed by timerfd numbers, which the timer owner closes)", 2)
    FD_KEYED_EXCEPT = {T + "timers": "keyed by the numbers of timerfds, not of connections: entries are erased when the timer fires or is disarmed"}
    tcls = [c_ for c_ in prog.class_list if not c_.get("dependent") and (c_["name"] == T[:-2] or any(b_.get("name") == T[:-2] for b_ in c_.get("bases") or []))]
    ck.require(tcls, "class Tcp::Transport not found")
    rel_reg = lib.region(prog, g, within=lambda h_: h_.cls in {c_["name"] for c_ in tcls})
    erased = set()
    for h_ in rel_reg:
        for e in h_.calls(lambda e: e.base_callee().rsplit("::", 1)[-1] in ("erase", "extract") and lib.is_assoc_call(e)):
            fq = strip_tmpl((e.get("recv") or {}).get("f") or "")
            if fq:
                erased.add(fq)
    nk = 0
    for c_ in tcls:
        for x in c_["fields"]:
            ct = (x.get("ctype") or x["type"]).replace(" ", "")
            m_ = re.match(r"^std::(unordered_)?(multi)?(map|set)<(int|Pistache::Fd|Fd)[,>]", ct)
            if not m_:
                continue
            fq = c_["name"] + "::" + x["name"]
            if fq in FD_KEYED_EXCEPT:
                continue
            nk += 1
            ck.ob("C08-R11", "erased-on-release:%s" % fq.replace("Pistache::", ""), fq in erased, "%s:%s" % (c_["file"], x.get("line") or 0), "",
                  "erased in removePeer" if fq in erased else
                  "%s is filed under descriptor numbers but nothing on the release path erases it: an entry left by a connection that went away "
                  "is found again by the next connection that is given the same number" % x["name"], nontrivial=False)
    ck.require(nk >= 2, "descriptor-keyed members of the transport classes: %d" % nk)

    # ---------------- R9: per-connection write state only for live peers ----------------
    ck.rule("C08-R9", "B guard dominates sink",
            "Transport::handleWriteQueue moves a queued write into toWrite[fd] only on the isPeerFd(fd) edge: a write for a connection "
            "that is already gone must not re-create per-descriptor state that the next user of the number would inherit", 1)
    hwq = lib.single(prog, T + "handleWriteQueue")
    reg9 = lib.region(prog, hwq, within=lambda g: g.base.startswith(T) and g.base != T + "asyncWriteImpl")
    pushes = [e for g in reg9 for e in g.calls(lambda e: e.base_callee() == "std::deque::push_back" and "WriteEntry" in (e.get("callee") or ""))]
    ck.require(pushes, "push into toWrite not found in handleWriteQueue or its helpers")

    def live_edges(fn_):
        return [(b.id, 1 if b.term.get("neg") else 0) for b in fn_.blocks.values()
                if b.term and b.term.get("k") in ("if", "land", "cond") and ("c:" + T + "isPeerFd") in (b.term.get("leafrefs") or b.term.get("refs") or [])]
    for e in pushes:
        ok = lib.guard_dominates(prog, e, live_edges)
        ck.ob("C08-R9", "handleWriteQueue/push-only-for-live-peer", ok, e.loc, e.func,
              "push_back is reached only on the isPeerFd(fd) edge" if ok else
              "a write is moved into toWrite[fd] without knowing that fd still is a peer: state for a closed connection is re-created and leaks to "
              "the next connection with that descriptor number")

    # ---------------- R7: edge-triggered drain ----------------
    ck.rule("C08-R7", "C must-pass-through (edge-triggered drain)",
            "peer sockets are registered edge-triggered, so Transport::handleIncoming may stop reading only after recv() reported "
            "would-block, end-of-stream or an error: every non-throwing exit passes through the errno==EAGAIN/EWOULDBLOCK arm or through "
            "handlePeerDisconnection (a FIN queued behind the last bytes would otherwise never be seen)", 2)
    hp0 = lib.single(prog, T + "handlePeer")
    reg = [e for e in hp0.calls(lambda e: (e.get("callee") or "") == "Pistache::Aio::Reactor::registerFd")]
    ck.require(reg, "registerFd not found in handlePeer")
    edge_mode = all(lib.refs_enumerator(e, "Pistache::Polling::Mode::Edge") for e in reg)
    ck.ob("C08-R7", "handlePeer/registration-mode", True, reg[0].loc, hp0, "peer sockets registered %s-triggered" % ("edge" if edge_mode else "level"), nontrivial=False)
    if edge_mode:
        wbarms = set(lib.errno_arms(h, lib.WOULD_BLOCK))
        ck.require(wbarms, "would-block arm not found in handleIncoming")

        def step7(st, ev):
            if ev in discs:
                return "drained"
            return st

        def edge7(st, blk, k, succ):
            if succ in wbarms:
                return "drained"
            return st
        exits7, _ = cfg.run_automaton(h, "reading", step7, edge=edge7)
        bad7 = [x for x in exits7 if x.kind != "throw" and x.state != "drained"]
        ck.ob("C08-R7", "handleIncoming/drain-until-would-block", not bad7, h.loc, h,
              "the read loop ends only on would-block, end-of-stream or error" if not bad7 else
              "the read loop can be left (block %s) while the socket may still hold data or a FIN: with edge-triggered notification no further "
              "event arrives and the disconnection is never reported" % bad7[0].block)

    # ---------------- R4 ----------------
    hp = lib.single(prog, T + "handlePeer")
    for name, pred in (("peers.insert", lambda e: e["k"] == "call" and e.base_callee() in ("std::unordered_map::insert", "std::unordered_map::emplace", "std::unordered_map::try_emplace", "std::unordered_map::insert_or_assign") and strip_tmpl((e.get("recv") or {}).get("f") or "") == T + "peers"),
                       ("onConnection", lambda e: e["k"] == "call" and (e.get("callee") or "") == "Pistache::Tcp::Handler::onConnection"),
                       ("registerFd", lambda e: e["k"] == "call" and (e.get("callee") or "") == "Pistache::Aio::Reactor::registerFd")):
        cnt = count_on_paths(hp, pred)
        ck.ob("C08-R4", "handlePeer/%s-once" % name, cnt == [1], hp.loc, hp, "occurrences per non-throwing path: %s" % cnt)
    hn = lib.single(prog, T + "handleNewPeer")

    def hands_over(e):
        return e["k"] == "call" and ((e.get("callee") or "") == T + "handlePeer" or
                                     (e.base_callee() == "Pistache::PollableQueue::push" and strip_tmpl((e.get("recv") or {}).get("f") or "") == T + "peersQueue"))
    cnt = count_on_paths(hn, hands_over)
    ck.ob("C08-R4", "handleNewPeer/one-arm", cnt == [1], hn.loc, hn, "hand-overs (handlePeer | peersQueue.push) per path: %s" % cnt)
    hc = lib.single(prog, "Pistache::Tcp::Listener::handleNewConnection")
    # the call that yields the accepted descriptor: accept4()/accept() itself (when the helper around it was expanded into this
    # function) or the helper that reaches it
    may_accept = lib.Summaries(prog).lift_may(lambda e: libc(e, "accept4") or libc(e, "accept"), "accepts")
    acc = [e for e in hc.events("call") if not e.get("inlined") and may_accept(e)]
    if not acc:
        # the accept moved out of handleNewConnection (which is then handed the descriptor): judge the Listener function that accepts
        # and hands over -- the routine round it, with what was introduced since expanded into it
        for g_ in prog.flat_library_funcs():
            if g_.base.startswith("Pistache::Tcp::Listener::") and g_.blocks:
                a2 = [e for e in g_.events("call") if not e.get("inlined") and may_accept(e) and (e.get("callee") or "") != "Pistache::Tcp::Listener::handleNewConnection"]
                if a2 and any((e.get("callee") or "") == "Pistache::Tcp::Listener::handleNewConnection" for e in g_.events("call")):
                    hc, acc = g_, a2
                    break
    ck.require(acc, "the call that accepts the connection (accept4 or a helper reaching it) not found in handleNewConnection")
    _own_direct = lambda e: e["k"] == "call" and ((e.get("callee") or "") == "Pistache::Tcp::Listener::dispatchPeer" or libc(e, "close"))
    _own_lift = lib.Summaries(prog).lift_must(_own_direct, "owns-accepted-fd")
    cnt = count_on_paths(hc, lambda e: e["k"] == "call" and not e.get("inlined") and _own_lift(e),
                         start=acc[0].block, start_idx=acc[0].idx + 1, until=lambda e: any(e is a_ for a_ in acc))
    # a path on which the accept call is known to have returned a negative value has no descriptor to own
    fdv0 = [d_["var"] for d_ in hc.blocks[acc[0].block].elems[acc[0].idx + 1:] if d_["k"] == "decl" and (d_.get("icall") or "") in ("accept4", "accept", acc[0].get("callee"))][:1]
    if cnt != [1] and fdv0:
        negs_ = {(b_.id, k_) for b_ in hc.blocks.values() if b_.term and len(b_.succs) == 2 for k_ in (0, 1) if b_.succs[k_] is not None and (
            lib.edge_establishes(b_.term, k_, fdv0[0], ("<",), lambda r_: r_.get("const") == 0 or (r_.get("t") or "").strip() == "0") or
            lib.edge_establishes(b_.term, k_, fdv0[0], ("==", "<="), lambda r_: r_.get("const") == -1 or (r_.get("t") or "").replace(" ", "") == "-1"))}
        if negs_:
            owned_ = lambda e: e["k"] == "call" and not e.get("inlined") and _own_lift(e)
            loose_ = [x for x in cfg.exits_without(hc, owned_, start_block=acc[0].block, start_idx=acc[0].idx + 1,
                                                   avoid_edge=lambda st, blk, k, succ: None if (blk.id, k) in negs_ else st) if x.kind != "throw"]
            if not loose_ and max(cnt) == 1:
                cnt = [1]
    ck.ob("C08-R4", "handleNewConnection/accepted-fd-owned", cnt == [1], acc[0].loc, hc, "dispatchPeer|close per non-throwing path after accept: %s" % cnt)
    # Listener::run catches SocketError and keeps accepting: a throw after accept4() must not leave the descriptor behind
    owned = lambda e: e["k"] == "call" and ((e.get("callee") or "") == "Pistache::Tcp::Listener::dispatchPeer" or libc(e, "close"))
    # where accept4() itself is visible here (its wrapper was expanded into this function), a descriptor exists only on the edge that
    # knows the result is not negative: the wrapper's own failure throws come before that
    avoid = None
    if True:
        # (the same holds one level up: a wrapper that reports "nothing to accept" with a negative result, tested by its caller)
        fdv = [d_["var"] for d_ in hc.blocks[acc[0].block].elems[acc[0].idx + 1:] if d_["k"] == "decl" and (d_.get("icall") or "") in ("accept4", "accept", acc[0].get("callee"))][:1]
        if fdv:
            neg_edges = set()
            for b_ in hc.blocks.values():
                if b_.term and len(b_.succs) == 2:
                    for k_ in (0, 1):
                        if b_.succs[k_] is not None and (lib.edge_establishes(b_.term, k_, fdv[0], ("<",), lambda r_: r_.get("const") == 0 or (r_.get("t") or "").strip() == "0") or
                                                         lib.edge_establishes(b_.term, k_, fdv[0], ("==", "<="), lambda r_: r_.get("const") == -1 or (r_.get("t") or "").replace(" ", "") == "-1")):
                            neg_edges.add((b_.id, k_))
            if neg_edges:
                avoid = lambda st, blk, k, succ: None if (blk.id, k) in neg_edges else st
    leaks = [x for x in cfg.exits_without(hc, owned, start_block=acc[0].block, start_idx=acc[0].idx + 1, avoid_edge=avoid) if x.kind == "throw"]
    # a throw *inside* acceptConnection itself happens before a descriptor exists: only throws of this function count
    ck.ob("C08-R4", "handleNewConnection/no-throw-with-open-fd", not leaks, leaks[0].event.loc if leaks and leaks[0].event is not None else acc[0].loc, hc,
          "no throw between accept and hand-over leaves the accepted descriptor open" if not leaks else
          "the throw at line %s happens after accept4() returned a descriptor and before it is handed over or closed: the accept loop catches the "
          "error and continues, the socket is never closed" % (leaks[0].event.get("l") if leaks[0].event is not None else "?"))

    # ---------------- R5 ----------------
    def disarms(e):
        return e["k"] == "call" and (e.get("callee") or "") == "Pistache::Http::Timeout::disarm"
    for base, key in (("Pistache::Http::Timeout::~Timeout", "~Timeout"), ("Pistache::Http::ResponseWriter::putOnWire", "putOnWire"),
                      ("Pistache::Http::ResponseStream::flush", "ResponseStream::flush")):
        fn = lib.single(prog, base)
        if key == "~Timeout":
            bad = [x for x in cfg.exits_without(fn, disarms) if x.kind != "throw"]
            ck.ob("C08-R5", "disarm:" + key, not bad, fn.loc, fn, "disarm() on every path")
        else:
            aw = [e for e in fn.calls(lambda e: e.base_callee() == T + "asyncWrite")]
            ck.require(aw, "asyncWrite not found in %s" % base)
            d = cfg.dominators(fn)
            ds = [e for e in fn.events("call") if disarms(e)]
            ok = bool(ds) and all(any(cfg.ev_dominates(d, x, a) for x in ds) for a in aw)
            ck.ob("C08-R5", "disarm:" + key, ok, aw[0].loc, fn, "timeout_.disarm() dominates the write of the response")
    orf = lib.single(prog, T + "onReady")
    ht = [e for e in orf.calls(lambda e: (e.get("callee") or "") == T + "handleTimer")]
    ck.require(ht, "handleTimer call not found in onReady")
    for e in ht:
        after = [x for x in orf.blocks[e.block].elems[e.idx + 1:] if x["k"] == "call" and x.base_callee() == "std::unordered_map::erase"
                 and strip_tmpl((x.get("recv") or {}).get("f") or "") == T + "timers"]
        ck.ob("C08-R5", "onReady/timer-entry-erased", bool(after), e.loc, orf, "timers.erase follows handleTimer in the same block")

    # ---------------- R6 ----------------
    tm = lib.single(prog, T + "handleTimer")
    pname = tm.params[0]["name"]

    def discharges(e):
        if e["k"] != "call":
            return False
        rv = e.get("recv") or {}
        nm = (e.get("callee") or "").rsplit("::", 1)[-1]
        if nm in ("resolve", "reject") and strip_tmpl(rv.get("f") or "").endswith("TimerEntry::deferred") and rv.get("b") == pname:
            return True
        return libc(e, "close") and strip_tmpl((e["args"][0].get("f") or "")).endswith("TimerEntry::fd") and e["args"][0].get("b") == pname
    # exemption table: the arm taken when read() on the timerfd reports would-block right after epoll said readable.  With a single
    # reader this cannot happen after a readable event; a spurious wake-up is not in the property's quantifier (client behaviours).
    wb = set(lib.errno_arms(tm, lib.WOULD_BLOCK))

    def edge(st, blk, k, succ):
        if succ in wb:
            return None
        return st
    bad = [x for x in cfg.exits_without(tm, discharges, avoid_edge=edge) if x.kind != "throw"]
    ck.ob("C08-R6", "handleTimer/settle-or-close", not bad, tm.loc, tm,
          "every path settles entry.deferred or closes entry.fd" if not bad else
          "a path (ending in block %s) drops the entry without settling its deferred or closing its timerfd: the descriptor leaks" % bad[0].block)

    # ---------------- R10: a disarmed response timer still fires (that is where it is closed) ----------------
    ck.rule("C08-R10", "D who-may-call",
            "inside the transport only armTimerMsImpl programs a timerfd (timerfd_settime): a timer that was disarmed is closed by "
            "handleTimer when it fires, so nothing else may stop or re-program it in the kernel — a stopped timer never fires and its "
            "descriptor and table entry are never released", 1)
    nts = 0
    for fn_ in prog.library_funcs():
        if not fn_.file.endswith("/common/transport.cc"):
            continue
        for e in fn_.calls(lambda e: libc(e, "timerfd_settime")):
            nts += 1
            ok_ = lib.only_reached_from(prog, fn_, {T + "armTimerMsImpl"})
            ck.ob("C08-R10", "timerfd_settime in %s" % prog.owner(fn_).base.replace(T, ""), ok_, e.loc, fn_,
                  "the timer is programmed where it is armed" if ok_ else
                  "%s re-programs the kernel timer: if that stops a disarmed timer it never fires, and handleTimer — the only place that closes "
                  "a disarmed timerfd — is never reached for it" % prog.owner(fn_).base.rsplit("::", 1)[1])
    ck.require(nts >= 1, "timerfd_settime not found in transport.cc")

    # ---------------- R13: a fired response time-out gives its timerfd back ----------------
    ck.rule("C08-R13", "C must-pass-through",
            "the continuation that Http::Timeout::arm attaches to its timer closes the timerfd on every non-throwing path, whatever has "
            "become of the peer in the meantime (a time-out that fires for a connection that is already gone must not keep its descriptor)", 1)
    n13 = 0
    closes_tfd = lib.Summaries(prog).lift_must(
        lambda e: libc(e, "close") and any(strip_tmpl(a.get("f") or "") == "Pistache::Http::Timeout::timerFd" for a in e.get("args", [])), "close-timerfd")
    for fa in prog.find("Pistache::Http::Timeout::arm", 1):
        for lf in prog.lambdas_in(fa):
            if not (lf.params and (lf.params[0].get("type") or "").replace("const ", "").strip() in ("uint64_t", "unsigned long", "std::uint64_t")):
                continue
            n13 += 1
            lff = prog.flat(lf) if hasattr(prog, "flat") else lf
            loose = [x for x in cfg.exits_without(lf, closes_tfd) if x.kind != "throw"]
            ck.ob("C08-R13", "Timeout::arm/fired-timer-closed", not loose, lf.loc, lf,
                  "close(timerFd) on every path of the continuation" if not loose else
                  "the continuation can finish without close(timerFd) (e.g. when the peer has expired): one descriptor stays open per such time-out")
    ck.require(n13 >= 1, "fulfilment continuation of Timeout::arm not found")

    # ---------------- facts shared with C13 ----------------
    ck.borrow("C13", ["C13-R3"], "C08-R12",
              "every accepted connection is registered with its worker: the peers queue is popped until it is empty (its eventfd is "
              "drained before each pop, so a consumer that stops earlier leaves accepted connections behind, unserved and never released)",
              key_pred=lambda k: "peersQueue" in k or "handlePeerQueue" in k, min_instances=1)

    # ---------------- R14: the read path does not complete writes ----------------
    ck.rule("C08-R14", "D who-may-call over the library's call graph",
            "nothing the framework itself does while it reads from a connection (Transport::handleIncoming, Handler::onInput and the library "
            "functions they call) drains the write queue: completing a queued write runs its continuation on the spot, and the continuation "
            "of a queued idle-time-out answer is the release of that very connection -- the read loop would go on with a released peer and "
            "report its disconnection a second time. Writes are completed from the event loop (onReady) and on an explicit flush() of a "
            "response stream by the application", 1)
    lib_file = lambda p_: p_.startswith(facts.REPO + "/src/") or p_.startswith(facts.REPO + "/include/")
    roots14 = prog.find(T + "handleIncoming", 1) + prog.find("Pistache::Http::Handler::onInput", 1)
    seen14, work14 = {}, [(r_, []) for r_ in roots14]
    hit14 = None
    while work14 and hit14 is None:
        f_, chain_ = work14.pop()
        if f_.id in seen14:
            continue
        seen14[f_.id] = chain_
        for e in f_.events("call"):
            for g_ in prog.resolve_call(e):
                if not lib_file(g_.file):
                    continue
                step_ = chain_ + ["%s calls %s at %s" % (f_.name, g_.name, e.loc)]
                if g_.base in (T + "asyncWriteImpl", T + "handleWriteQueue"):
                    hit14 = (e, f_, step_)
                    break
                if g_.id not in seen14:
                    work14.append((g_, step_))
            if hit14:
                break
    ck.ob("C08-R14", "read-path/does-not-drain-the-write-queue", hit14 is None, (hit14[0].loc if hit14 else roots14[0].loc), (hit14[1] if hit14 else roots14[0]),
          "%d library functions reachable from the read path, none drains the write queue" % len(seen14) if hit14 is None else
          "the read path reaches the write drain (%s): a queued write -- the idle-time-out answer, for one -- is completed, and its continuation run, in the middle of reading from the same connection"
          % hit14[2][-1], path=(hit14[2] if hit14 else None))

    # ---------------- R15: a readable event is not swallowed by the writable arm ----------------
    ck.rule("C08-R15", "C dominance + must-pass-through",
            "peer sockets are registered edge-triggered and one ready entry can carry readable and writable (and error / hang-up) at once: "
            "the dispatcher of Transport::onReady either looks at readable first, or -- where writable is tested first -- re-arms the "
            "descriptor (Reactor::modifyFd, i.e. EPOLL_CTL_MOD, which makes the kernel report the pending input again) on the writable arm. "
            "An entry handled as a write only, without a re-arm, loses its readable / hang-up edge for good: the reset of a client with "
            "queued output is never seen and the connection is never released", 1)
    g15 = lib.single(prog, T + "onReady")
    ENTRY = "c:Pistache::Aio::FdSet::Entry::"
    tests = lambda nm: [b for b in g15.blocks.values() if b.term and b.term.get("k") in ("if", "cond", "while") and (ENTRY + nm) in (b.term.get("refs") or [])]
    wbs, rbs = tests("isWritable"), tests("isReadable")
    ck.require(wbs and rbs, "isWritable / isReadable tests not found in Transport::onReady (writable %d, readable %d)" % (len(wbs), len(rbs)))
    dom15 = cfg.dominators(g15)
    summ15 = lib.Summaries(prog)
    rearms = summ15.lift_must(lambda ev: ev["k"] == "call" and (ev.get("callee") or "") == "Pistache::Aio::Reactor::modifyFd", "re-arm")
    heads15 = {x.id for x in g15.blocks.values() if x.term and x.term.get("k") == "rangefor"} | {h for h, _b in cfg.natural_loops(g15)}
    for b in wbs:
        wk = 1 if b.term.get("neg") else 0
        if b.succs[wk] is None:
            continue
        # was readable looked at before this test is reached?
        readable_first = any(r.id in dom15.get(b.id, ()) and r.id != b.id for r in rbs) or \
            any((ENTRY + "isReadable") in (x.term.get("refs") or []) for x in [b])
        # (`const bool readable = entry.isReadable();` evaluated before the writable test counts as well: the readable half is then
        # handled on that local)
        if not readable_first:
            rd_ev = [e_ for e_ in g15.events(("decl", "call")) if (ENTRY + "isReadable") in (e_.get("refs") or []) or (e_.get("callee") or "") == ENTRY[2:] + "isReadable"]
            readable_first = any(e_.block in dom15.get(b.id, ()) or (e_.block == b.id) for e_ in rd_ev)
        unarmed = []

        def step15(st, ev):
            return None if rearms(ev) else st

        def edge15(st, blk, k, succ):
            if succ in heads15:
                unarmed.append(blk.id)
                return None
            return st
        if not readable_first:
            exits15, _ = cfg.run_automaton(g15, 0, step15, edge=edge15, start=b.succs[wk])
            unarmed += [x.block for x in exits15 if x.kind != "throw"]
        ck.ob("C08-R15", "onReady/readable-not-shadowed@%s" % b.term.get("l"), readable_first or not unarmed, "%s:%s" % (g15.file, b.term.get("l")), g15,
              "readable is tested before writable" if readable_first else ("the writable arm re-arms the descriptor on every path" if not unarmed else
              "isWritable() is tested before isReadable() and its arm can finish (block %s) without Reactor::modifyFd: an entry that is both "
              "readable and writable is handled as a write only and its input / hang-up edge is lost" % unarmed[0]))

    # ---------------- R16: the listening socket reports a non-empty backlog until it is empty ----------------
    ck.rule("C08-R16", "I registration mode (effective argument, default included) + C region check",
            "the acceptor takes connections one wake-up at a time and survives a failing accept (the accept loop catches the error and goes "
            "on polling), which is sound only while the listening socket is polled level-triggered: the registration's effective mode "
            "argument -- explicit or the declared default -- is Polling::Mode::Level.  Edge-triggered, a connection that was pending when "
            "an accept failed (EMFILE, ECONNABORTED) is never reported again and is never served", 1)
    lb = [f_ for f_ in prog.funcs.values() if f_.base.startswith("Pistache::Tcp::Listener::") and f_.blocks]
    regs = []
    for f_ in lb:
        for e in f_.events("call"):
            if (e.get("callee") or "") in ("Pistache::Polling::Epoll::addFd",) and len(e.get("args") or []) >= 4:
                a0 = e["args"][0]
                if (a0.get("f") or "").endswith("Listener::listen_fd") or (a0.get("t") or "") in ("fd", "listen_fd", "this->listen_fd"):
                    regs.append((f_, e))
    ck.require(regs, "registration of the listening socket with the poller not found in Listener")
    for f_, e in regs:
        mode = e["args"][3].get("const") or ""
        txt = e["args"][3].get("t") or ""
        level = mode.endswith("Mode::Level") or txt.endswith("Mode::Level")
        ck.ob("C08-R16", "Listener/listen-socket-level-triggered@%s" % f_.base.rsplit("::", 1)[1], level, e.loc, f_,
              "effective mode %s" % (mode or txt) if level else
              "the listening socket is registered with %s%s: the accept loop takes one connection per wake-up and continues after a failed "
              "accept, so a pending connection whose edge was consumed is never accepted" % (mode or txt, " (the declared default)" if e["args"][3].get("dflt") else ""))

    # ---------------- R17: a connection ends in one way only ----------------
    ck.rule("C08-R17", "D who-may-call (zero expected)",
            "the library never half-closes a connection (shutdown(2) on a peer descriptor): a socket whose sending side was shut down "
            "makes the next write of the server -- the 408 of the idle time-out, for one -- fail with EPIPE, which the drain routine "
            "takes for 'the release path has already run', so the connection is never told, never released", 1)
    shut = [(f_, e) for f_ in prog.library_funcs() for e in f_.events("call") if libc(e, "shutdown")]
    ck.ob("C08-R17", "no-half-close", not shut, (shut[0][1].loc if shut else ""), (shut[0][0] if shut else ""),
          "no call of shutdown(2) in the library" if not shut else
          "%s calls shutdown() on a connection's descriptor: the release path is the only way a connection ends" % shut[0][0].name)

    # ---------------- R18: a descriptor is closed by one close() ----------------
    ck.rule("C08-R18", "C loop-freedom (close is not re-issued)",
            "close(2) releases the descriptor number even when it reports EINTR: no library code calls close() on the same descriptor "
            "again in a loop (a `do close(fd) while (EINTR)` wrapper) -- the second call closes whatever connection the acceptor has "
            "put on that number in between", 1)
    ncl = 0
    for f in prog.library_funcs():
        if not f.blocks or f.file.startswith(facts.VERIF):
            continue
        cls_ = [e for e in f.events("call") if libc(e, "close")]
        if not cls_:
            continue
        loops_ = cfg.natural_loops(f)
        for e in cls_:
            ncl += 1
            inl = [(h_, b_) for h_, b_ in loops_ if e.block in b_]
            again = False
            for h_, b_ in inl:
                v_ = (e["args"][0].get("v") or e["args"][0].get("root")) if e.get("args") else None
                renewed = any((x["k"] == "decl" and x.get("var") == v_) or (x["k"] == "assign" and ((x.get("lhs") or {}).get("v") == v_ or (x.get("lhs") or {}).get("root") == v_))
                              for bb in b_ for x in f.blocks[bb].elems)
                fieldy = bool(e["args"][0].get("f")) if e.get("args") else False
                if v_ and not renewed and not fieldy and v_ not in {p_["name"] for p_ in f.params if "&" in (p_.get("type") or "")}:
                    # the loop variable of a range-for / an iterator is renewed by the loop itself
                    it_like = any(x["k"] == "decl" and x.get("var") == v_ for x in f.blocks[h_].elems)
                    if not it_like:
                        again = True
            if again:
                ck.ob("C08-R18", "%s/close-once" % f.base.replace("Pistache::", ""), False, e.loc, f,
                      "close(%s) at line %s sits in a loop that does not renew `%s`: it can be issued twice for the same descriptor number"
                      % (e["args"][0].get("t"), e.get("l"), e["args"][0].get("t")))
    ck.ob("C08-R18", "close-calls-examined", True, "", "", "%d close() call sites; none re-issued in a loop on the same descriptor" % ncl, nontrivial=False)
    ck.require(ncl >= 3, "close() call sites in the library: %d" % ncl)

