"""Analysis H — table agreement: extract literal<->enumerator pairs from the repo's writer and reader idioms."""
import re

from . import cfg
from .facts import strip_tmpl


def _enum_of(const):
    if isinstance(const, str) and const.startswith("e:"):
        return const[2:]
    return None


def switch_map(func):
    """Writer idiom: `switch (x) { case E: return "lit"; }` or `case E: os << "lit"; break;`.
    Returns {enumerator: literal}."""
    out = {}
    for b in func.blocks.values():
        lab = b.label
        if not lab or lab.get("k") != "case":
            continue
        en = _enum_of(lab.get("const")) or lab.get("t")
        # several case labels may fall through to one block: walk forward until a literal is produced
        cur = b
        lit = None
        hops = 0
        while cur is not None and lit is None and hops < 4:
            for e in cur.elems:
                if e["k"] == "return" and isinstance(e.get("const"), str) and e["const"].startswith("s:"):
                    lit = e["const"][2:]
                    break
                if e["k"] == "call" and e.get("op") == "<<":
                    for a in e.get("args", []):
                        if isinstance(a.get("const"), str) and a["const"].startswith("s:"):
                            lit = a["const"][2:]
                            break
                    if lit is not None:
                        break
                if e["k"] == "return" and isinstance(e.get("const"), bool):
                    lit = e["const"]
                    break
            nx = [s for s in cur.succs if s is not None]
            cur = func.blocks.get(nx[0]) if len(nx) == 1 else None
            hops += 1
        if en is not None and lit is not None:
            out[en] = lit
    return out


MATCHERS = {"Pistache::match_string", "Pistache::match_raw", "strncasecmp", "strncmp", "strcasecmp", "strcmp", "std::strcmp", "std::strncmp",
            "Pistache::Http::Header::LowercaseEqualStatic"}


def chain_map(func, field_suffix=None):
    """Reader idiom: `if (match_string("lit", cursor)) field = Enum::X; else if ...`.
    Returns {literal: enumerator assigned in the matching arm}."""
    return dict(chain_pairs(func, field_suffix))


def chain_pairs(func, field_suffix=None, with_block=False):
    """Same as chain_map but as a list of (literal, enumerator) pairs (one literal may be matched in several tables); with_block adds the
    id of the block that makes the comparison (to order the chain by reachability)."""
    out = []
    for b in func.blocks.values():
        t = b.term
        if not t or t.get("k") not in ("if",):
            continue
        lit = None
        zero_is_match = False
        for e in b.elems:
            if e["k"] == "call" and (e.get("callee") or "") in MATCHERS:
                for a in e.get("args", []):
                    if isinstance(a.get("const"), str) and a["const"].startswith("s:"):
                        lit = a["const"][2:]
                zero_is_match = (e.get("callee") or "").startswith("str") or (e.get("callee") or "").startswith("std::str")
        if lit is None:
            continue
        # matching arm: for strcmp-family the condition is `!strcmp(..)` or `strcmp(..) == 0`
        if zero_is_match:
            if t.get("neg"):
                arm = b.succs[0]
            elif t.get("cmp") == "==" and t.get("rconst") == 0:
                arm = b.succs[0]
            elif t.get("cmp") == "!=" and t.get("rconst") == 0:
                arm = b.succs[1]
            else:
                arm = b.succs[1]
        else:
            arm = b.succs[1] if t.get("neg") else b.succs[0]
        if arm is None:
            continue
        en = None
        for e in func.blocks[arm].elems:
            if e["k"] == "assign" and _enum_of(e.get("const")) and (field_suffix is None or (e["lhs"].get("f") or "").endswith(field_suffix)):
                en = _enum_of(e["const"])
                break
            if e["k"] == "return" and _enum_of(e.get("const")) and field_suffix is None:
                # `if (match(lit)) return Enum::X;` in a helper / lambda the chain was moved into
                en = _enum_of(e["const"])
                break
        if en:
            out.append((lit, en, b.id) if with_block else (lit, en))
    return out


_ROW = re.compile(r'\{\s*"([^"]*)"\s*,(?:[^,{}]*,)*?\s*([A-Za-z_]\w*(?:::\w+)+)\s*\}')


def static_table(init_text):
    """Reader idiom: static constexpr table `{ {"lit", sizeof("lit") - 1, Enum::X}, ... }`.  Returns {literal: enumerator-suffix}."""
    return {m.group(1): m.group(2) for m in _ROW.finditer(init_text or "")}


def compared_literals(func):
    """string literals handed to a comparison routine anywhere in func (strncmp/memcmp/match_raw/match_string/... and ==)"""
    out = set()
    for e in func.events("call"):
        c = e.get("callee") or ""
        if c in MATCHERS or e.get("op") in ("==", "!=") or c.rsplit("::", 1)[-1] in ("compare",):
            for a in e.get("args", []):
                k = a.get("const")
                if isinstance(k, str) and k.startswith("s:"):
                    out.add(k[2:])
    return out


def assigned_enums(func, field_suffix=None):
    """enumerators stored (anywhere in func, including through ?:) into a field whose name ends with field_suffix"""
    out = set()
    for e in func.events("assign"):
        if field_suffix is not None and not (e["lhs"].get("f") or "").endswith(field_suffix):
            continue
        en = _enum_of(e.get("const"))
        if en:
            out.add(en)
        for r in (e.get("refs") or []):
            if isinstance(r, str) and r.startswith("e:"):
                out.add(r[2:])
    return out


def reader_map(prog, func):
    """{literal: enumerator} a reader maps tokens with, whatever idiom it uses: an if-chain of comparisons with literals whose arms
    store an enumerator (chain_map), and/or static lookup tables local to the function whose rows are {"literal", ..., Enum::X}."""
    out = dict(chain_map(func))
    for v in prog.vars:
        fn_ = v.get("func") or ""
        if fn_ and (func.base in fn_ or func.name in fn_):
            for lit, en in static_table(v.get("init")).items():
                out.setdefault(lit, en)
    return out


def referenced_tables(prog, func, lambdas=(), as_pairs=False):
    """{literal: enumerator} of the namespace-scope lookup tables (rows `{"literal", ..., Enum::X}`) that func or its lambdas name: a
    reader that walks such a table pairs each literal with the enumerator in the same row"""
    names = set()
    for g in [func] + list(lambdas):
        for e in g.events():
            for r in (e.get("refs") or []):
                if r.startswith("v:"):
                    names.add(r[2:].split("@")[0])
            for a in (e.get("args") or []):
                if a.get("root"):
                    names.add(a["root"].split("@")[0])
    out = {}
    for v in prog.vars:
        if v.get("func") or not v.get("init") or v.get("file") != func.file:
            continue
        if v["name"].rsplit("::", 1)[-1] in names:
            for lit, en in static_table(v["init"]).items():
                if as_pairs:
                    out.setdefault((lit, en), en)
                else:
                    out.setdefault(lit, en)
    return list(out) if as_pairs else out


def enum_predicate(func):
    """For a bool function over an enumeration: the set of enumerators it answers true for, or None when the shape is not one of
    `switch { case A: case B: return true; default: return false; }` / `return x == A || x == B ...`."""
    m = switch_map(func)
    if m and all(isinstance(v, bool) for v in m.values()):
        return {k for k, v in m.items() if v is True}
    ens = set()
    for e in func.events("cmp"):
        if e.get("op") == "==" and isinstance(e.get("rconst"), str) and e["rconst"].startswith("e:"):
            ens.add(e["rconst"][2:])
        elif e.get("op") not in ("==",):
            return None
    for b in func.blocks.values():
        t = b.term
        if t and t.get("cmp") == "==" and isinstance(t.get("rconst"), str) and t["rconst"].startswith("e:"):
            ens.add(t["rconst"][2:])
        elif t and t.get("cmp") not in (None, "=="):
            return None
    rets = [e for e in func.events("return")]
    if ens and rets and all(e.get("const") in (None, True, False) for e in rets):
        return ens
    return None


def writer_map(prog, func, lib):
    """{enumerator: literal} a writer prints: the switch-return / switch-insert map of the function itself or of the file-local
    (or same-class) helpers and lambdas it delegates the choice of the literal to."""
    out = dict(switch_map(func))
    if out:
        return out
    for g in lib.region(prog, func, within=lambda g: g.is_lambda or (g.file == func.file and (not g.cls or g.cls == func.cls)), depth=2):
        if g.id != func.id:
            for k, v in switch_map(g).items():
                out.setdefault(k, v)
    return out


def arg_literal(prog, a):
    """the string an argument stands for: a literal, or a namespace-scope constant initialised with one (both sides of a table may
    share one named constant)"""
    k = a.get("const")
    if isinstance(k, str) and k.startswith("s:"):
        return k[2:]
    g = a.get("g")
    if g:
        for v in prog.vars:
            if v["name"] == g:
                m = re.match(r'^\s*"((?:[^"\\]|\\.)*)"\s*$', v.get("init") or "")
                if m:
                    return m.group(1)
    return None
