"""Fact loading: run pvfacts over the translation units of /repo (and the instantiation drivers in
/verif/inst), merge the per-unit JSON into one whole-program view and provide indices."""
import glob
import gzip
import hashlib
import re as _re_mod
import json
import os
import re
import subprocess
import sys
import time
from concurrent.futures import ThreadPoolExecutor

VERIF = os.path.dirname(os.path.dirname(os.path.abspath(__file__)))
REPO = os.environ.get("PV_REPO", "/repo")
TOOL = os.path.join(VERIF, "build", "pvfacts")
CACHE = os.path.join(VERIF, ".cache")

# Flags of the real build (ninja -t compdb) minus optimisation; -UNDEBUG keeps asserts visible.
def flags(repo=None):
    repo = repo or REPO
    return ["-std=gnu++17", "-I%s/include" % repo, "-I%s/subprojects/hinnant-date/include" % repo,
            "-DONLY_C_LOCALE=1", "-UNDEBUG", "-w", "-I%s/inst" % VERIF]


class AnalysisBroken(Exception):
    """The analysis cannot give a verdict (anchor vanished, unit does not parse, ...): exit code 2."""


def library_units(repo=None):
    repo = repo or REPO
    units = sorted(glob.glob(os.path.join(repo, "src", "**", "*.cc"), recursive=True))
    if len(units) < 20:
        raise AnalysisBroken("only %d library units found under %s/src" % (len(units), repo))
    return units


def inst_units():
    return sorted(glob.glob(os.path.join(VERIF, "inst", "*.cc")))


def extra_units(repo=None):
    repo = repo or REPO
    return sorted(glob.glob(os.path.join(repo, "tests", "*.cc")) + glob.glob(os.path.join(repo, "examples", "*.cc")))


def _tree_hash(repo):
    h = hashlib.sha256()
    files = []
    for root in (os.path.join(repo, "include"), os.path.join(repo, "src"), os.path.join(repo, "subprojects", "hinnant-date", "include"),
                 os.path.join(VERIF, "inst")):
        for dp, _dn, fn in os.walk(root):
            for f in fn:
                files.append(os.path.join(dp, f))
    for f in sorted(files):
        # (path relative to its root: an identical copy of the sources somewhere else shares the cache entry)
        rel = os.path.relpath(f, repo) if f.startswith(repo + os.sep) else "verif:" + os.path.relpath(f, VERIF)
        h.update(rel.encode())
        try:
            with open(f, "rb") as fh:
                h.update(hashlib.sha256(fh.read()).digest())
        except OSError:
            pass
    st = os.stat(TOOL)
    h.update(("%d:%d" % (st.st_size, int(st.st_mtime))).encode())
    h.update(" ".join(flags(repo)).replace(repo, "@@REPO@@").encode())
    h.update(b"cache-format-3")
    return h.hexdigest()[:24]


def _extract_one(unit, outdir, repo):
    relunit = os.path.relpath(unit, repo) if unit.startswith(repo + os.sep) else "verif_" + os.path.relpath(unit, VERIF)
    out = os.path.join(outdir, re.sub(r"[^A-Za-z0-9_.]", "_", relunit) + ".json.gz")
    if os.path.exists(out) and os.path.getsize(out) > 0:
        return unit, out, 0.0, ""
    t0 = time.time()
    tmp = out[:-3] + ".tmp%d" % os.getpid()
    cmd = [TOOL, "--root", repo + "/", "--root", VERIF + "/inst/", "-o", tmp, unit, "--"] + flags(repo)
    if unit.startswith(os.path.join(repo, "tests")) or unit.startswith(os.path.join(repo, "examples")):
        cmd += ["-I%s/tests" % repo, "-I%s/subprojects/cpp-httplib" % repo, "-I/usr/include/rapidjson"]
    p = subprocess.run(cmd, stdout=subprocess.PIPE, stderr=subprocess.PIPE, text=True)
    if p.returncode != 0 or not os.path.exists(tmp):
        if os.path.exists(tmp):
            os.unlink(tmp)
        return unit, None, time.time() - t0, p.stderr[-2000:]
    # stored with the root of the analysed tree replaced by a placeholder (Program puts the current root back), so that the entry can be
    # used for an identical tree in another place
    with open(tmp) as fh:
        txt = fh.read()
    os.unlink(tmp)
    tmpz = out + ".tmp%d" % os.getpid()
    with gzip.open(tmpz, "wt", compresslevel=1) as fh:
        fh.write(txt.replace(repo.rstrip("/") + "/", "@@REPO@@/"))
    os.replace(tmpz, out)
    return unit, out, time.time() - t0, ""


def extract(units, repo=None, jobs=16, tolerate=()):
    """Run pvfacts on units (cached by a hash of every source/header file).  Returns list of json paths."""
    repo = repo or REPO
    if not os.path.exists(TOOL):
        subprocess.run([os.path.join(VERIF, "tool", "build.sh")], check=True, stdout=subprocess.DEVNULL)
    key = _tree_hash(repo)
    outdir = os.path.join(CACHE, key)
    os.makedirs(outdir, exist_ok=True)
    # keep the cache small: drop other trees' entries (oldest first) beyond 40 (32 MB each) -- but never one that was used in the last
    # hour: several checks may run at once on different trees (the thorough tier's workers, checks started in parallel)
    try:
        os.utime(outdir, None)
        now = time.time()
        others = sorted((d for d in os.listdir(CACHE) if d != key), key=lambda d: os.path.getmtime(os.path.join(CACHE, d)))
        for d in others[:-40] if len(others) > 40 else []:
            if now - os.path.getmtime(os.path.join(CACHE, d)) > 3600:
                subprocess.run(["rm", "-rf", os.path.join(CACHE, d)])
    except OSError:
        pass
    res = []
    with ThreadPoolExecutor(max_workers=jobs) as ex:
        for unit, out, dt, err in ex.map(lambda u: _extract_one(u, outdir, repo), units):
            if out is None:
                if any(unit.startswith(t) for t in tolerate):
                    continue
                raise AnalysisBroken("unit %s does not parse: %s" % (unit, err))
            res.append(out)
    return res


_TMPL = re.compile(r"<[^<>]*>")


def strip_tmpl(name):
    """Remove all template-argument lists from a qualified name."""
    if "<" not in name:
        return name
    # protect operator< / operator<< / operator<= / operator->
    prot = name.replace("operator<<", "operator\x01\x01").replace("operator<=", "operator\x01=").replace("operator<", "operator\x01") \
               .replace("operator->", "operator-\x02").replace("operator>>", "operator\x02\x02").replace("operator>=", "operator\x02=").replace("operator>", "operator\x02")
    prev = None
    while prev != prot:
        prev = prot
        prot = _TMPL.sub("", prot)
    return prot.replace("\x01", "<").replace("\x02", ">")


class Event(dict):
    __slots__ = ("func", "block", "idx")

    def __getattr__(self, k):
        try:
            return self[k]
        except KeyError:
            return None

    @property
    def loc(self):
        return "%s:%s" % (self.get("fl") or self.func.file, self.get("l"))

    def base_callee(self):
        return strip_tmpl(self.get("callee") or "")


class Block(object):
    __slots__ = ("id", "succs", "elems", "term", "label", "preds", "unreach")

    def __init__(self, d, func):
        self.id = d["id"]
        self.succs = []
        self.unreach = []
        for s in d["succs"]:
            if isinstance(s, int):
                self.succs.append(s)
            elif isinstance(s, dict):
                self.succs.append(None)
                self.unreach.append(s["unreach"])
            else:
                self.succs.append(None)
        self.elems = []
        for i, e in enumerate(d["elems"]):
            ev = Event(e)
            ev.func = func
            ev.block = self.id
            ev.idx = i
            self.elems.append(ev)
        self.term = d.get("term")
        self.label = d.get("label")
        self.preds = []


class Func(object):
    def __init__(self, d):
        self.d = d
        self.id = d["id"]
        self.name = d["name"]
        self.base = strip_tmpl(d["name"])
        self.full = d.get("full") or ""
        self.file = d["file"]
        self.line = d["line"]
        self.endline = d.get("endline")
        self.cls = d.get("cls")
        self.parent = d.get("parent")
        self.is_lambda = bool(d.get("lambda"))
        self.params = d.get("params", [])
        self.blocks = {}
        for b in d.get("blocks", []):
            blk = Block(b, self)
            self.blocks[blk.id] = blk
        for b in self.blocks.values():
            # `while (true)` / `for (;true;)` / `do ... while (1)`: the exit edge of a literally constant loop condition does not exist
            # (the extractor keeps trivially-false edges so that `if (sizeof...)`-style branches stay visible; loops are pruned here)
            t = b.term
            if t and t.get("k") in ("while", "for", "do") and len(b.succs) == 2:
                c = t.get("cond")
                c = c[0] if isinstance(c, list) and len(c) == 1 else c
                if c in ("true", "1"):
                    b.succs[1] = None
                elif c in ("false", "0"):
                    b.succs[0] = None
        for b in self.blocks.values():
            for s in b.succs:
                if s is not None and s in self.blocks:
                    self.blocks[s].preds.append(b.id)
        self.entry = d.get("entry")
        self.exit = d.get("exit")

    @property
    def loc(self):
        return "%s:%s" % (self.file, self.line)

    def events(self, kind=None):
        for bid in sorted(self.blocks, reverse=True):
            for e in self.blocks[bid].elems:
                if kind is None or e["k"] == kind or (isinstance(kind, (tuple, list, set)) and e["k"] in kind):
                    yield e

    def calls(self, pred=None):
        for e in self.events("call"):
            if pred is None or pred(e):
                yield e

    def __repr__(self):
        return "<Func %s @%s>" % (self.name, self.loc)


class Program(object):
    def __init__(self, paths, repo=None):
        self.funcs = {}
        self.classes = {}
        self.class_list = []
        self.vars = []
        self.units = []
        self.errors = 0
        seen_vars = set()
        root = (repo or REPO).rstrip("/") + "/"
        for p in paths:
            with (gzip.open(p, "rt") if p.endswith(".gz") else open(p)) as fh:
                d = json.loads(fh.read().replace("@@REPO@@/", root))
            self.units.append(d.get("unit"))
            self.errors += d.get("errors", 0)
            for f in d["functions"]:
                if f["id"] not in self.funcs:
                    self.funcs[f["id"]] = Func(f)
            for c in d["classes"]:
                key = (c["name"], bool(c.get("dependent")))
                if key not in self.classes:
                    self.classes[key] = c
                    self.class_list.append(c)
            for v in d["vars"]:
                k = (v["name"], v["file"], v["line"])
                if k not in seen_vars:
                    seen_vars.add(k)
                    self.vars.append(v)
        self.by_name = {}
        self.by_base = {}
        for f in self.funcs.values():
            self.by_name.setdefault(f.name, []).append(f)
            self.by_base.setdefault(f.base, []).append(f)
        self._callers = None
        self._subclasses = None

    def library_funcs(self):
        """Functions defined in the library itself (src/, include/) or instantiated for it by the /verif/inst drivers — not tests,
        examples or bundled third-party code, which the thorough tier parses only as additional instantiation sources."""
        pref = (os.path.join(REPO, "src") + os.sep, os.path.join(REPO, "include") + os.sep, os.path.join(VERIF, "inst") + os.sep)
        return [f for f in self.funcs.values() if f.file.startswith(pref)]

    def flat_library_funcs(self):
        """The library's functions as the rules should see them when they scan for a construct wherever it is: every function (and lambda)
        that existed when the rules were confirmed, flattened over the helpers introduced since (their code is seen inside their callers,
        with parameters bound to the callers' arguments); the new helpers themselves are not listed."""
        names, _lams = self.reference()
        out = []
        for f in self.library_funcs():
            if names is not None and not f.is_lambda and f.base not in names and f.file.startswith((os.path.join(REPO, "src") + os.sep, os.path.join(REPO, "include") + os.sep)):
                if self.call_sites(f.base):
                    continue            # a new helper: seen through its callers
            out.append(self.flat(f) if not f.is_lambda else f)
        return out

    # ---- lookup ----
    def find(self, base, min_count=1, exact=False):
        """Functions whose template-stripped qualified name equals `base`."""
        r = list(self.by_name.get(base, [])) if exact else list(self.by_base.get(base, []))
        if len(r) < min_count:
            raise AnalysisBroken("anchor function %s: found %d definition(s), need >= %d" % (base, len(r), min_count))
        return [self.flat(f) for f in r]

    def find1(self, base):
        r = self.find(base, 1)
        # several instantiations are fine for templates, but a non-template must be unique
        return r[0]

    # ---- flattening: helpers introduced after the reference snapshot are expanded in place ----
    _REF = None

    @classmethod
    def reference(cls):
        if cls._REF is None:
            p = os.path.join(VERIF, "reference", "functions.json")
            try:
                with open(p) as fh:
                    d = json.load(fh)
                cls._REF = (set(d.get("functions", [])), {k: set(v) for k, v in d.get("lambda_vars", {}).items()})
            except (OSError, ValueError):
                cls._REF = (None, {})
        return cls._REF

    STD_LAMBDA_LOOPS = ("std::for_each", "std::any_of", "std::all_of", "std::none_of", "std::find_if", "std::find_if_not", "std::count_if", "std::transform", "std::generate_n", "std::remove_if", "std::equal", "std::mismatch", "std::search")

    def expandable(self, caller, ev, g, root=None):
        """g is a helper the code of `caller` was moved into after the rules were written: a library function that does not exist in
        the reference snapshot, or a local lambda of `caller` bound to a variable the reference does not know.  Functions and lambdas
        that existed when the rules were confirmed are never expanded (the rules deal with them as they are)."""
        names, lams = self.reference()
        if names is None or not g.blocks:
            return False
        if g.is_lambda:
            top = self.owner(caller)
            var = (ev.get("recv") or {}).get("v") or (ev.get("recv") or {}).get("root")
            if self.owner(g).id != top.id:
                # a lambda written in the function being flattened and invoked, through a parameter, inside a helper it was handed to
                if root is not None and self.owner(g).id == self.owner(root).id and not caller.is_lambda and caller.id != root.id:
                    return bool(var) and var in {p_.get("name") for p_ in caller.params}
                return False
            return bool(var) and var not in lams.get(top.base, set())
        pref = (os.path.join(REPO, "src") + os.sep, os.path.join(REPO, "include") + os.sep)
        return g.file.startswith(pref) and g.base not in names

    def flat(self, func, depth=3):
        """func with every call of an expandable helper (see above) replaced by the helper's own CFG: the call event stays, followed by
        one synthetic declaration per parameter (`param := argument`), the helper's blocks (its returns become 'iret' events and lead on
        to the code after the call; its throws lead to the function exit), and the rest of the calling block.  On a tree without new
        helpers flat(f) is f."""
        memo = self.__dict__.setdefault("_flat_memo", {})
        if func.id in memo:
            return memo[func.id]
        memo[func.id] = func
        res = self._flatten(func, depth, (func.id,), func)
        memo[func.id] = res
        return res

    def _flatten(self, func, depth, stack, root=None):
        root = root or func
        names_, lams_ = self.reference()
        todo = []
        for b in func.blocks.values():
            for e in b.elems:
                if e["k"] == "call" and depth > 0:
                    gs = [g for g in self.resolve_call(e) if g.id not in stack and self.expandable(func, e, g, root)]
                    if len(gs) >= 1 and not e.get("virt"):
                        todo.append((b.id, e.idx, gs[0], False))
                        continue
                    # a standard algorithm handed a lambda written here (and not known to the reference): the lambda body runs
                    # zero or more times at this point
                    if (e.get("callee") or "").split("<")[0] in self.STD_LAMBDA_LOOPS and names_ is not None:
                        for a_ in e.get("args", []):
                            if a_.get("lam"):
                                ls_ = [g for g in self.lambda_by_id(a_["lam"].split("#in:")[0], func) if g.blocks and g.id not in stack]
                                known = self.owner(func).base in names_ and self.owner(func).id == self.owner(root).id and \
                                    not getattr(self.owner(func), "flattened", False) and self._lambda_in_reference(self.owner(func), e)
                                if ls_ and not known:
                                    todo.append((b.id, e.idx, ls_[0], True))
                                    break
        if not todo:
            return func
        import copy
        nf = copy.copy(func)
        nf.blocks = {}
        nf.flattened = True

        def clone_ev(e, **over):
            c = Event(dict(e))
            c.update(over)
            c.func = nf
            return c

        def mk(bid, elems, succs, term, label):
            blk = Block.__new__(Block)
            blk.id, blk.elems, blk.succs, blk.term, blk.label, blk.preds, blk.unreach = bid, elems, list(succs), term, label, [], []
            nf.blocks[bid] = blk
            return blk
        by_block = {}
        for bid, idx, g, loop in todo:
            by_block.setdefault(bid, []).append((idx, g, loop))
        for b in func.blocks.values():
            pieces = sorted(by_block.get(b.id, []), key=lambda x: x[0])
            # one expansion per call event
            seen_idx = set()
            pieces = [p_ for p_ in pieces if not (p_[0] in seen_idx or seen_idx.add(p_[0]))]
            if not pieces:
                mk(b.id, [clone_ev(e) for e in b.elems], b.succs, b.term, b.label)
                continue
            # split the block at every expanded call: [.. call, param decls] -> callee -> [rest].  New block ids are fractions between
            # b.id - 1 and b.id so that "descending block id = source order" (clang's numbering) stays true for the flattened function
            span = 1.0 / (len(pieces) + 1)
            start = 0
            cur = mk(b.id, [], [], None, b.label)
            last_thread = None
            for j, (idx, g, loop) in enumerate(pieces, 1):
                gflat = self._flatten(g, depth - 1, stack + (g.id,), root)
                call = b.elems[idx]
                cur.elems += [clone_ev(e) for e in b.elems[start:idx + 1]]
                cur.elems[-1]["inlined"] = gflat.id
                nf.__dict__.setdefault("inlined_funcs", set()).update({g.id} | set(getattr(gflat, "inlined_funcs", ())))
                # the caller branches on what the helper returned: which of the helper's paths goes with which branch is not modelled
                t_ = b.term or {}
                thread = None
                rest_evs = b.elems[idx + 1:]
                # `r = helper(..)` directly followed by the branch: the local that receives the result
                res_vars = {x.get("var") for x in rest_evs if x["k"] == "decl" and x.get("var") and ((x.get("init") or {}).get("t") or "").strip() == (call.get("t") or "").strip()}
                ctext_ = (call.get("t") or "").strip()
                # (`if (!r)` on a std::optional / smart pointer result goes through its operator bool / has_value: part of the test)
                engaged_test = lambda x: x["k"] == "call" and (x.get("callee") or "").rsplit("::", 1)[-1] in ("operator bool", "has_value") and (x.get("recv") or {}).get("v") in res_vars
                if not loop and all(x["k"] in ("cast", "use") or (x["k"] == "decl" and x.get("var") in res_vars) or engaged_test(x) or
                                    (x["k"] == "cmp" and ctext_ and (((x.get("lhs") or {}).get("t") or "").strip() == ctext_ or ((x.get("rhs") or {}).get("t") or "").strip() == ctext_))
                                    for x in rest_evs):
                    on_call = ("c:" + (call.get("callee") or "")) in (t_.get("refs") or [])
                    on_var = bool(res_vars) and any(("v:" + v_) in (t_.get("leafrefs") or t_.get("refs") or []) for v_ in res_vars)
                    rets_all_ = list(gflat.events("return")) + [r_ for r_ in gflat.events("iret") if r_.get("of") == gflat.id]
                    bool_local_ = any((r_.get("val") or {}).get("v") and "bool" in ((r_.get("val") or {}).get("vt") or "") for r_ in rets_all_)
                    if t_ and (on_call or on_var) and (len({str(r_.get("const")) + (r_.get("t") or "") for r_ in rets_all_}) > 1 or bool_local_):
                        # the caller branches on what the helper returned: every path of the helper that returns a constant is led
                        # straight to the branch that constant selects (see thread_returns); what is left is not modelled
                        thread = {"call": call, "vars": res_vars, "helper": gflat, "irets": []}
                if thread is None and not loop and t_:
                    # the helper branches on the very value it returns, and the caller branches on it again: which path of the helper
                    # goes with which branch of the caller is not modelled
                    rvs_ = {(r_.get("val") or {}).get("v") for r_ in list(gflat.events("return")) + [x for x in gflat.events("iret") if x.get("of") == gflat.id]} - {None}
                    own_ = any(("v:" + rv_) in ((gb_.term or {}).get("refs") or []) for gb_ in gflat.blocks.values() for rv_ in rvs_)
                    again_ = ("c:" + (call.get("callee") or "")) in (t_.get("refs") or []) or any(("v:" + v_) in (t_.get("refs") or []) for v_ in res_vars)
                    if own_ and again_:
                        nf.__dict__.setdefault("unmodelled", []).append("the result of %s is tested inside it and again by its caller at line %s (which of its paths goes with which branch is not modelled)" % (
                            gflat.base.rsplit("::", 1)[-1] if not gflat.is_lambda else "the lambda at line %s" % gflat.line, t_.get("l")))
                # `return helper(..);`: every path of the helper ends in its own copy of that return statement, which returns what the
                # path returned
                rets_ = [x for x in rest_evs if x["k"] == "return"]
                if not loop and len(rets_) == 1 and ((rets_[0].get("val") or {}).get("t") or rets_[0].get("t") or "").strip() == (call.get("t") or "").strip() and (call.get("t") or "").strip() \
                        and all(x["k"] in ("cast", "use", "return", "dtor", "member") for x in rest_evs):
                    thread = {"call": call, "vars": set(), "helper": gflat, "irets": [], "ret": True}
                for i, p_ in enumerate(gflat.params):
                    args = call.get("args") or []
                    if i < len(args) and p_.get("name"):
                        a_ = args[i]
                        cur.elems.append(clone_ev({"k": "bind", "var": p_["name"], "type": p_.get("type"), "init": dict(a_), "synthetic": True, "l": call.get("l"), "fl": call.get("fl"),
                                                   "refs": (["v:" + a_["v"]] if a_.get("v") else []) + (["f:" + a_["f"]] if a_.get("f") else []), "t": "%s := %s" % (p_["name"], a_.get("t"))}))
                # names inside the helper: a parameter that is handed a plain variable of the caller *is* that variable (structured
                # fields and expression text); other parameters and the helper's own locals get a suffix so that they cannot be
                # mistaken for a caller variable of the same name
                suffix = "@" + (gflat.base.rsplit("::", 1)[-1] if not gflat.is_lambda else "lambda%s" % gflat.line)
                ren, txt, refmap, constmap = {}, {}, {}, {}
                cargs = call.get("args") or []
                _off = len(cargs) - len(gflat.params) if gflat.is_lambda and len(cargs) == len(gflat.params) + 1 else 0
                for i, p_ in enumerate(gflat.params):
                    a_ = cargs[i + _off] if 0 <= i + _off < len(cargs) else {}
                    if p_.get("name") and isinstance(a_.get("const"), (str, int)) and not isinstance(a_.get("const"), bool) and \
                            (not isinstance(a_["const"], str) or a_["const"][:2] in ("s:", "c:", "e:")):
                        constmap[p_["name"]] = a_["const"]
                for i, p_ in enumerate(gflat.params):
                    pn = p_.get("name")
                    if not pn:
                        continue
                    a_ = cargs[i] if i < len(cargs) else {}
                    if a_.get("v") and (a_.get("t") or "").strip() in (a_["v"], "std::move(%s)" % a_["v"]):
                        ren[pn] = (a_["v"], a_.get("vd"))
                        txt[pn] = a_["v"]
                    elif a_.get("f") and re.match(r"^(this->)?\w+((\.|->)\w+)*$", (a_.get("t") or "").strip()):
                        # handed a member of the caller's object: inside the helper the parameter *is* that member
                        refmap[pn] = {k_: v_ for k_, v_ in a_.items() if k_ in ("t", "f", "b", "ft", "ty", "root", "rootT", "rootd")}
                        ren[pn] = (pn + suffix, None)
                        txt[pn] = a_["t"].strip()
                    else:
                        ren[pn] = (pn + suffix, None)
                        if a_.get("t"):
                            txt[pn] = "(%s)" % a_["t"] if re.search(r"[^\w.>:\-()\[\]]", a_["t"]) else a_["t"]
                for d_ in gflat.events("decl"):
                    if d_.get("var") and d_["var"] not in ren and not d_.get("synthetic"):
                        ren[d_["var"]] = (d_["var"] + suffix, None)
                tpat = re.compile(r"(?<![\w.>])(%s)\b" % "|".join(map(re.escape, sorted(txt, key=len, reverse=True)))) if txt else None

                def subst(x):
                    if isinstance(x, dict):
                        if x.get("v") in refmap and (x.get("t") or "").strip() == x.get("v"):
                            return dict(refmap[x["v"]])
                        out = {}
                        if x.get("v") in constmap and (x.get("t") or "").strip() == x.get("v") and x.get("const") is None:
                            # a parameter that was handed a literal: it is that literal wherever it is used as such
                            out["const"] = constmap[x["v"]]
                        for k_, v_ in x.items():
                            if k_ in ("v", "var", "root") and isinstance(v_, str) and v_ in ren:
                                out[k_] = ren[v_][0]
                                if ren[v_][1] is not None:
                                    out["vd" if k_ in ("v", "var") else "rootd"] = ren[v_][1]
                            elif k_ in ("vd", "rootd") and out.get("v" if k_ == "vd" else "root") != x.get("v" if k_ == "vd" else "root"):
                                out.setdefault(k_, v_) if ren.get(x.get("v" if k_ == "vd" else "root"), (None, None))[1] is None else None
                            elif k_ in ("t", "cond", "b") and isinstance(v_, str) and tpat is not None:
                                out[k_] = tpat.sub(lambda m_: txt[m_.group(1)], v_)
                            elif k_ in ("refs", "leafrefs") and isinstance(v_, list):
                                out[k_] = [("v:" + ren[r_[2:]][0]) if isinstance(r_, str) and r_.startswith("v:") and r_[2:] in ren else r_ for r_ in v_]
                                # a parameter that stands for a member of the caller's object: the member is referenced too
                                out[k_] += ["f:" + refmap[r_[2:]]["f"] for r_ in v_ if isinstance(r_, str) and r_.startswith("v:") and r_[2:] in refmap and refmap[r_[2:]].get("f")
                                            and ("f:" + refmap[r_[2:]]["f"]) not in out[k_]]
                            else:
                                out[k_] = subst(v_)
                        return out
                    if isinstance(x, list):
                        return [subst(y) for y in x]
                    return x
                rest_id = b.id - j * span
                gkeys = sorted(gflat.blocks)
                gmax = float(max(gkeys)) + 1.0
                gmin = float(min(gkeys))
                base_hi = b.id - (j - 1) * span - span * 0.05
                idmap = {k: base_hi - (1.0 - (float(k) - gmin) / (gmax - gmin)) * span * 0.9 for k in gkeys}
                for gb in gflat.blocks.values():
                    if gb.id == gflat.exit:
                        continue
                    elems, last_kind = [], None
                    for e in gb.elems:
                        e2 = subst(dict(e))
                        if e["k"] == "return":
                            elems.append(clone_ev(e2, k="iret", of=gflat.id))
                            last_kind = "return"
                        else:
                            elems.append(clone_ev(e2))
                            if e["k"] == "throw":
                                last_kind = "throw"
                    succs = []
                    for s_ in gb.succs:
                        if s_ is None:
                            succs.append(None)
                        elif s_ == gflat.exit:
                            succs.append(func.exit if last_kind == "throw" else rest_id)
                        else:
                            succs.append(idmap[s_])
                    mk(idmap[gb.id], elems, succs, subst(gb.term) if gb.term else gb.term, gb.label)
                    if thread is not None and last_kind == "return":
                        thread["irets"].append(idmap[gb.id])
                cur.succs = [idmap[gflat.entry]] if gflat.entry != gflat.exit else [rest_id]
                cur.term = None
                if loop and gflat.entry != gflat.exit:
                    # zero or more executions: a header that either enters the body or goes on; the body's returns come back to it
                    hdr_id = base_hi + span * 0.02
                    mk(hdr_id, [], [idmap[gflat.entry], rest_id], {"k": "while", "cond": "<elements of %s>" % (call.get("t") or "")[:80], "refs": list(call.get("refs") or []), "synthetic": True, "l": call.get("l")}, None)
                    cur.succs = [hdr_id]
                    for cb in nf.blocks.values():
                        if cb.id in idmap.values():
                            cb.succs = [hdr_id if s_ == rest_id else s_ for s_ in cb.succs]
                cur = mk(rest_id, [], [], None, None)
                start = idx + 1
                last_thread = thread
            cur.elems += [clone_ev(e) for e in b.elems[start:]]
            cur.succs, cur.term = list(b.succs), b.term
            if last_thread is not None:
                self._thread_returns(nf, func, cur, last_thread, span, mk, clone_ev)
        # renumber events and rebuild predecessors
        for blk in nf.blocks.values():
            for i, e in enumerate(blk.elems):
                e.block, e.idx = blk.id, i
        for blk in nf.blocks.values():
            for s_ in blk.succs:
                if s_ is not None and s_ in nf.blocks:
                    nf.blocks[s_].preds.append(blk.id)
        return nf

    def _thread_returns(self, nf, func, rest, th, span, mk, clone_ev):
        """rest: the block that follows an expanded helper and ends in a branch on the helper's result.  Every block of the helper
        that ends in `return <constant>` gets its own copy of `rest` that goes only where that constant leads (if / == / != / switch);
        a return whose value is not a constant keeps going to `rest` itself, and the function is then marked as not fully modelled."""
        t_ = rest.term or {}
        call, helper = th["call"], th["helper"]
        ctext = (call.get("t") or "").strip()
        if th.get("ret"):
            made = {}
            for bid in th["irets"]:
                blk = nf.blocks[bid]
                ir = [e for e in blk.elems if e["k"] == "iret" and e.get("of") == helper.id][-1]
                key = (repr(ir.get("const")), ir.get("t"))
                if key not in made:
                    elems = []
                    for e in rest.elems:
                        e2 = clone_ev(e)
                        if e["k"] == "return":
                            for k_ in ("const", "val", "refs", "arms"):
                                e2.pop(k_, None)
                                if ir.get(k_) is not None:
                                    e2[k_] = ir[k_]
                            e2["t"] = ir.get("t")
                            e2["via"] = helper.id
                        elems.append(e2)
                    made[key] = mk(rest.id - span * 0.04 * (len(made) + 1) / 16.0, elems, rest.succs, rest.term, None)
                blk.succs = [made[key].id if s_ == rest.id else s_ for s_ in blk.succs]
            if made and not any(rest.id in x.succs for x in nf.blocks.values() if x is not rest):
                del nf.blocks[rest.id]
            return

        def is_subject(ref):
            ref = ref or {}
            return (ref.get("t") or "").strip() == ctext or (ref.get("v") in th["vars"] and (ref.get("t") or "").strip() == ref.get("v"))

        def choose(c):
            k = t_.get("k")
            # (also the operand blocks of a short-circuit condition: successor 0 is always "this operand is true")
            if k in ("if", "land", "lor", "while", "for", "do") and len(rest.succs) == 2:
                if not t_.get("cmp"):
                    if not is_subject(t_.get("core")) or not isinstance(c, bool):
                        return None
                    truth = c
                elif t_.get("cmp") in ("==", "!=") and t_.get("rconst") is not None and is_subject(t_.get("lhs")) and type(t_.get("rconst")) == type(c):
                    truth = (t_["rconst"] == c) == (t_["cmp"] == "==")
                else:
                    return None
                return 0 if truth != bool(t_.get("neg")) else 1
            if k == "switch" and is_subject(t_.get("core")) or (k == "switch" and (t_.get("cond") or "").strip() == ctext):
                dflt = None
                for i_, s_ in enumerate(rest.succs):
                    lb = (func.blocks[s_].label or {}) if s_ in func.blocks else {}
                    if lb.get("k") == "case" and lb.get("const") == c:
                        return i_
                    if lb.get("k") != "case":
                        dflt = i_
                return dflt
            return None
        left = 0
        made = {}
        # `return c ? A : B;`: clang evaluates the arms in two blocks that join in the block of the return statement; that block is
        # doubled so that each arm returns its own constant
        irets = []
        for bid in th["irets"]:
            blk = nf.blocks[bid]
            ir = [e for e in blk.elems if e["k"] == "iret" and e.get("of") == helper.id][-1]
            preds = [x for x in nf.blocks.values() if bid in x.succs]
            heads = [x for x in nf.blocks.values() if (x.term or {}).get("k") == "cond" and len(x.succs) == 2 and len(preds) == 2 and
                     x.succs[0] in (preds[0].id, preds[1].id) and x.succs[1] in (preds[0].id, preds[1].id) and x.succs[0] != x.succs[1]]
            if ir.get("const") is None and ir.get("arms") and len(heads) == 1 and all(len(x.succs) == 1 for x in preds):
                for n_, arm in enumerate(ir["arms"]):
                    nid = bid - span * 0.001 * (n_ + 1)
                    elems = [clone_ev(e) for e in blk.elems]
                    for e in elems:
                        if e["k"] == "iret" and e.get("of") == helper.id:
                            e["const"] = arm
                    mk(nid, elems, blk.succs, blk.term, blk.label)
                    nf.blocks[heads[0].succs[n_]].succs = [nid]
                    irets.append(nid)
                del nf.blocks[bid]
            else:
                irets.append(bid)
        for bid in irets:
            blk = nf.blocks[bid]
            ir = [e for e in blk.elems if e["k"] == "iret" and e.get("of") == helper.id][-1]
            c = ir.get("const")
            # a helper that returns std::optional<T>: `return std::nullopt` / `return {}` is the empty answer, a returned T an engaged
            # one -- which is what the caller's `if (r)` / `if (!r)` / `r.has_value()` asks
            if c is None and "optional<" in (helper.d.get("ret") or ""):
                rt_ = (ir.get("t") or "").strip()
                if rt_ in ("std::nullopt", "nullopt", "{}") or _re_mod.match(r"^std::optional<.*>\(\)$", rt_):
                    c = False
                elif rt_ and _re_mod.match(r"^[A-Za-z_]\w*$", rt_):
                    # a named local of the helper: engaged when that local is not itself an optional
                    dts_ = [d_.get("type") or "" for d_ in helper.events("decl") if (d_.get("var") or "").split("@")[0] == rt_]
                    dts_ += [p_.get("type") or "" for p_ in helper.params if p_.get("name") == rt_]
                    if dts_ and not any("optional" in x_ for x_ in dts_):
                        c = True
            k_ = choose(c) if c is not None else None
            rv_ = (ir.get("val") or {}).get("v")
            if c is None and rv_ and t_.get("k") in ("if", "land", "lor", "while") and not t_.get("cmp") and is_subject(t_.get("core")) and len(rest.succs) == 2 and \
                    "bool" in ((ir.get("val") or {}).get("vt") or (ir.get("val") or {}).get("ty") or ""):
                # the helper returns one of its bool locals: the caller's branch becomes a branch on that local, so that the
                # flag-sensitive exploration (cfg.flag_vars) sends each path of the helper down the arm its value selects
                key = "var:" + rv_
                if key not in made:
                    nid = rest.id - span * 0.04 * (len(made) + 1) / 8.0
                    nt = dict(rest.term)
                    nt["core"] = dict(ir["val"])
                    nt["leafrefs"] = ["v:" + rv_]
                    nt["refs"] = list(dict.fromkeys(list(rest.term.get("refs") or []) + ["v:" + rv_]))
                    nt["via_result_of"] = helper.id
                    made[key] = mk(nid, [clone_ev(e) for e in rest.elems], list(rest.succs), nt, None)
                blk.succs = [made[key].id if s_ == rest.id else s_ for s_ in blk.succs]
                continue
            if k_ is None or rest.succs[k_] is None:
                left += 1
                continue
            key = repr(c)
            if key not in made:
                nid = rest.id - span * 0.04 * (len(made) + 1) / 8.0
                # the copy keeps the branch, with only the successor this constant selects
                made[key] = mk(nid, [clone_ev(e) for e in rest.elems], [s_ if i_ == k_ else None for i_, s_ in enumerate(rest.succs)], dict(rest.term), None)
            blk.succs = [made[key].id if s_ == rest.id else s_ for s_ in blk.succs]
        if not left and made and not any(rest.id in x.succs for x in nf.blocks.values() if x is not rest):
            del nf.blocks[rest.id]
        if left:
            nf.__dict__.setdefault("unmodelled", []).append("the result of %s is branched on at line %s (which of its paths goes with which branch is not modelled)" % (helper.base.rsplit("::", 1)[-1], t_.get("l")))

    def _lambda_in_reference(self, func, ev):
        """heuristic for lambdas handed to standard algorithms: the reference snapshot lists only *named* local lambdas, so an
        algorithm call is taken as known only when the function had such a call on the reference tree (recorded as "<algo>")"""
        names_, lams_ = self.reference()
        return ("<%s>" % (ev.get("callee") or "").split("<")[0]) in lams_.get(func.base, set())

    def owner(self, func):
        """the named function a (possibly nested) lambda is written in; func itself when it is not a lambda"""
        seen = 0
        while func.is_lambda and func.parent in self.funcs and seen < 8:
            func = self.funcs[func.parent]
            seen += 1
        return func

    def lambdas_in(self, func):
        # for a flattened function: also the lambdas written in the helpers that were expanded into it
        owners = {func.id} | set(getattr(func, "inlined_funcs", ()))
        return [f for f in self.funcs.values() if f.parent in owners]

    def lambda_by_id(self, lid, ctx=None):
        # lambda ids are "lambda@file:line:col" possibly with "#in:<instantiation>" suffix
        r = [f for f in self.funcs.values() if f.is_lambda and (f.id == lid or f.id.startswith(lid + "#in:"))]
        if ctx is not None:
            rr = [f for f in r if f.parent == ctx.id]
            if rr:
                return rr
        return r

    def cls(self, name, dependent=False):
        c = self.classes.get((name, dependent))
        if c is None:
            # try template-stripped match
            for (n, dep), cc in self.classes.items():
                if strip_tmpl(n) == name and dep == dependent:
                    return cc
            raise AnalysisBroken("anchor class %s not found" % name)
        return c

    def classes_named(self, base):
        return [c for c in self.class_list if strip_tmpl(c["name"]) == base]

    def subclasses(self, base):
        if self._subclasses is None:
            self._subclasses = {}
            for c in self.class_list:
                for b in c.get("bases", []):
                    n = b.get("name")
                    if n:
                        self._subclasses.setdefault(strip_tmpl(n), set()).add(c["name"])
        out = set()
        work = [base]
        while work:
            x = work.pop()
            for s in self._subclasses.get(strip_tmpl(x), ()):
                if s not in out:
                    out.add(s)
                    work.append(s)
        return out

    def overriders(self, method_base):
        """Function definitions that override (transitively) the virtual method `Cls::m` (template-stripped)."""
        cls, _, m = method_base.rpartition("::")
        res = []
        subs = {strip_tmpl(s) for s in self.subclasses(cls)}
        for f in self.funcs.values():
            if f.is_lambda or not f.cls:
                continue
            if f.base.rpartition("::")[2] != m:
                continue
            if strip_tmpl(f.cls) in subs:
                res.append(f)
        return res

    def callers(self):
        if self._callers is None:
            self._callers = {}
            for f in self.funcs.values():
                for e in f.events(("call", "construct")):
                    c = e.get("callee") or e.get("cls")
                    if c:
                        self._callers.setdefault(strip_tmpl(c), []).append(e)
        return self._callers

    def call_sites(self, callee_base):
        return self.callers().get(callee_base, [])

    def resolve_call(self, ev):
        """Definitions a call event may invoke: the direct callee, plus overriders for virtual calls."""
        out = []
        cid = ev.get("cid")
        if cid and cid in self.funcs:
            out.append(self.funcs[cid])
        callee = ev.get("callee")
        if callee and callee.startswith("lambda@"):
            out.extend(x for x in self.lambda_by_id(callee) if x not in out)
        elif callee and not out:
            for f in self.by_name.get(callee, []):
                if f not in out:
                    out.append(f)
        if ev.get("virt") and not ev.get("qualified") and callee:
            for f in self.overriders(strip_tmpl(callee)):
                if f not in out:
                    out.append(f)
        return out


def load(tier="quick", repo=None, need_extra=False):
    repo = repo or REPO
    units = library_units(repo) + inst_units()
    paths = extract(units, repo)
    if need_extra or tier == "thorough":
        paths += extract(extra_units(repo), repo, tolerate=(os.path.join(repo, "tests"), os.path.join(repo, "examples")))
    prog = Program(paths, repo)
    if prog.errors:
        raise AnalysisBroken("%d compile errors while parsing the units" % prog.errors)
    return prog
