"""Obligation bookkeeping, known findings, evidence and exit codes."""
import json
import os
import time

from .facts import AnalysisBroken, VERIF


class Ob(object):
    __slots__ = ("rule", "key", "ok", "site", "func", "detail", "nontrivial", "path", "analysis")

    def __init__(self, rule, key, ok, site, func="", detail="", nontrivial=True, path=None, analysis=""):
        self.rule = rule
        self.key = key
        self.ok = ok
        self.site = site
        self.func = func
        self.detail = detail
        self.nontrivial = nontrivial
        self.path = path or []
        self.analysis = analysis

    def as_dict(self):
        return {"rule": self.rule, "key": self.key, "ok": self.ok, "site": self.site, "function": self.func,
                "detail": self.detail, "path": self.path, "analysis": self.analysis}


class Checker(object):
    def __init__(self, prop, prog, tier):
        self.prop = prop
        self.prog = prog
        self.tier = tier
        self.obs = []
        self.rule_desc = {}
        self.rule_min = {}
        self.notes = []
        self.assumptions = []
        self.funcs_analysed = set()
        self._index = {}
        self.inst_count = {}

    # ---- declaring rules ----
    def rule(self, rid, analysis, desc, min_instances=1):
        self.rule_desc[rid] = (analysis, desc)
        self.rule_min[rid] = min_instances

    def ob(self, rule, key, ok, site, func="", detail="", nontrivial=True, path=None, structural=False):
        """structural: the obligation is about *what* the function contains or calls, not about its paths -- it stays decidable when
        the function was flattened over a helper whose result is branched on"""
        if rule not in self.rule_desc:
            raise AnalysisBroken("internal: rule %s not declared" % rule)
        fn = func.name if hasattr(func, "name") else func
        if hasattr(func, "id"):
            self.funcs_analysed.add(func.id)
        if not ok and not structural and getattr(func, "unmodelled", None):
            # the function was flattened over a helper whose result it branches on: a path rule cannot tell feasible from infeasible
            # combinations there, so a failed obligation is "cannot decide" (exit 2), not a violation
            raise AnalysisBroken("%s in %s: %s" % (rule, fn, func.unmodelled[0]))
        # the same construct seen through several template instantiations / units is one obligation
        prev = self._index.get((rule, key))
        if prev is not None:
            self.inst_count[(rule, key)] += 1
            if prev.ok and not ok:
                prev.ok, prev.site, prev.func, prev.detail, prev.path = False, site, fn, detail, (path or [])
            return bool(ok)
        o = Ob(rule, key, bool(ok), site, fn, detail, nontrivial, path, self.rule_desc[rule][0])
        self._index[(rule, key)] = o
        self.inst_count[(rule, key)] = 1
        self.obs.append(o)
        return bool(ok)

    def note(self, msg):
        self.notes.append(msg)

    def borrow(self, other_prop, rules, as_rule, desc, key_pred=None, min_instances=1):
        """Some structural facts are necessary conditions of more than one property.  Run the rule module of `other_prop` on the same
        program and take over the obligations of its rules `rules` (optionally only keys accepted by key_pred) under this property's
        rule id `as_rule`, so that a change that breaks them is reported by this property's check too."""
        import importlib
        if getattr(self, "_borrowed_run", False):
            # this checker is itself the lender of a borrow: only its own rules are wanted (no chains, no cycles)
            return
        mod = importlib.import_module("pv.rules.%s" % other_prop.lower())
        sub = Checker(other_prop, self.prog, self.tier)
        sub._borrowed_run = True
        try:
            mod.run(sub)
        except AnalysisBroken as e:
            # the lender could not evaluate one of *its* rules; what it had already decided about the borrowed ones still counts (the
            # instance count below decides whether that was enough)
            if not any(o.rule in rules and (key_pred is None or key_pred(o.key)) for o in sub.obs):
                raise
            self.note("%s: %s could not be evaluated completely (%s); the borrowed obligations decided before that are used" % (as_rule, other_prop, e))
        an = "; ".join(sorted({sub.rule_desc[r][0] for r in rules if r in sub.rule_desc}))
        self.rule(as_rule, "shared with %s (%s)" % (", ".join(rules), an), desc, min_instances)
        for o in sub.obs:
            if o.rule in rules and (key_pred is None or key_pred(o.key)):
                for _ in range(sub.inst_count.get((o.rule, o.key), 1)):
                    self.ob(as_rule, "%s:%s" % (o.rule, o.key), o.ok, o.site, o.func, o.detail, o.nontrivial, o.path)
        self.funcs_analysed |= sub.funcs_analysed

    def require(self, cond, msg):
        if not cond:
            raise AnalysisBroken(msg)

    def touch(self, func):
        self.funcs_analysed.add(func.id)

    def finish(self):
        counts = {}
        for (rule, _key), n in self.inst_count.items():
            counts[rule] = counts.get(rule, 0) + n
        for rid, mn in self.rule_min.items():
            if counts.get(rid, 0) < mn:
                raise AnalysisBroken("rule %s matched %d instance(s), fewer than the %d confirmed by hand on the reference tree "
                                     "(a rule that matches nothing passes vacuously)" % (rid, counts.get(rid, 0), mn))
        return counts


def load_known():
    p = os.path.join(VERIF, "known_findings.json")
    if not os.path.exists(p):
        return []
    with open(p) as fh:
        return json.load(fh).get("findings", [])


def write_evidence(ck, counts, t0, violations, known_hits, broken=None):
    prog = ck.prog
    obs = ck.obs
    nontriv = {(o.rule, o.key) for o in obs if o.nontrivial}
    samples = []
    seen_rules = set()
    for o in obs:
        if o.rule not in seen_rules:
            seen_rules.add(o.rule)
            samples.append({"rule": o.rule, "analysis": o.analysis, "what": ck.rule_desc[o.rule][1], "obligation": o.key,
                            "site": o.site, "function": o.func, "verdict": "discharged" if o.ok else "violated", "detail": o.detail[:300]})
    n_edges = sum(len(v) for v in prog.callers().values()) if prog is not None else 0
    ev = {
        "property_id": ck.prop,
        "tier": ck.tier,
        "seed": int(os.environ.get("VERIF_SEED", "0") or 0),
        "level": "other",
        "coverage": {
            "explanation": ("Static rules decided on clang-14 facts (resolved AST, per-function CFG with all sub-expressions, class hierarchy, "
                            "whole-program call graph) extracted from /repo's current sources on this run; nothing is executed. "
                            "Each obligation is one (rule, construct) pair proved on every CFG path / every call site in scope. "
                            + ("ANALYSIS BROKEN: " + broken if broken else "")),
            "obligations": len(obs),
            "discharged": sum(1 for o in obs if o.ok),
            "evaluations": max(len(obs), 1),
            "distinct_nontrivial": max(len(nontriv), 0),
            "rule": "one obligation per rule instance found in the current sources; non-trivial = needed a path, dominance, lockset, "
                    "call-graph or table-agreement argument (not a mere presence test); distinct by (rule, construct key)",
            "samples": samples[:40] or [{"note": "no obligations were generated"}],
            "exhaustive": broken is None,
            "units_parsed": len(prog.units) if prog is not None else 0,
            "functions_in_program": len(prog.funcs) if prog is not None else 0,
            "functions_examined_by_rules": len(ck.funcs_analysed),
            "instantiations_examined": sum(ck.inst_count.values()),
            "call_sites_in_graph": n_edges,
            "per_rule": {rid: {"analysis": ck.rule_desc[rid][0], "rule": ck.rule_desc[rid][1], "instances": counts.get(rid, 0),
                               "min_instances": ck.rule_min[rid],
                               "violated": sum(1 for o in obs if o.rule == rid and not o.ok)} for rid in ck.rule_desc},
            "known_findings_matched": known_hits,
            "notes": ck.notes,
        },
        "assumptions": [
            "clang 14 front end and CFG builder are trusted; exception edges are not modelled (catch handlers are separate entry regions)",
            "callees are resolved from the type-checked AST; virtual calls fan out to every overrider in the analysed program",
            "template code is analysed through the instantiations present in the library units and in /verif/inst drivers",
        ] + ck.assumptions,
        "wall_s": round(time.time() - t0, 3),
        "violations": violations,
    }
    os.makedirs(os.path.join(VERIF, "evidence"), exist_ok=True)
    p = os.path.join(VERIF, "evidence", ck.prop + ".json")
    tmp = p + ".tmp%d" % os.getpid()
    with open(tmp, "w") as fh:
        json.dump(ev, fh, indent=1)
    os.replace(tmp, p)
    return p
