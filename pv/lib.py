"""Reusable rule building blocks."""
import re
import errno as _errno

from . import cfg
from .facts import AnalysisBroken, strip_tmpl, VERIF

WOULD_BLOCK = {_errno.EAGAIN, _errno.EWOULDBLOCK}


def errno_locals(func):
    """locals that hold a copy of errno (`const int err = errno;`), never reassigned"""
    memo = func.__dict__.setdefault("_errno_locals", None)
    if memo is None:
        memo = {d["var"] for d in func.events("decl") if d.get("var") and "__errno_location" in ((d.get("init") or {}).get("t") or "")}
        memo |= {d.get("var") for d in func.events("bind") if d.get("var") and "__errno_location" in ((d.get("init") or {}).get("t") or d.get("t") or "")}
        memo -= {(a.get("lhs") or {}).get("v") for a in func.events("assign")}
        func.__dict__["_errno_locals"] = memo
    return memo


def is_errno_cmp(term, values=None, func=None):
    """Terminator condition of the form errno == <const> (errno is a macro: *__errno_location()), or the same on a local copy of errno."""
    if not term or term.get("cmp") not in ("==", "!="):
        return None
    lhs = (term.get("lhs") or {}).get("t", "")
    if "__errno_location" not in lhs and not (func is not None and (term.get("lhs") or {}).get("v") in errno_locals(func)):
        return None
    c = term.get("rconst")
    if not isinstance(c, int):
        return None
    if values is not None and c not in values:
        return None
    return (term["cmp"], c)


def errno_arms(func, values):
    """Blocks entered exactly when errno == one of `values` (true successor of an `errno == V [|| errno == V']` test).
    Returns {arm_block_id: [condition block ids]}."""
    arms = {}
    for b in func.blocks.values():
        r = is_errno_cmp(b.term, values, func)
        if r and r[0] == "==" and b.term.get("k") in ("if", "lor", "land", "while", "cond"):
            if b.term.get("neg"):
                continue
            if b.term.get("k") == "land":
                continue
            arm = b.succs[0]
            if arm is not None:
                arms.setdefault(arm, []).append(b.id)
    # `switch (errno)` / `switch (err)` with err a copy of errno (also the parameter of an expanded classifying helper): the blocks of the
    # case labels whose constants are all in `values`, entered from the switch or by falling through from another such label only
    el = errno_locals(func)
    binds = {e.get("var") for e in func.events("bind") if "__errno_location" in ((e.get("init") or {}).get("t") or e.get("t") or "")}
    for b in func.blocks.values():
        t = b.term
        if not t or t.get("k") != "switch":
            continue
        cond = t.get("cond")
        cond = cond[0] if isinstance(cond, list) and cond else (cond or "")
        cv = (t.get("core") or {}).get("v")
        if "__errno_location" not in cond and cv not in el and cv not in binds and cond.strip() not in binds:
            continue
        good = {}
        for s_ in b.succs:
            blk = func.blocks.get(s_) if s_ is not None else None
            lab = (blk.label or {}) if blk is not None else {}
            if lab.get("k") == "case" and isinstance(lab.get("const"), int) and lab["const"] in values:
                good[s_] = blk
        for s_, blk in good.items():
            if all(p_ == b.id or p_ in good for p_ in blk.preds):
                arms.setdefault(s_, []).append(b.id)
    # a `lor` chain: all members share the same true successor; keep arms whose every condition block is an errno test
    return arms


# ---------- constant propagation of named bool locals ----------

def flag_step(prog, func):
    """Returns step(state, ev) updating a frozenset of (var, bool) facts."""
    lam_effect = {}

    def lambda_assigns(lid):
        if lid in lam_effect:
            return lam_effect[lid]
        res = {}
        for lf in prog.lambda_by_id(lid, func):
            for e in lf.events("assign"):
                v = (e.get("lhs") or {}).get("v")
                if v:
                    res[v] = None  # unknown after the call (conditionally assigned)
        lam_effect[lid] = res
        return res

    def step(state, ev):
        k = ev["k"]
        if k == "assign":
            v = (ev.get("lhs") or {}).get("v")
            if v is not None:
                st = {x for x in state if x[0] != v}
                c = ev.get("const")
                if ev.get("op") == "=" and isinstance(c, bool):
                    st.add((v, c))
                return frozenset(st)
        elif k == "decl":
            v = ev.get("var")
            st = {x for x in state if x[0] != v}
            c = ev.get("const")
            if isinstance(c, bool):
                st.add((v, c))
            return frozenset(st)
        elif k == "call":
            callee = ev.get("callee") or ""
            if callee.startswith("lambda@"):
                eff = lambda_assigns(callee)
                if eff:
                    return frozenset(x for x in state if x[0] not in eff)
        return state
    return step


def flag_edge(state, blk, k, succ):
    """Prune the infeasible successor of a branch on a known bool local."""
    t = blk.term
    if not t or t.get("k") not in ("if", "while", "for", "do", "land", "lor", "cond"):
        return state
    core = t.get("core") or {}
    v = core.get("v")
    if v is None or t.get("cmp"):
        return state
    for (var, val) in state:
        if var == v:
            condval = (not val) if t.get("neg") else val
            if condval and k != 0:
                return None
            if (not condval) and k != 1:
                return None
    return state


SOCKET_WRITE_SYSCALLS = {"send", "sendfile", "SSL_write", "SSL_sendfile", "write", "writev", "sendmsg", "sendto"}


def callgraph_reach(prog, roots, follow=None, include_lambdas=True, max_depth=60):
    """Functions reachable from `roots` through resolved calls.  Returns {func.id: (func, chain)} where chain is
    a list of call-site descriptions leading there."""
    seen = {}
    work = [(r, []) for r in roots]
    while work:
        f, chain = work.pop()
        if f.id in seen:
            continue
        seen[f.id] = (f, chain)
        if len(chain) > max_depth:
            continue
        for e in f.events(("call", "construct")):
            if follow is not None and not follow(e):
                continue
            for g in prog.resolve_call(e) if e["k"] == "call" else ([prog.funcs[e["cid"]]] if e.get("cid") in prog.funcs else []):
                if g.id not in seen:
                    work.append((g, chain + ["%s calls %s at %s" % (f.name, g.name, e.loc)]))
        if include_lambdas:
            for e in f.events("lambda"):
                for g in prog.lambda_by_id(e["lid"], f):
                    if g.id not in seen:
                        work.append((g, chain + ["%s defines %s at %s" % (f.name, g.name, e.loc)]))
    return seen


def reaches_external(prog, root, ext_names, max_depth=12):
    """Does `root` reach a call to one of the external (libc) functions `ext_names`?  Returns the chain or None."""
    seen = set()
    work = [(root, [])]
    while work:
        f, chain = work.pop()
        if f.id in seen or len(chain) > max_depth:
            continue
        seen.add(f.id)
        for e in f.events("call"):
            c = e.get("callee") or ""
            if c in ext_names:
                return chain + ["%s calls %s at %s" % (f.name, c, e.loc)]
            for g in prog.resolve_call(e):
                if g.id not in seen:
                    work.append((g, chain + ["%s calls %s at %s" % (f.name, g.name, e.loc)]))
    return None


def refs_enumerator(ev, enumerator):
    return ("e:" + enumerator) in (ev.get("refs") or [])


def arg_text(ev, i):
    a = ev.get("args") or []
    return a[i].get("t", "") if i < len(a) else ""


def func_site(f):
    return "%s:%s" % (f.file, f.line)


def one(prog, base, what=None):
    fs = prog.by_base.get(base, [])
    if not fs:
        raise AnalysisBroken("anchor %s (%s) not found in the analysed program" % (base, what or "function"))
    return fs


def single(prog, base):
    fs = one(prog, base)
    # header-defined functions may appear once per instantiation; a non-template has one definition
    ids = {f.id for f in fs}
    if len(ids) != 1:
        raise AnalysisBroken("anchor %s is ambiguous: %d definitions" % (base, len(ids)))
    # helpers introduced after the reference snapshot are expanded in place (facts.Program.flat); on the reference tree this is fs[0]
    return prog.flat(fs[0])


# ---------- lockset (analysis A) ----------

GUARD_CLASSES = {"std::lock_guard", "std::unique_lock", "std::scoped_lock"}


def guard_of_decl(ev):
    """(var, mutex_field (template-stripped), mutex_base_text) when ev declares an RAII lock guard, else None."""
    if ev["k"] != "decl" or not ev.get("ctor"):
        return None
    if strip_tmpl(ev["ctor"]) not in GUARD_CLASSES:
        return None
    ca = ev.get("cargs") or []
    if not ca:
        return None
    # std::unique_lock(m, std::try_to_lock / std::defer_lock): the mutex is not (known to be) held after the declaration
    if any(("try_to_lock" in ((a.get("t") or "") + (a.get("ty") or ""))) or ("defer_lock" in ((a.get("t") or "") + (a.get("ty") or ""))) for a in ca[1:]):
        return None
    m = ca[0]
    fld = m.get("f")
    if fld:
        return (ev["var"], strip_tmpl(fld), m.get("b") or "")
    if m.get("v"):
        return (ev["var"], "var:" + m["v"], "")
    return (ev["var"], "expr:" + (m.get("t") or ""), "")


def lambda_unlocks(prog, func):
    """{lambda id: set of guard variables the lambda body may unlock (captured by reference)}."""
    res = {}
    for lf in prog.lambdas_in(func):
        vs = set()
        for e in lf.events("call"):
            if (e.get("callee") or "").rsplit("::", 1)[-1] == "unlock" and (e.get("recv") or {}).get("v"):
                vs.add(e["recv"]["v"])
        if vs:
            res[lf.name] = vs
    return res


def locksets(func, entry=None, initial=frozenset(), lam_unlocks=None):
    """Forward dataflow of held RAII guards.  Returns {(block, idx): [frozenset((var, mutex, base)), ...]} giving, for every
    event, the lock set of every explored state *before* the event executes.  lam_unlocks: see lambda_unlocks()."""
    at = {}
    lam_unlocks = lam_unlocks or {}

    def step(st, ev):
        at.setdefault((ev.block, ev.idx), set()).add(st)
        k = ev["k"]
        if k == "decl":
            g = guard_of_decl(ev)
            if g:
                return frozenset(set(st) | {g})
        elif k == "dtor":
            v = ev.get("var")
            if any(x[0] == v for x in st):
                return frozenset(x for x in st if x[0] != v)
        elif k == "call":
            rv = ev.get("recv") or {}
            name = (ev.get("callee") or "").rsplit("::", 1)[-1]
            if name == "unlock" and rv.get("v") and any(x[0] == rv["v"] for x in st):
                return frozenset(x for x in st if x[0] != rv["v"])
            c = ev.get("callee") or ""
            if c in lam_unlocks:
                return frozenset(x for x in st if x[0] not in lam_unlocks[c])
        return st
    for ent in ([entry] if entry is not None else cfg.region_entries(func)):
        cfg.run_automaton(func, initial, step, start=ent)
    return at


def holds(lockstates, mutex_field, base):
    """True when every explored state holds a guard on <base>-><mutex_field>."""
    if not lockstates:
        return False
    for st in lockstates:
        if not any(m == mutex_field and b == base for (_v, m, b) in st):
            return False
    return True


# ---------- field write sets (analyses E / F) ----------

STREAMBUF_AREA = "std::basic_streambuf::<get-area>"
_STREAMBUF_MUTATORS = {"setg", "gbump", "sbumpc", "snextc", "sgetn", "setp", "pbump", "sputc", "sputn", "pubseekpos", "pubseekoff"}


# Frozen table of standard-library member functions that modify the object they are called on (analysis E/F).
# operator[] inserts only on associative containers.
STL_MUTATORS = {"insert", "insert_or_assign", "emplace", "emplace_back", "emplace_front", "emplace_hint", "try_emplace", "erase", "clear",
                "push_back", "push_front", "pop_back", "pop_front", "swap", "reserve", "resize", "assign", "append", "replace", "operator=",
                "operator+=", "reset", "release", "merge", "extract", "shrink_to_fit", "store", "exchange", "fetch_add", "fetch_sub",
                "operator++", "operator--", "splice", "remove", "remove_if", "sort", "unique", "reverse", "fill", "push", "pop"}
_MAP_TYPES = ("std::map", "std::unordered_map", "std::multimap", "std::unordered_multimap")


def is_stl_mutation(ev):
    callee = ev.get("callee") or ""
    name = callee.rsplit("::", 1)[-1]
    if name in STL_MUTATORS:
        return True
    if name == "operator[]":
        return strip_tmpl(callee).rsplit("::", 1)[0] in _MAP_TYPES
    return False


def _is_const_callee(ev):
    cid = ev.get("cid") or ""
    return cid.rstrip().endswith(" const")


def direct_writes(func):
    """Field-level effects of one function body: list of (field, how, event).  `how` is 'assign', 'incdec', 'call:<method>' (non-const
    member call on a field of a non-repo type, e.g. a std container), 'whole' (copy/move assignment of a whole member object) or 'init'."""
    out = []
    if func.d.get("ctor"):
        return out      # constructors only write the object under construction; the store of that object is seen at the store site
    # iterators / references into a member container: a store through one writes that member (`auto it = m.find(k); it->second = v`)
    alias = {}
    changed = True
    while changed:
        changed = False
        for d in func.events("decl"):
            v = d.get("var")
            if not v or (v, d.get("vd")) in alias:
                continue
            ty = d.get("ctype") or d.get("type") or ""
            if not (ty.rstrip().endswith("&") or "iterator" in ty or "_Node_iterator" in ty or ty.rstrip().endswith("*")):
                continue
            flds = [r[2:] for r in (d.get("refs") or []) if r.startswith("f:")]
            init = d.get("init") or {}
            src = flds[0] if flds else alias.get((init.get("root"), init.get("rootd")))
            if src and not ty.replace("const ", "").startswith("const") and "const_iterator" not in ty and not re.match(r"^const\b.*[&*]$", ty.strip()):
                alias[(v, d.get("vd"))] = src
                changed = True

    def alias_target(ref):
        return alias.get(((ref or {}).get("root"), (ref or {}).get("rootd"))) if (ref or {}).get("root") else None

    def mentions_alias(e, root):
        pat = re.compile(r"\b%s\b" % re.escape(root))
        return any(pat.search(a.get("t") or "") for a in e.get("args", []) or []) or bool(pat.search(((e.get("rhs") or {}).get("t") or "")))
    for e in func.events():
        k = e["k"]
        if k == "assign":
            f = e["lhs"].get("f")
            if f and not f.startswith("std::"):
                out.append((f, "assign", e))
            else:
                tgt = alias_target(e.get("lhs"))
                if tgt and (e["lhs"].get("t") or "") != (e["lhs"].get("root") or ""):
                    self_ = mentions_alias(e, e["lhs"]["root"]) or e.get("op") not in ("=",)
                    out.append((tgt, "alias-assign-self" if self_ else "alias-assign", e))
        elif k == "incdec":
            f = (e.get("operand") or {}).get("f")
            if f:
                out.append((f, "incdec", e))
        elif k == "init":
            if e.get("f"):
                out.append((e["f"], "init", e))
        elif k == "call":
            rv = e.get("recv") or {}
            callee = e.get("callee") or ""
            name = callee.rsplit("::", 1)[-1]
            if strip_tmpl(callee).startswith("std::basic_streambuf::") and name in _STREAMBUF_MUTATORS:
                out.append((STREAMBUF_AREA, "call:" + name, e))
                continue
            if callee in ("std::back_inserter", "std::inserter", "std::front_inserter") and e.get("args") and e["args"][0].get("f"):
                out.append((e["args"][0]["f"], "call:" + name, e))
                continue
            if name == "swap" and (strip_tmpl(callee).startswith("std::") or callee in ("std::swap",)):
                # x.swap(y) / std::swap(x, y) write both operands (e.g. `std::vector<T>().swap(member)` empties the member)
                for a_ in e.get("args", []):
                    if a_.get("f"):
                        out.append((a_["f"], "call:swap", e))
            f = rv.get("f")
            if not f or f.startswith("std::"):
                # not a member of a program class: a store through an iterator / reference into a member container
                tgt = alias_target(rv)
                if tgt and (rv.get("t") or "") != (rv.get("root") or ""):
                    if e.get("op") == "=":
                        out.append((tgt, "alias-assign-self" if mentions_alias(e, rv["root"]) else "alias-assign", e))
                    elif not _is_const_callee(e) and not (e.get("cfile") or "").startswith(facts_repo()) and is_stl_mutation(e):
                        out.append((tgt, "call:" + name, e))
                continue
            if e.get("op") == "=":
                out.append((f, "whole", e))
            elif not _is_const_callee(e) and not (e.get("cfile") or "").startswith(facts_repo()) and is_stl_mutation(e):
                out.append((f, "call:" + name, e))
    return out


def facts_repo():
    from . import facts
    return facts.REPO


def transitive_writes(prog, roots, stop=None):
    """{field: [(how, event, chain)]} for every function reachable from roots through resolved calls (virtual fan-out included;
    lambdas defined in reachable functions included)."""
    reach = callgraph_reach(prog, roots, follow=(lambda e: not (stop and stop(e))))
    res = {}
    for fid, (f, chain) in reach.items():
        for fld, how, ev in direct_writes(f):
            res.setdefault(fld, []).append((how, ev, chain))
    return res, reach


def class_closure(prog, roots):
    """Classes owned by value from `roots` (exact names, template arguments included): bases and fields of class type, recursively."""
    byname = {}
    for cc in prog.class_list:
        if not cc.get("dependent"):
            byname.setdefault(cc["name"], cc)
    seen = set()
    work = list(roots)
    while work:
        c = work.pop()
        if c in seen:
            continue
        seen.add(c)
        cc = byname.get(c)
        if cc is None:
            continue
        for b in cc.get("bases", []):
            if b.get("name"):
                work.append(b["name"])
        for fl in cc.get("fields", []):
            if fl.get("rec"):
                work.append(fl["rec"])
    return seen


def fields_of(prog, cls_name):
    for cc in prog.class_list:
        if cc["name"] == cls_name and not cc.get("dependent"):
            return list(cc.get("fields", []))
    return []


def whole_object_cover(prog, cls_name):
    """Qualified names of all fields covered by assigning a whole object of class cls_name."""
    cov = set()
    for c in class_closure(prog, [cls_name]):
        for fl in fields_of(prog, c):
            cov.add(fl["q"])
    return cov


# ---------- bounded-buffer taint (analysis G) ----------

TAINT_SOURCES = {"Pistache::StreamCursor::offset", "Pistache::StreamCursor::Token::rawText", "Pistache::StreamBuf::curptr", "Pistache::StreamBuf::begptr",
                 "Pistache::StreamBuf::endptr", "std::basic_streambuf::gptr", "std::basic_streambuf::egptr", "std::basic_streambuf::eback"}
# NUL-scanning entry points: they read until a terminator the bounded buffer does not have
UNBOUNDED_SINKS = {"strtol", "strtoul", "strtoll", "strtoull", "strtod", "strtof", "strtold", "atoi", "atol", "atoll", "atof", "strcmp", "strcasecmp", "strcoll",
                   "strlen", "strchr", "strrchr", "strstr", "strpbrk", "strspn", "strcspn", "strcpy", "strcat", "strdup", "sscanf", "puts", "std::strtol",
                   "std::strtoul", "std::strtod", "std::strcmp", "std::strlen", "std::strchr", "std::strstr", "std::atoi", "std::atol", "std::stoi",
                   "std::stol", "std::stoul", "std::stoull", "std::stod", "std::stof"}
BOUNDED_SINKS = {"strncmp", "strncasecmp", "memcmp", "memcpy", "memchr", "memmove", "std::strncmp", "std::memcmp", "std::memcpy", "strnlen"}
RAW_PARAM_FUNCS = ("parseRaw", "fromRaw", "addFromRaw")


def tainted_vars(func):
    """Local pointer variables (name, decl position) that point into a bounded, non NUL-terminated buffer."""
    t = set()
    ps = func.params
    # (also the constructors of the stream buffers that are laid over such a text: RawStreamBuf(ptr, len) ...)
    if func.base.rsplit("::", 1)[-1] in RAW_PARAM_FUNCS or (func.d.get("ctor") and "StreamBuf" in func.base):
        for i, p in enumerate(ps[:-1]):
            if p["type"].replace(" ", "") in ("constchar*", "char*") and "size_t" in ps[i + 1]["type"]:
                t.add(p["name"])
    changed = True
    while changed:
        changed = False
        for d in func.events("decl"):
            if d["var"] in t or "*" not in (d.get("type") or ""):
                continue
            init = d.get("init") or {}
            src = strip_tmpl(d.get("icall") or "") in TAINT_SOURCES or init.get("root") in t or any(("v:" + v) in (d.get("refs") or []) for v in t) \
                or any(("c:" + s) in [strip_tmpl(r) for r in (d.get("refs") or [])] for s in TAINT_SOURCES)
            if src:
                t.add(d["var"])
                changed = True
    return t


def arg_is_tainted(a, tvars):
    if a.get("v") in tvars or a.get("root") in tvars:
        return True
    txt = a.get("t") or ""
    return any(s.rsplit("::", 1)[1] + "(" in txt and (".offset(" in txt or ".rawText(" in txt or "gptr(" in txt or "curptr(" in txt) for s in TAINT_SOURCES)


def REPO_PREFIX():
    from . import facts as _f
    return _f.REPO + "/"


def taint_flows(func):
    """Yield (event, sink-name, argument-text, bounded?) for every use of a bounded-buffer pointer in a libc / std::string sink."""
    tv = tainted_vars(func)
    for e in func.events(("call", "construct")):
        if e["k"] == "call":
            c = e.get("callee") or ""
            if c in UNBOUNDED_SINKS or c in BOUNDED_SINKS:
                for a in e.get("args", []):
                    if arg_is_tainted(a, tv):
                        yield e, c, a.get("t"), c in BOUNDED_SINKS
                        break
            elif not (e.get("cfile") or "").startswith(REPO_PREFIX()) and e.get("cparams") is not None:
                # the C-string interfaces of the standard string / stream classes: `s + p`, `s += p`, `s.append(p)`, `s == p`,
                # `s.find(p)`, `os << p`, ... read up to a NUL unless the parameter is followed by a count
                cps = e.get("cparams") or []
                args = e.get("args") or []
                if len(args) == len(cps) + 1:
                    args = args[1:]         # member operator: the object itself is the first argument
                stringy = any(x in ((e.get("ccls") or "") + " " + " ".join(cps)) for x in ("basic_string", "basic_ostream", "basic_string_view"))
                if stringy and len(args) == len(cps):
                    for i, a in enumerate(args):
                        if cps[i].replace(" ", "") in ("constchar*", "char*") and arg_is_tainted(a, tv):
                            nxt = cps[i + 1].replace("const ", "").strip() if i + 1 < len(cps) else ""
                            counted = nxt in ("size_t", "unsigned long", "long", "std::size_t", "std::streamsize", "unsigned int", "int") or nxt.endswith("size_type")
                            yield e, "%s(const char*%s)" % (strip_tmpl(c), ", n" if counted else ""), a.get("t"), counted
                            break
        else:
            cls = strip_tmpl(e.get("cls") or "")
            if cls in ("std::basic_string", "std::basic_string_view"):
                args = e.get("args") or []
                real = [a for a in args if not a.get("dflt")]
                if real and arg_is_tainted(real[0], tv):
                    yield e, "std::string(const char*%s)" % (", n" if len(real) >= 2 else ""), real[0].get("t"), len(real) >= 2


# ---------- lock re-entrancy (self-deadlock on a non-recursive mutex) ----------

def reentrant_acquisitions(prog, func, mutex_field, extra_targets=None, max_depth=40):
    """Call sites in `func` made while holding a guard on this-><mutex_field> from which a function that acquires the same member mutex
    (of `this`) is reachable.  extra_targets(ev) -> list of functions for indirect calls (std::function callbacks).
    Returns list of (call_event, chain, acquiring_event)."""
    ls = locksets(func, lam_unlocks=lambda_unlocks(prog, func))
    out = []
    acquirers = {}

    def acquires(f):
        if f.id not in acquirers:
            acquirers[f.id] = [d for d in f.events("decl") if (guard_of_decl(d) or (None, None, None))[1] == mutex_field and (guard_of_decl(d) or (None, None, ""))[2] == "this"]
        return acquirers[f.id]
    for e in func.events("call"):
        sts = ls.get((e.block, e.idx)) or []
        if not sts or not all(any(m == mutex_field and b == "this" for (_v, m, b) in st) for st in sts):
            continue
        targets = list(prog.resolve_call(e)) + (extra_targets(e) if extra_targets else [])
        seen = set()
        work = [(t, ["%s calls %s at %s" % (func.name, t.name, e.loc)]) for t in targets]
        while work:
            g, chain = work.pop()
            if g.id in seen or len(chain) > max_depth:
                continue
            seen.add(g.id)
            acq = acquires(g)
            if acq:
                out.append((e, chain, acq[0]))
                break
            for c in g.events(("call", "construct")):
                if c["k"] == "construct":
                    hs = [prog.funcs[c["cid"]]] if c.get("cid") in prog.funcs else []
                else:
                    hs = list(prog.resolve_call(c)) + (extra_targets(c) if extra_targets else [])
                for h in hs:
                    if h.id not in seen:
                        work.append((h, chain + ["%s calls %s at %s" % (g.name, h.name, c.loc)]))
    return out


# ---------- drain loops ----------

def drain_loop_check(func, pop_ev):
    """popSafe() result bound to a local; the call sits in a loop; every non-throwing exit of the function after the call goes through
    the `!var` (null result) edge.  Returns (ok, detail)."""
    decl = [d for d in func.events("decl") if d.block == pop_ev.block and d.idx > pop_ev.idx and strip_tmpl(d.get("icall") or "").endswith("::popSafe")]
    if not decl:
        # `auto x = cond ? <something kept from before> : q.popSafe();` -- the declaration sits in the join block behind the arm that pops
        succ = [s_ for s_ in func.blocks[pop_ev.block].succs if s_ is not None]
        if len(succ) == 1 and not any(e_["k"] in ("decl", "assign") for e_ in func.blocks[pop_ev.block].elems if e_.get("idx", 0) > pop_ev.idx):
            jd = [d for d in func.blocks[succ[0]].elems if d["k"] == "decl" and d.get("var") and "unique_ptr" in (d.get("type") or "")]
            decl = jd[:1]
    if not decl:
        # `while ((x = q.popSafe()) && ...)`: assigned to a local declared earlier
        asg = [c for c in func.blocks[pop_ev.block].elems if c["k"] == "call" and c.get("op") == "=" and c.idx > pop_ev.idx and
               ((c.get("recv") or {}).get("v") or (c.get("recv") or {}).get("root")) and "popSafe" in (c.get("t") or "")]
        if asg:
            decl = [{"var": asg[0]["recv"].get("v") or asg[0]["recv"].get("root")}]
    if strip_tmpl(pop_ev.get("callee") or "") != "Pistache::Queue::popSafe" or not decl:
        return None, "consumer does not bind the popSafe result to a local (shape not modelled)"
    var = decl[0]["var"]
    in_loop = any(x is pop_ev for x in cfg.events_after(func, pop_ev))
    null_edges = set()
    for b in func.blocks.values():
        t = b.term
        if t and t.get("k") in ("if", "while", "for", "do", "land", "lor") and not t.get("cmp") and len(b.succs) == 2 and \
                ((t.get("core") or {}).get("root") == var or re.match(r"^\(?\s*%s\s*=[^=]" % re.escape(var), (t.get("core") or {}).get("t") or "")):
            null_edges.add((b.id, 0 if t.get("neg") else 1))

    def edge2(st, blk, k, succ):
        if (blk.id, k) in null_edges:
            return "null"
        return st
    exits, _ = cfg.run_automaton(func, "live", lambda s_, ev: s_, edge=edge2, start=pop_ev.block, start_idx=pop_ev.idx + 1)
    bad = [x for x in exits if x.kind != "throw" and x.state != "null"]
    if in_loop and null_edges and not bad:
        return True, "popSafe in a loop; every normal exit goes through the `!%s` arm" % var
    return False, "consumer can stop draining with items left: exit at block %s without the null test" % (bad[0].block if bad else "-")


# ---------- interprocedural summaries: a wrapper counts as the thing it always / possibly does ----------

class Summaries(object):
    """must(f, pred): every non-throwing path of f passes an event satisfying pred (directly or through a callee that must);
    may(f, pred): some path of f reaches such an event (directly or through any callee that may).
    Only functions defined in the analysed program are summarised; recursion is cut conservatively."""

    def __init__(self, prog, max_depth=6):
        self.prog = prog
        self.max_depth = max_depth
        self._must = {}
        self._may = {}

    def _callees(self, ev):
        if ev.get("inlined"):
            return []
        if ev["k"] == "call":
            return [g for g in self.prog.resolve_call(ev) if g.blocks]
        if ev["k"] == "construct" and ev.get("cid") in self.prog.funcs:
            return [self.prog.funcs[ev["cid"]]]
        return []

    def must(self, f, pred, key, depth=0, stack=()):
        k = (f.id, key)
        if k in self._must:
            return self._must[k]
        if depth > self.max_depth or f.id in stack:
            return False
        lifted = self.lift_must(pred, key, depth + 1, stack + (f.id,))
        # with constant propagation of named bool locals (`bool done = false; while (!done) { ... }` enters the loop)
        fstep = flag_step(self.prog, f)

        def step(st, ev):
            if lifted(ev):
                return None
            return fstep(st, ev)
        exits, _ = cfg.run_automaton(f, frozenset(), step, edge=flag_edge)
        res = bool(f.blocks) and not [x for x in exits if x.kind != "throw"]
        self._must[k] = res
        return res

    def lift_must(self, pred, key, depth=0, stack=()):
        def lifted(ev):
            if pred(ev):
                return True
            cs = self._callees(ev)
            # a virtual call must perform it in every possible target
            return bool(cs) and all(self.must(g, pred, key, depth, stack) for g in cs)
        return lifted

    def may(self, f, pred, key, depth=0, stack=()):
        k = (f.id, key)
        if k in self._may:
            return self._may[k]
        if depth > self.max_depth or f.id in stack:
            return False
        res = False
        for ev in f.events():
            if pred(ev) or any(self.may(g, pred, key, depth + 1, stack + (f.id,)) for g in self._callees(ev)):
                res = True
                break
        self._may[k] = res
        return res

    def lift_may(self, pred, key):
        def lifted(ev):
            return pred(ev) or any(self.may(g, pred, key, 1, ()) for g in self._callees(ev))
        return lifted


# ---------- strict loop progress with facts about the byte under the cursor ----------

_CHARLIT = re.compile(r"'(\\.|[^'\\])'")
_ESC = {"\\n": "\n", "\\r": "\r", "\\t": "\t", "\\0": "\0", "\\\\": "\\", "\\'": "'"}


def _chars_in(text):
    out = set()
    for m in _CHARLIT.finditer(text or ""):
        c = m.group(1)
        out.add(_ESC.get(c, c[-1]))
    return out


def cursors_of(f):
    """names of the parameters and locals of f that are StreamCursor objects (not StreamCursor::Token / ::Revert)"""
    def is_cur(t):
        t = (t or "").replace("Pistache::", "").replace("const ", "").strip()
        return t.startswith("StreamCursor") and "::" not in t[len("StreamCursor"):]
    return {p_["name"] for p_ in f.params if is_cur(p_["type"])} | {d["var"] for d in f.events("decl") if d.get("var") and is_cur(d.get("type"))}


class StrictProgress(object):
    """Can an iteration of a cursor-driven loop return to the loop condition, be admitted again, and start the body once more without
    a call that *definitely* consumes input in between?

    definitely consumes: StreamCursor::advance; a function handed the cursor all of whose non-throwing paths definitely consume
    (e.g. matchValue); on the true edge of `if (g(.., cursor))`: a bool function all of whose paths to a non-`false` return
    definitely consume (match_literal, match_raw, ...).
    may consume (no progress, invalidates what is known about the current byte): every other non-const use of the cursor.
    What is known: the set of values the byte under the cursor can have, learnt from comparisons of cursor.current() (or a local that
    holds it) with character constants and from the post-condition of match_until(set) == true (current byte is in the set)."""

    def __init__(self, prog, cur_prefix, readers, matchers=("Pistache::match_until",)):
        self.prog = prog
        self.P = cur_prefix
        self.readers = readers
        self.matchers = matchers
        self._sum = {}

    # --- classification of one event of function f
    def cursor_call(self, ev, cursors, depth=0):
        if ev["k"] != "call":
            return None
        c = ev.get("callee") or ""
        rv = ev.get("recv") or {}
        if rv.get("root") in cursors and c.startswith(self.P):
            if c == self.P + "advance":
                return "definite"
            if c in self.readers or (ev.get("cid") or "").rstrip().endswith(" const"):
                return "read"
            return "maybe"
        handed = any(a.get("v") in cursors for a in ev.get("args", [])) and not c.startswith("std::")
        captured = False
        if not handed and c.startswith("lambda@"):
            # a local lambda that captured the cursor by reference uses it under the same name
            captured = any(g.is_lambda and self._uses(g, cursors) for g in self.prog.resolve_call(ev))
        if handed or captured:
            gs = [g for g in self.prog.resolve_call(ev) if g.blocks]
            if gs and depth < 5:
                kinds = {self.summary(g, depth + 1, cursors if captured else ()) for g in gs}
                if kinds == {"definite"}:
                    return "definite"
                if kinds <= {"definite", "if-true"}:
                    return "if-true"
            return "maybe"
        return None

    @staticmethod
    def _uses(g, names):
        for e in g.events():
            if (e.get("recv") or {}).get("root") in names or any(a.get("v") in names or a.get("root") in names for a in e.get("args", []) or []):
                return True
        return False

    def summary(self, g, depth=0, captured=()):
        if g.id in self._sum:
            return self._sum[g.id]
        self._sum[g.id] = "maybe"         # recursion: conservative
        cs = cursors_of(g) | set(captured)

        def must(ev):
            return self.cursor_call(ev, cs, depth) == "definite"
        exits = [x for x in cfg.exits_without(g, must) if x.kind != "throw"]
        if not exits:
            r = "definite"
        elif all(x.kind == "return" and x.event is not None and x.event.get("const") is False for x in exits):
            r = "if-true"
        else:
            r = "maybe"
        self._sum[g.id] = r
        return r

    ZERO_OK = ("Pistache::match_until", "Pistache::skip_whitespaces")   # may consume nothing, by their contract

    def check(self, func, hdr, body):
        """(definite, inconclusive): witnesses (block, line) where a second iteration starts without definite progress.
        definite: every branch and call on the witness path is one this analysis models (comparisons of the current byte with
        character constants, eof() tests, results of the consume helpers, match_until / skip_whitespaces); inconclusive: the path
        passes a branch on something else or a helper with unknown effect -- it may be infeasible, so it is not reported as a violation.
        Both empty = strict progress proved."""
        cursors = cursors_of(func)
        CURRENT = self.P + "current"
        definite, inconclusive = [], []
        cur_re = re.compile(r"^\(?((\w+) = )?(%s)\.current\(\)\)?$" % "|".join(map(re.escape, cursors)))
        eof_re = re.compile(r"^(%s)\.eof\(\)$" % "|".join(map(re.escape, cursors)))

        def hit(st, blk, line):
            (inconclusive if st[4] else definite).append((blk, line))

        def step(st, ev):
            poss, aliases, wrapped, pend, unk = st
            if ev["k"] in ("return", "throw"):
                return None
            kind = self.cursor_call(ev, cursors)
            if kind == "definite":
                return None
            if kind in ("maybe", "if-true"):
                if wrapped:
                    hit(st, ev.block, ev.get("l"))
                    return None
                if kind == "maybe" and (ev.get("callee") or "") not in self.ZERO_OK:
                    unk = True
                return (None, frozenset(), wrapped, (ev.get("t") or "") if kind == "if-true" else None, unk)
            if ev["k"] == "call" and (ev.get("callee") or "").endswith("Step::raise"):
                return None
            if ev["k"] == "decl" and ev.get("var"):
                if ev.get("icall") == CURRENT:
                    return (poss, aliases | {ev["var"]}, wrapped, pend, unk)
                if ev["var"] in aliases:
                    return (poss, aliases - {ev["var"]}, wrapped, pend, unk)
            if ev["k"] == "assign":
                v = (ev.get("lhs") or {}).get("v")
                t = ev.get("t") or ""
                rhs = t.split("=", 1)[1].strip() if "=" in t else ""
                if v and ev.get("op") == "=" and cur_re.match(rhs):
                    return (poss, aliases | {v}, wrapped, pend, unk)
                if v in aliases:
                    return (poss, aliases - {v}, wrapped, pend, unk)
            return st

        def edge(st, blk, k, succ):
            poss, aliases, wrapped, pend, unk = st
            t = blk.term or {}
            if len(blk.succs) == 2 and None not in blk.succs and t.get("k") in ("if", "while", "for", "do", "land", "lor", "cond"):
                truth = (k == 0) != bool(t.get("neg"))       # truth value of the core expression on this edge
                core = ((t.get("core") or {}).get("t") or "").strip()
                modelled = False
                if pend is not None and core == pend:
                    modelled = True
                    if truth:
                        return None                          # `if (match_x(.., cursor))` taken: input was consumed
                lhs = t.get("lhs") or {}
                rc = t.get("rconst")
                if t.get("cmp") in ("==", "!=") and isinstance(rc, str) and rc.startswith("c:") and \
                        (lhs.get("v") in aliases or cur_re.match((lhs.get("t") or "").strip())):
                    modelled = True
                    ch = chr(int(rc[2:]))
                    equal = truth if t["cmp"] == "==" else not truth
                    if equal:
                        if poss is not None and ch not in poss:
                            return None
                        poss = frozenset([ch])
                    elif poss is not None:
                        poss = poss - {ch}
                        if not poss:
                            return None
                if eof_re.match(core):
                    modelled = True
                    # end of input is one more "value" the position under the cursor can have
                    if truth:
                        if poss is not None and "<EOF>" not in poss:
                            return None
                        poss = frozenset(["<EOF>"])
                    elif poss is not None:
                        poss = poss - {"<EOF>"}
                        if not poss:
                            return None
                if any(core.startswith(m.rsplit("::", 1)[1] + "(") for m in self.matchers):
                    modelled = True
                    if truth:
                        # post-condition of match_until(<chars>, cursor) == true: the byte under the cursor is one of <chars>
                        arg = core[core.index("(") + 1:]
                        arg = arg[:arg.rindex(",")] if "," in arg else arg
                        cs = _chars_in(arg)
                        if cs:
                            poss = frozenset(cs)
                if not modelled:
                    unk = True
            elif len([x for x in blk.succs if x is not None]) > 1:
                unk = True                                   # switch and the like
            if succ not in body:
                return None
            if succ == hdr:
                if wrapped:
                    hit((poss, aliases, wrapped, None, unk), blk.id, (blk.term or {}).get("l"))
                    return None
                wrapped = True
            return (poss, aliases, wrapped, None, unk)

        cfg.run_automaton(func, (None, frozenset(), False, None, False), step, edge=edge, start=hdr)
        key = lambda x: (x[1] or 0, x[0])
        return sorted(set(definite), key=key), sorted(set(inconclusive), key=key)


# ---------- comparisons, normalised on an edge ----------

_NEG = {"<": ">=", ">=": "<", ">": "<=", "<=": ">", "==": "!=", "!=": "=="}
_SWAP = {"<": ">", ">": "<", "<=": ">=", ">=": "<=", "==": "==", "!=": "!="}


def rel_on_edge(term, k):
    """(lhs, rel, rhs) that holds when successor edge k of a two-way terminator with a comparison is taken, else None.
    lhs/rhs are the extractor's operand refs.  `if (a < b)` edge 1 gives (a, '>=', b); `if (!(a == b))` edge 0 gives (a, '!=', b)."""
    if not term or term.get("cmp") not in _NEG:
        return None
    truth = (k == 0) != bool(term.get("neg"))
    rel = term["cmp"] if truth else _NEG[term["cmp"]]
    return (term.get("lhs") or {}, rel, term.get("rhs") or {})


def edge_relations(f, bid, k):
    """[(lhs, rel, rhs, term)]: every comparison known on successor edge k of block bid -- its own (rel_on_edge), and for the block
    that carries the `if` of a short-circuit condition also its partners': on the false edge of `if (a == x || b == y)` both disjuncts
    are false (the `||` blocks jump to the if-block when their operand is true), on the true edge of `if (a && b)` both conjuncts hold"""
    b = f.blocks[bid]
    out = []
    r = rel_on_edge(b.term, k)
    if r is not None:
        out.append(r + (b.term,))
    kind, slot = ("lor", 0) if k == 1 else ("land", 1)
    for p in f.blocks.values():
        t = p.term
        if t and t.get("k") == kind and len(p.succs) == 2 and p.succs[slot] == bid:
            r2 = rel_on_edge(t, k)
            if r2 is not None:
                out.append(r2 + (t,))
    return out


def edge_establishes(term, k, var, rels_when_left, rhs_pred=None):
    """edge k establishes  var <rel> X  (rel in rels_when_left, X satisfying rhs_pred), written either way round"""
    r = rel_on_edge(term, k)
    if r is None:
        return False
    lhs, rel, rhs = r
    if lhs.get("v") == var and rel in rels_when_left and (rhs_pred is None or rhs_pred(rhs)):
        return True
    if rhs.get("v") == var and _SWAP[rel] in rels_when_left and (rhs_pred is None or rhs_pred(lhs)):
        return True
    return False


# ---------- "every X is followed by Y", across helpers ----------

def region(prog, root, within=None, depth=4):
    """root, its lambdas, and the program-defined functions it (transitively, up to depth) calls that satisfy within(g)."""
    out = []
    seen = set()
    work = [(root, 0)]
    while work:
        f, d = work.pop()
        if f.id in seen:
            continue
        seen.add(f.id)
        out.append(f)
        for lf in prog.lambdas_in(f):
            work.append((lf, d))
        if d >= depth:
            continue
        for ev in f.events("call"):
            for g in prog.resolve_call(ev):
                if g.blocks and g.id not in seen and (within is None or within(g)):
                    work.append((g, d + 1))
    return out


def followed_by(prog, summ, root, is_ev, must, key, within=None):
    """In root and the helpers it calls: every event satisfying is_ev is followed, on every non-throwing path to the end of the
    function or to the next loop iteration, by an event satisfying must (directly or through a callee that always does it).
    When a helper leaves with the obligation open, the obligation moves to the call sites of the helper inside the region.
    Returns (sites, failures): sites = number of original is_ev events found, failures = [(func, event, why)]."""
    lifted = summ.lift_must(must, key)
    reg = region(prog, root, within)
    open_memo = {}

    def open_after(f, ev):
        """True when some path after ev reaches f's exit / a loop head without `must`"""
        heads = {h for h, _b in cfg.natural_loops(f)}
        miss = []

        def step(st, e2):
            return None if lifted(e2) else st

        def edge(st, blk, k, succ):
            if succ in heads:
                miss.append(blk.id)
                return None
            return st
        exits, _ = cfg.run_automaton(f, 0, step, edge=edge, start=ev.block, start_idx=ev.idx + 1)
        return bool(miss) or any(x.kind != "throw" for x in exits)

    def leaves_open(g, stack=()):
        """some is_ev inside g (or deeper) is still open when g returns"""
        if g.id in open_memo:
            return open_memo[g.id]
        if g.id in stack:
            return False
        open_memo[g.id] = False
        res = False
        for ev in g.events():
            if is_ev(ev) and open_after(g, ev):
                res = True
            elif ev["k"] == "call":
                for h in prog.resolve_call(ev):
                    if h.blocks and any(h.id == r.id for r in reg) and h.id != g.id and leaves_open(h, stack + (g.id,)) and open_after(g, ev):
                        res = True
        open_memo[g.id] = res
        return res

    sites = sum(1 for f in reg for ev in f.events() if is_ev(ev))
    failures = []
    if leaves_open(root):
        # name the innermost open site for the report
        for f in reg:
            for ev in f.events():
                if is_ev(ev) and open_after(f, ev):
                    failures.append((f, ev, "open at the end of %s" % f.base))
        if not failures:
            failures.append((root, None, "open after a helper call"))
    return sites, failures


def only_reached_from(prog, f, roots, depth=4, _stack=()):
    """f is one of `roots` (base names), a lambda written inside one, or a helper every call site of which lies in such a function"""
    f = prog.owner(f)
    if f.base in roots:
        return True
    if depth <= 0 or f.id in _stack:
        return False
    sites = prog.call_sites(f.base)
    if not sites:
        return False
    return all(only_reached_from(prog, s.func, roots, depth - 1, _stack + (f.id,)) for s in sites)


def guard_dominates(prog, ev, guard_edges, depth=3, _stack=()):
    """ev is reached only through a guard edge: in its own function (guard_edges(f) -> [(block id, successor index)]), or --
    when the function is a helper or a lambda -- at every one of its call sites (recursively)."""
    f = ev.func if not isinstance(ev.func, str) else None
    if f is None:
        return False
    if any(cfg.edge_dominates(f, b, k, ev) for b, k in guard_edges(f)):
        return True
    if depth <= 0 or f.id in _stack:
        return False
    if f.is_lambda:
        lid = f.id.split("#in:")[0]
        parent = prog.funcs.get(f.parent)
        sites = [c for c in parent.events("call") if (c.get("callee") or "").split("#in:")[0] == lid] if parent is not None else []
    else:
        sites = prog.call_sites(f.base)
    if not sites:
        return False
    return all(guard_dominates(prog, s, guard_edges, depth - 1, _stack + (f.id,)) for s in sites)


# ---------- edges that know the result of a call ----------

def _result_vars(f, is_callee):
    """locals that hold the result of the call (declared from it or assigned it once), never reassigned otherwise"""
    out = set()
    for d in f.events("decl"):
        if d.get("var") and d.get("icall") and is_callee(d["icall"]):
            out.add(d["var"])
    for v in list(out):
        if [a for a in f.events("assign") if (a["lhs"].get("v") == v)]:
            out.discard(v)
    return out


def result_edges(f, callee, truth):
    """[(block, k)]: edges of two-way terminators on which the bool result of `callee(...)` is known to be `truth`:
    `if (call())`, `if (!call())`, or the same through a local initialised from the call."""
    is_c = (lambda c: strip_tmpl(c) == callee or c == callee)
    rv = _result_vars(f, is_c)
    out = []
    for b in f.blocks.values():
        t = b.term
        if not t or len(b.succs) != 2 or t.get("cmp"):
            continue
        core = t.get("core") or {}
        leaf = t.get("leafrefs") or t.get("refs") or []
        # the tested expression *is* the call (its arguments may contain other calls): a call event of the block with that text
        norm_ = lambda x: re.sub(r"\s+", "", x or "")
        direct = any(r.startswith("c:") and is_c(r[2:]) for r in leaf) and (
            not [r for r in leaf if r.startswith("c:") and not is_c(r[2:]) and "operator" not in r] or
            any(x["k"] == "call" and is_c(x.get("callee") or "") and norm_(x.get("t")) == norm_(core.get("t"))
                for x in list(b.elems) + [y for y in f.events("call") if y.get("inlined")]))
        via = core.get("v") in rv and core.get("v") is not None
        if not (direct or via):
            continue
        for k in (0, 1):
            if b.succs[k] is None:
                continue
            if ((k == 0) != bool(t.get("neg"))) == truth:
                out.append((b.id, k))
    return out


def value_edges(f, callee, const, rels=("==",)):
    """[(block, k)]: edges on which `callee(...) <rel> const` holds (rel in rels), the call being compared directly or through a local"""
    is_c = (lambda c: strip_tmpl(c) == callee or c == callee)
    rv = _result_vars(f, is_c)
    out = []
    for b in f.blocks.values():
        t = b.term
        if not t or len(b.succs) != 2 or t.get("rconst") != const:
            continue
        lhs = t.get("lhs") or {}
        leaf = t.get("leafrefs") or t.get("refs") or []
        if not (lhs.get("v") in rv or any(r.startswith("c:") and is_c(r[2:]) for r in leaf)):
            continue
        for k in (0, 1):
            r = rel_on_edge(t, k)
            if b.succs[k] is not None and r is not None and r[1] in rels:
                out.append((b.id, k))
    return out


def init_calls(fn, d):
    """the call events that compute the initialiser of declaration d: calls earlier in d's block, and (when the body of a helper or
    of a lambda handed to the call was expanded in between, so that the call ended up in an earlier block) the expanded call
    whose text is the initialiser"""
    it_ = re.sub(r"\s+", "", (d.get("init") or {}).get("t") or "")
    blk = fn.blocks[d.block]
    out = [c for c in blk.elems[:d.idx] if c["k"] == "call"]
    out += [c for c in fn.events("call") if c.get("inlined") and it_ and re.sub(r"\s+", "", c.get("t") or "") == it_ and not any(c is x for x in out)]
    return out


def derived_vars(fn, seeds, prog=None):
    """locals whose value is computed from the seed locals: initialised from an expression that mentions one, assigned one, or
    filled from one by memcpy/memmove/std::copy (destination's root variable); with prog, also initialised from a call that is
    handed a lambda whose body mentions one (std::any_of(..., [&]{ ... seed ... })).  Name-based within one function."""
    out = set(seeds)
    changed = True

    def lambda_mentions(d):
        if prog is None:
            return False
        blk = fn.blocks[d.block]
        it_ = ((d.get("init") or {}).get("t") or "").strip()
        # the initialising call: earlier in the block, or (the lambda's body expanded in between) the call with the initialiser's text
        for c in list(blk.elems[:d.idx]) + [c_ for c_ in fn.events("call") if c_.get("inlined") and it_ and (c_.get("t") or "").strip() == it_]:
            if c["k"] == "call":
                for a in c.get("args", []):
                    if a.get("lam"):
                        for lf in prog.lambda_by_id(a["lam"].split("#in:")[0], fn):
                            for e in lf.events():
                                if any(r[2:] in out for r in (e.get("refs") or []) if r.startswith("v:")) or \
                                        any((x.get("v") in out) for x in [e.get("lhs") or {}, e.get("rhs") or {}]):
                                    return True
        return False

    def mentions(text):
        return any(re.search(r"\b%s\b" % re.escape(v), text or "") for v in out)
    while changed:
        changed = False
        for d in fn.events("decl"):
            if d.get("var") and d["var"] not in out:
                txt = ((d.get("init") or {}).get("t") or "") + " " + " ".join(a.get("t") or "" for a in d.get("cargs", []) or [])
                if mentions(txt) or any(r[2:] in out for r in (d.get("refs") or []) if r.startswith("v:")) or lambda_mentions(d):
                    out.add(d["var"])
                    changed = True
        for a in fn.events("assign"):
            v = (a.get("lhs") or {}).get("v")
            if v and v not in out and mentions((a.get("rhs") or {}).get("t") or ""):
                out.add(v)
                changed = True
        for c in fn.events("call"):
            if (c.get("callee") or "") in ("memcpy", "memmove", "std::memcpy", "std::memmove", "strncpy", "std::copy", "std::copy_n") and c.get("args"):
                dst = c["args"][0] if not (c.get("callee") or "").startswith("std::copy") else c["args"][-1]
                root = dst.get("root") or dst.get("v") or (re.match(r"^\W*(\w+)", dst.get("t") or "") or [None, None])[1]
                if root and root not in out and any(mentions(x.get("t")) for x in c["args"] if x is not dst):
                    out.add(root)
                    changed = True
    return out


# ---------- running a path automaton through helpers ----------

def inlined_step(prog, step, want, depth=3, on_return=None):
    """Wrap an automaton step so that a call to a program-defined function g with want(g) is replaced by running the automaton
    through g's body (its non-throwing exit states become the states after the call).  Bounded depth; recursion is not followed."""
    level = [0]
    active = []

    def step2(st, ev):
        if ev["k"] == "call" and level[0] < depth and not ev.get("inlined"):     # (calls already expanded by Program.flat are in the CFG)
            gs = [g for g in prog.resolve_call(ev) if g.blocks and g.id not in active and want(g)]
            if gs:
                outs = []
                level[0] += 1
                try:
                    for g in gs:
                        active.append(g.id)
                        try:
                            exits, _ = cfg.run_automaton(g, st, step2)
                        finally:
                            active.pop()
                        # on_return(state, exit, callee) may fold what the callee returned into the state (so that the caller's
                        # branch on the result can be correlated with the path taken inside the callee)
                        outs += [(on_return(x.state, x, g) if on_return else x.state) for x in exits if x.kind != "throw"]
                finally:
                    level[0] -= 1
                return list(dict.fromkeys(outs))
        return step(st, ev)
    return step2


def completion_callback_pred(prog, conn_prefix):
    """predicate: the event runs the client's completion callback (RequestEntry::onDone): the member itself, a local copy of it, a
    std::function parameter of a Connection helper that is handed one, or a call to such a helper with the callback as argument"""
    def copies(fn_):
        return {d["var"] for d in fn_.events("decl") if d.get("var") and strip_tmpl((d.get("init") or {}).get("f") or "").endswith("RequestEntry::onDone")}

    def invoked_params(fn_):
        names = {p_["name"] for p_ in fn_.params}
        return {(e.get("recv") or {}).get("v") for e in fn_.events("call") if e.base_callee() == "std::function::operator()" and (e.get("recv") or {}).get("v") in names}

    def handed_callback(fn_, pname):
        idx = [i for i, p_ in enumerate(fn_.params) if p_["name"] == pname]
        sites = prog.call_sites(fn_.base)
        return bool(idx) and bool(sites) and all(
            len(s.get("args", [])) > idx[0] and (s["args"][idx[0]].get("v") in copies(s.func) or strip_tmpl(s["args"][idx[0]].get("f") or "").endswith("RequestEntry::onDone"))
            for s in sites)

    def direct(ev):
        if ev["k"] != "call" or ev.base_callee() != "std::function::operator()":
            return False
        rv = ev.get("recv") or {}
        if strip_tmpl(rv.get("f") or "").endswith("RequestEntry::onDone") or rv.get("v") in copies(ev.func):
            return True
        f = ev.func
        return (not isinstance(f, str)) and f.base.startswith(conn_prefix) and rv.get("v") in invoked_params(f) and handed_callback(f, rv.get("v"))

    def via_helper(ev):
        if ev["k"] != "call" or not (ev.get("callee") or "").startswith(conn_prefix):
            return False
        for g_ in prog.resolve_call(ev):
            inv = invoked_params(g_)
            for i, a in enumerate(ev.get("args", [])):
                if i < len(g_.params) and g_.params[i]["name"] in inv and (a.get("v") in copies(ev.func) or strip_tmpl(a.get("f") or "").endswith("RequestEntry::onDone")):
                    return True
        return False
    return direct, via_helper


def relation_edges(f, lhs_pred, rhs_pred, rels):
    """[(block, k)]: edges on which  L <rel> R  holds (rel in rels; L, R satisfy the predicates on the extractor's operand refs; either
    way round), the comparison being the branch condition itself or a bool local initialised from it (`const bool done = a == b; if (done)`)"""
    out = []

    def match(lhs, rel, rhs):
        if lhs_pred(lhs) and rhs_pred(rhs) and rel in rels:
            return True
        return lhs_pred(rhs) and rhs_pred(lhs) and _SWAP[rel] in rels
    boolvars = {}
    for d in f.events("decl"):
        if d.get("var") and (d.get("type") or "").replace("const ", "").strip() == "bool":
            blk = f.blocks[d.block]
            cmps = [x for x in blk.elems[:d.idx] if x["k"] == "cmp" and x.get("op") in _NEG and (x.get("t") or "").strip("() ") in ((d.get("init") or {}).get("t") or "")]
            if cmps and not [a for a in f.events("assign") if (a.get("lhs") or {}).get("v") == d["var"]]:
                it = re.sub(r"\s+", "", (d.get("init") or {}).get("t") or "")
                neg_ = it.startswith("!") and not it.startswith("!=")
                boolvars[d["var"]] = (cmps[-1], neg_)
    for b in f.blocks.values():
        t = b.term
        if t and t.get("k") == "switch" and ("==" in rels):
            # `switch (L) { case R: ... }`: on the edge into a case label L == R holds (when no other label falls through into it)
            subj = dict(t.get("core") or {})
            subj.setdefault("t", t.get("cond") if isinstance(t.get("cond"), str) else " ".join(t.get("cond") or []))
            if lhs_pred(subj):
                for k, s_ in enumerate(b.succs):
                    blk = f.blocks.get(s_) if s_ is not None else None
                    lab = (blk.label or {}) if blk is not None else {}
                    if lab.get("k") == "case" and rhs_pred({"t": lab.get("t") or "", "const": lab.get("const"), "g": lab.get("g")}) and \
                            all(p_ == b.id for p_ in blk.preds):
                        out.append((b.id, k))
            continue
        if not t or len(b.succs) != 2:
            continue
        for k in (0, 1):
            if b.succs[k] is None:
                continue
            r = rel_on_edge(t, k)
            if r is not None:
                if match(*r):
                    out.append((b.id, k))
                continue
            v = (t.get("core") or {}).get("v")
            if v in boolvars and not t.get("cmp"):
                c, neg_ = boolvars[v]
                truth = ((k == 0) != bool(t.get("neg"))) != neg_
                rel = c["op"] if truth else _NEG[c["op"]]
                if match(c.get("lhs") or {}, rel, c.get("rhs") or {}):
                    out.append((b.id, k))
    return out


def param_fed_by(prog, f, pname, site_pred, depth=3):
    """f's parameter `pname` receives, at every call site of f, an argument for which site_pred(caller, arg) holds -- or the caller's
    own parameter for which the same holds one level up."""
    if f.is_lambda or depth <= 0:
        return False
    idx = [i for i, p_ in enumerate(f.params) if p_["name"] == pname]
    sites = prog.call_sites(f.base)
    if not idx or not sites:
        return False
    for s in sites:
        if len(s.get("args", [])) <= idx[0]:
            return False
        a = s["args"][idx[0]]
        if site_pred(s.func, a):
            continue
        caller = s.func
        if a.get("v") in {p_["name"] for p_ in caller.params} and param_fed_by(prog, caller, a["v"], site_pred, depth - 1):
            continue
        return False
    return True


# ---------- a function's calls in source order, helpers and lambdas expanded, parameters substituted ----------

def flat_calls(prog, f, expand, depth=3, _subst=None, _stack=()):
    """[(event, args)] for the call events of f in source order; a call to a program-defined function / lambda g with expand(g) is
    replaced by g's own sequence.  `args` is the event's argument list with every callee parameter name replaced (whole word, in the
    text `t` and in `v`) by the text of the argument the caller passed for it, transitively -- so a rule written against the names
    of the outermost function still matches when the code was moved into a helper or handed a callback."""
    _subst = _subst or {}
    out = []

    def sub_text(t):
        for p_, a_ in _subst.items():
            t = re.sub(r"\b%s\b" % re.escape(p_), a_.replace("\\", "\\\\"), t or "")
        return t

    def sub_arg(a):
        b = dict(a)
        b["t"] = sub_text(a.get("t") or "")
        if a.get("v") in _subst:
            m = re.match(r"^[A-Za-z_]\w*$", _subst[a["v"]])
            b["v"] = _subst[a["v"]] if m else None
        return b
    # clang numbers CFG blocks from the exit upwards: descending block id, then position in the block, is source order
    for e in sorted(f.events("call"), key=lambda x: (-x.block, x.idx)):
        args = [sub_arg(a) for a in e.get("args", [])]
        gs = [g for g in prog.resolve_call(e) if g.blocks and g.id not in _stack and g.id != f.id and expand(g)] if depth > 0 else []
        if gs and e.get("inlined"):
            # f is a flattened function (facts.Program.flat) and the body of this helper follows in f itself
            continue
        if gs:
            g = gs[0]
            s2 = {p_["name"]: (args[i].get("t") or "") for i, p_ in enumerate(g.params) if i < len(args) and not args[i].get("lam")}
            # a lambda keeps seeing the names it captured from its own lexical scope, already substituted there
            for k_, v_ in _subst.items():
                s2.setdefault(k_, v_)
            out += flat_calls(prog, g, expand, depth - 1, s2, _stack + (f.id,))
        else:
            out.append((e, args))
    return out


ASSOC = ("std::unordered_map", "std::map", "std::unordered_set", "std::set", "std::unordered_multimap", "std::multimap")


def is_assoc_call(e):
    return strip_tmpl(e.get("callee") or "").rsplit("::", 1)[0] in ASSOC


MULTI_ASSOC = ("std::unordered_multimap", "std::multimap", "std::unordered_multiset", "std::multiset")


def is_unique_assoc_call(e):
    """a member call on an associative container with unique keys: inserting an existing key leaves the container as it was (on a
    multimap / multiset every insert adds an element, like an append)"""
    c = strip_tmpl(e.get("callee") or "").rsplit("::", 1)[0]
    return c in ASSOC and c not in MULTI_ASSOC


def is_subscript_store(f, e):
    """`m[k] = v`: the operator[] call e is the target of an assignment (the only use of operator[] that overwrites)"""
    if e.get("op") != "[]" and not (e.get("callee") or "").endswith("operator[]"):
        return False
    t = re.sub(r"\s+", "", e.get("t") or "")
    for x in f.events(("assign", "call")):
        if x["k"] == "assign" and re.sub(r"\s+", "", (x.get("lhs") or {}).get("t") or "") == t:
            return True
        if x["k"] == "call" and x.get("op") == "=" and re.sub(r"\s+", "", (x.get("recv") or {}).get("t") or "") == t:
            return True
    return False


def caller_holds(prog, fn, mutex, base="this", depth=3, _memo=None):
    """fn is a helper that does not take `mutex` itself: true when every call site of fn (transitively through such helpers) holds a
    live guard on base->mutex there.  Used for helpers that were split out of a locked region."""
    _memo = {} if _memo is None else _memo
    fn = prog.owner(fn)
    if fn.id in _memo:
        return _memo[fn.id]
    _memo[fn.id] = False
    sites = prog.call_sites(fn.base)
    if not sites or depth <= 0:
        return False
    ok = True
    for s_ in sites:
        sf = prog.owner(s_.func) if s_.func.is_lambda else s_.func
        ls = locksets(s_.func, lam_unlocks=lambda_unlocks(prog, s_.func)) if not s_.func.is_lambda else {}
        if s_.func.is_lambda:
            ok = ok and caller_holds(prog, s_.func, mutex, base, depth - 1, _memo)
        elif holds(ls.get((s_.block, s_.idx)), mutex, base):
            continue
        elif not caller_holds(prog, sf, mutex, base, depth - 1, _memo):
            ok = False
    _memo[fn.id] = ok
    return ok


def at_least_edges(fn_, operand_pred):
    """[(block, k, n)]: edges on which an operand satisfying operand_pred(ref) is known to be >= n (n an integer constant), whichever way
    the test is written (`x < 2` not taken, `x >= 2` taken, `x > 1` taken) and whether it is the branch condition itself (if / ?: /
    loop) or a bool local initialised from it."""
    out_ = []
    is_int = lambda r_: re.match(r"^\(?-?\d+[uUlL]*\)?$", (r_.get("t") or "").replace(" ", "")) is not None
    for rel, add in ((">=", 0), (">", 1)):
        for bid, k in relation_edges(fn_, operand_pred, is_int, (rel,)):
            t = fn_.blocks[bid].term
            n = None
            if isinstance(t.get("rconst"), int) and not isinstance(t.get("rconst"), bool):
                n = t["rconst"]
            else:
                v = (t.get("core") or {}).get("v")
                for d in fn_.events("decl"):
                    if d.get("var") == v:
                        m = re.search(r"(-?\d+)\s*\)?\s*$", ((d.get("init") or {}).get("t") or "").strip())
                        m2 = re.search(r"^\(?\s*(-?\d+)\b", ((d.get("init") or {}).get("t") or "").strip().lstrip("!("))
                        n = int(m.group(1)) if m else (int(m2.group(1)) if m2 else None)
            if n is not None:
                out_.append((bid, k, n + add))
    return out_


def term_refs(fn_, term):
    """references of a branch condition, looking through a bool local it tests (`const bool fits = a + b <= max; if (!fits)`)"""
    refs = list((term or {}).get("refs") or [])
    v = ((term or {}).get("core") or {}).get("v")
    if v and not (term or {}).get("cmp"):
        for d in fn_.events("decl"):
            if d.get("var") == v and (d.get("type") or "").replace("const ", "").strip() == "bool":
                if not [a for a in fn_.events("assign") if (a.get("lhs") or {}).get("v") == v]:
                    refs += list(d.get("refs") or [])
    return refs


# ---------- consumption covered by an availability test (analysis B with symbolic sums) ----------

def _sum_terms(text):
    """'remainingData + 2' -> ['remainingData', '2'] (top-level '+' only); None when the expression has another shape"""
    t = re.sub(r"\s+", "", text or "")
    while t.startswith("(") and t.endswith(")") and _balanced(t[1:-1]):
        t = t[1:-1]
    if not t:
        return None
    out, depth, cur = [], 0, ""
    for ch in t:
        if ch in "([<":
            depth += 1
        elif ch in ")]>":
            depth -= 1
        if ch == "+" and depth == 0:
            out.append(cur)
            cur = ""
        else:
            cur += ch
    out.append(cur)
    if any(not x or re.search(r"[-*/%?]", x) for x in out):
        return None
    return [re.sub(r"^static_cast<[^>]*>\((.*)\)$", r"\1", x) for x in out]


def _balanced(t):
    d = 0
    for ch in t:
        d += ch == "("
        d -= ch == ")"
        if d < 0:
            return False
    return d == 0


def unchecked_advances(f, is_advance, is_remaining, is_eol):
    """[(call, covered, why)] for the calls of f satisfying is_advance whose result nobody looks at.  Such a call silently does nothing
    when fewer bytes are buffered than it is told to skip, so it is *covered* only when a test on the way establishes that enough is
    there: with A = remaining() taken before, an edge A >= t1 + .. + tn (the not-taken edge of `A < ...`, or `remaining() < n`), or the
    true edge of eol() (two bytes), dominates it and the amounts consumed since that edge are among t1..tn; or its amount is A itself
    / min(A, ..) with nothing consumed in between."""
    d = cfg.dominators(f)
    adv = [e for e in f.events("call") if is_advance(e)]
    # (in a flattened function the locals of an expanded helper carry a suffix that expression text does not: compare base names)
    avail = {}
    for x in f.events("decl"):
        if x.get("var") and is_remaining_init(x, is_remaining):
            avail.setdefault(x["var"].split("@")[0], []).append(x)
    out = []

    def used(c):
        blk = f.blocks[c.block]
        ct = re.sub(r"\s+", "", c.get("t") or "")
        if blk.term and ct and ct in re.sub(r"\s+", "", (blk.term.get("cond") or "")):
            return True
        for x in blk.elems[c.idx + 1:]:
            if x["k"] in ("return", "decl", "assign") and ct and ct in re.sub(r"\s+", "", (x.get("t") or "") + ((x.get("init") or {}).get("t") or "") + ((x.get("rhs") or {}).get("t") or "")):
                return True
        return False

    def amount(c):
        return re.sub(r"\s+", "", (c.get("args") or [{}])[0].get("t") or "")

    facts_ = []    # (block, k, [terms])
    for b in f.blocks.values():
        t = b.term
        if not t or len(b.succs) != 2:
            continue
        for k in (0, 1):
            if b.succs[k] is None:
                continue
            r = rel_on_edge(t, k)
            if r is not None:
                lhs, rel, rhs = r
                for a_, rel_, o_ in ((lhs, rel, rhs), (rhs, _SWAP[rel], lhs)):
                    is_av = (a_.get("v") or "").split("@")[0] in avail or any(is_remaining_ref(x) for x in [a_])
                    if is_av and rel_ in (">=", ">", "=="):
                        terms = _sum_terms(o_.get("t"))
                        if terms is not None:
                            facts_.append((b.id, k, terms, a_.get("v")))
            if not t.get("cmp") and any(is_eol_ref(r_) for r_ in (t.get("leafrefs") or t.get("refs") or [])) and (k == 0) != bool(t.get("neg")):
                facts_.append((b.id, k, ["2"], None))
            # a test of a bool local that records the comparison (`const bool whole = !(A < n + 2); if (whole)`)
            cv_ = ((t.get("core") or {}).get("v") or "").split("@")[0]
            if not t.get("cmp") and cv_:
                for x in f.events("decl"):
                    if (x.get("var") or "").split("@")[0] != cv_ or "bool" not in (x.get("ctype") or x.get("type") or ""):
                        continue
                    it = re.sub(r"\s+", "", (x.get("init") or {}).get("t") or "")
                    neg_ = False
                    while it.startswith("(") and it.endswith(")") and _balanced(it[1:-1]):
                        it = it[1:-1]
                    if it.startswith("!(") and it.endswith(")") and _balanced(it[2:-1]):
                        neg_, it = True, it[2:-1]
                    mr = re.match(r"^(\w+)(<=|>=|<|>)(.+)$", it)
                    if not mr:
                        continue
                    a_, op_, b_ = mr.group(1), mr.group(2), mr.group(3)
                    if neg_:
                        op_ = _NEG[op_]
                    if a_ not in avail and re.match(r"^\w+$", b_) and b_ in avail:
                        a_, op_, b_ = b_, _SWAP[op_], a_
                    truth = (k == 0) != bool(t.get("neg"))
                    if not truth:
                        op_ = _NEG[op_]
                    if a_ in avail and op_ in (">=", ">"):
                        terms = _sum_terms(b_)
                        if terms is not None:
                            facts_.append((b.id, k, terms, a_))
    for c in adv:
        if used(c):
            continue
        amt = amount(c)
        ok, why = False, "no availability test covers it"
        # the amount is what is there
        m = re.match(r"^(?:std::min(?:<[^>]*>)?\()?(\w+)", amt)
        for av, dvs in avail.items():
            for dv in dvs:
                if (amt == av or re.match(r"^std::min(<[^>]*>)?\((%s,.*|.*,%s)\)$" % (re.escape(av), re.escape(av)), amt)) and cfg.ev_dominates(d, dv, c):
                    between = [x for x in adv if x is not c and cfg.ev_dominates(d, dv, x) and any(y is c for y in cfg.events_after(f, x))]
                    if not between:
                        ok, why = True, "skips what remaining() reported (%s)" % av
        # `advance(enough ? n : A)` with `const bool enough = !(A < n)` (or A >= n; or the arms the other way round under `A < n`)
        if not ok:
            mt = re.match(r"^\(?(\w+)\?([^:]+):([^:]+?)\)?$", amt)
            if mt:
                cv, t_arm, f_arm = mt.group(1), mt.group(2), mt.group(3)
                for x in f.events("decl"):
                    if (x.get("var") or "").split("@")[0] != cv or not cfg.ev_dominates(d, x, c):
                        continue
                    it = re.sub(r"\s+", "", (x.get("init") or {}).get("t") or "")
                    neg_ = False
                    while it.startswith("(") and it.endswith(")") and _balanced(it[1:-1]):
                        it = it[1:-1]
                    if it.startswith("!(") and it.endswith(")") and _balanced(it[2:-1]):
                        neg_, it = True, it[2:-1]
                    mr = re.match(r"^(\w+)(<=|>=|<|>)(.+)$", it)
                    if not mr:
                        continue
                    a_, op_, b_ = mr.group(1), mr.group(2), mr.group(3)
                    if neg_:
                        op_ = _NEG[op_]
                    if a_ not in avail and b_ in avail:
                        a_, op_, b_ = b_, _SWAP[op_], a_
                    if a_ not in avail:
                        continue
                    enough_arm, short_arm = (t_arm, f_arm) if op_ in (">=", ">") else (f_arm, t_arm)
                    if enough_arm == b_ and (short_arm == a_ or re.match(r"^std::min(<[^>]*>)?\(", short_arm)):
                        ok, why = True, "skips %s when %s %s %s, otherwise what is there" % (b_, a_, op_ if op_ in (">=", ">") else _NEG[op_], b_)
        # a local that is itself min(A, ..)
        if not ok:
            for x in f.events("decl"):
                it = re.sub(r"\s+", "", (x.get("init") or {}).get("t") or "")
                if (x.get("var") or "").split("@")[0] == amt and any(re.match(r"^std::min(<[^>]*>)?\((%s,.*|.*,%s)\)$" % (re.escape(av), re.escape(av)), it) for av in avail) and cfg.ev_dominates(d, x, c):
                    ok, why = True, "skips min(remaining, ..) (%s)" % amt
        if not ok:
            for bid, k, terms, _av in facts_:
                if not cfg.edge_dominates(f, bid, k, c):
                    continue
                consumed = [amount(x) for x in adv if (x is c) or (cfg.edge_dominates(f, bid, k, x) and any(y is c for y in cfg.events_after(f, x)))]
                pool = list(terms)
                fits = True
                for a_ in consumed:
                    if a_ in pool:
                        pool.remove(a_)
                    else:
                        fits = False
                if fits:
                    ok, why = True, "the test at line %s establishes %s buffered; consumed since: %s" % ((f.blocks[bid].term or {}).get("l"), " + ".join(terms), " + ".join(consumed))
                    break
                why = "the test at line %s establishes only %s buffered, but %s are skipped after it" % ((f.blocks[bid].term or {}).get("l"), " + ".join(terms), " + ".join(consumed))
        out.append((c, ok, why))
    return out


def is_remaining_init(d, is_remaining):
    return is_remaining(d)


def is_remaining_ref(x):
    return "remaining()" in re.sub(r"\s+", "", x.get("t") or "") and not x.get("v")


def is_eol_ref(r_):
    return r_ in ("c:Pistache::StreamCursor::eol",)


# ---------- state that outlives a call (static / thread_local locals) ----------

SYNC_TYPES = ("std::once_flag", "std::mutex", "std::recursive_mutex", "std::shared_mutex")
KILL_METHODS = ("clear", "operator=", "assign")


def stale_static_state(prog, roots, file_ok=None):
    """[(func, decl event, first-touch event, chain)]: mutable static / thread_local locals in the call closure of `roots` whose value
    from an earlier call can reach a use in a later one: on some path from the declaration the first thing done with the variable is not
    a whole-object overwrite (clear(), assignment, assign()).  A pure counter (only ++ / fetch_add, never read) and synchronisation
    objects carry no data from call to call and are skipped.  Returns also the number of functions looked at."""
    # (the functions as written: a flattened copy of a root carries the statics of the helpers expanded into it under suffixed names, and
    # the helpers themselves are reached through the call graph anyway)
    roots = [prog.funcs.get(r_.id, r_) for r_ in roots]
    reach = callgraph_reach(prog, roots)
    out = []
    n = 0
    for fid, (f, chain) in reach.items():
        f = prog.funcs.get(f.id, f)
        if file_ok is not None and not file_ok(f.file):
            continue
        n += 1
        for d in f.events("decl"):
            if not d.get("static"):
                continue
            ty = (d.get("ctype") or d.get("type") or "")
            if re.match(r"^\s*const\b", ty) or ty.rstrip().endswith(" const") or any(s_ in ty for s_ in SYNC_TYPES):
                continue
            v = d["var"]

            def touches(e, v=v):
                if e["k"] == "decl" and e.get("var") == v:
                    return False
                if e["k"] in ("dtor",):
                    return False
                rv = e.get("recv") or {}
                if rv.get("root") == v or rv.get("v") == v:
                    return True
                if e["k"] in ("assign",) and ((e.get("lhs") or {}).get("v") == v or (e.get("lhs") or {}).get("root") == v):
                    return True
                if ("v:" + v) in (e.get("refs") or []):
                    return True
                for a in (e.get("args") or []) + (e.get("cargs") or []):
                    if a.get("root") == v or a.get("v") == v:
                        return True
                if e["k"] == "incdec" and ((e.get("operand") or {}).get("v") == v):
                    return True
                return False

            def is_kill(e, v=v):
                if e["k"] == "assign" and e.get("op") == "=" and (e.get("lhs") or {}).get("v") == v:
                    return True
                if e["k"] == "call" and ((e.get("recv") or {}).get("v") == v or (e.get("recv") or {}).get("root") == v):
                    m = strip_tmpl(e.get("callee") or "").rsplit("::", 1)[-1]
                    if m in KILL_METHODS and (e.get("recv") or {}).get("t", "").strip() in (v, "this->" + v):
                        return True
                return False

            def kills_in_callee(e, v=v, depth=2):
                """the call hands the variable, by reference, to a function that overwrites that parameter as a whole before doing
                anything else with it"""
                if e["k"] != "call" or depth <= 0:
                    return False
                args = e.get("args") or []
                idx = [i for i, a in enumerate(args) if (a.get("v") == v or a.get("root") == v) and (a.get("t") or "").strip() in (v, "this->" + v)]
                if len(idx) != 1:
                    return False
                gs = prog.resolve_call(e)
                if len({g.id for g in gs}) != 1:
                    return False
                g = gs[0]
                off = len(args) - len(g.params)
                pi = idx[0] - off
                if not (0 <= pi < len(g.params)) or "&" not in (g.params[pi].get("type") or "") or "const" in (g.params[pi].get("type") or "").split("&")[0]:
                    return False
                pn = g.params[pi]["name"]

                def t2(x):
                    rv = x.get("recv") or {}
                    if rv.get("root") == pn or rv.get("v") == pn:
                        return True
                    if x["k"] == "assign" and ((x.get("lhs") or {}).get("v") == pn or (x.get("lhs") or {}).get("root") == pn):
                        return True
                    if ("v:" + pn) in (x.get("refs") or []):
                        return True
                    return any(a.get("root") == pn or a.get("v") == pn for a in (x.get("args") or []) + (x.get("cargs") or []))

                def k2(x):
                    if x["k"] == "assign" and x.get("op") == "=" and (x.get("lhs") or {}).get("v") == pn:
                        return True
                    if x["k"] == "call" and ((x.get("recv") or {}).get("v") == pn or (x.get("recv") or {}).get("root") == pn):
                        return strip_tmpl(x.get("callee") or "").rsplit("::", 1)[-1] in KILL_METHODS and (x.get("recv") or {}).get("t", "").strip() == pn
                    return False
                first = []
                seen_b = set()
                work = [(g.entry, 0)]
                while work:
                    bid, i0 = work.pop()
                    if (bid, i0) in seen_b or bid not in g.blocks:
                        continue
                    seen_b.add((bid, i0))
                    stopped = False
                    for x in g.blocks[bid].elems[i0:]:
                        if t2(x):
                            first.append(x)
                            stopped = True
                            break
                    if not stopped:
                        for s_ in g.blocks[bid].succs:
                            if s_ is not None:
                                work.append((s_, 0))
                return bool(first) and all(k2(x) for x in first)

            def is_count(e, v=v):
                if e["k"] == "incdec":
                    return True
                if e["k"] == "call" and strip_tmpl(e.get("callee") or "").rsplit("::", 1)[-1] in ("fetch_add", "fetch_sub", "operator++", "operator--"):
                    return True
                return False
            evs = cfg.events_after(f, d, stop=lambda e: touches(e) and not is_count(e))
            firsts = [e for e in evs if touches(e) and not is_count(e)]
            bad = [e for e in firsts if not is_kill(e) and not kills_in_callee(e)]
            if bad:
                out.append((f, d, bad[0], chain))
    return out, n


STATIC_ALLOWED = {
    # the process-wide header registry: filled by the static registrars before main(), read-only afterwards (C09-R5 checks that its
    # mutator is not reachable from the serving path)
    "Pistache::Http::Header::Registry::instance",
}


def no_stale_static_rule(ck, rid, basenames, what):
    """Declares and decides rule `rid`: the functions of the named source files (and what they call) keep no data in static /
    thread_local locals from one call to the next."""
    import os as _os
    prog = ck.prog
    ck.rule(rid, "C path automaton on static / thread_local locals over the call closure",
            "%s are functions of their input only: a static or thread_local local in their call closure is overwritten as a whole "
            "(clear / assignment) before anything else is done with it on every path, so nothing an earlier call saw can reach a later result" % what, 1)
    roots = [f for f in prog.funcs.values() if _os.path.basename(f.file) in basenames and not f.is_lambda]
    ck.require(roots, "%s: no function of %s in the analysed program" % (rid, "/".join(basenames)))
    stale, n = stale_static_state(prog, roots, file_ok=lambda q: "/pistache/" in q or "/src/" in q)
    stale = [x for x in stale if x[0].base not in STATIC_ALLOWED]
    ck.ob(rid, "no-stale-static-state", not stale, (stale[0][2].loc if stale else roots[0].loc), (stale[0][0] if stale else roots[0]),
          ("%d functions in the closure, none keeps data in a static local" % n) if not stale else
          "static local `%s` of %s still holds what an earlier call left in it when it is used at %s" % (stale[0][1]["var"], stale[0][0].name, stale[0][2].loc),
          path=(stale[0][3] if stale else None))
    # ... and none of them keeps data in a namespace-scope variable or a static data member either (a result cache, a "last value")
    reach = callgraph_reach(prog, roots)
    gw = []
    for fid, (f2, chain) in reach.items():
        if not ("/pistache/" in f2.file or "/src/" in f2.file) or "/tests/" in f2.file or "/examples/" in f2.file:
            continue
        for e in f2.events():
            g_ = None
            if e["k"] == "assign":
                g_ = e["lhs"].get("g")
            elif e["k"] == "incdec":
                g_ = (e.get("operand") or {}).get("g")
            elif e["k"] == "call":
                rv = e.get("recv") or {}
                if rv.get("g") and is_stl_mutation(e):
                    g_ = rv["g"]
            if g_:
                gw.append((f2, e, g_, chain))
    ck.ob(rid, "no-process-wide-state", not gw, (gw[0][1].loc if gw else roots[0].loc), (gw[0][0] if gw else roots[0]),
          ("%d functions reachable, none writes a namespace-scope variable or static member" % len(reach)) if not gw else
          "%s writes the process-wide variable %s: what it answers for a text then depends on which texts were handled before" % (gw[0][0].name, gw[0][2]),
          path=(gw[0][3] if gw else None))


# ---------- virtual defaults that call each other ----------

def virtual_default_cycles(prog, root_cls):
    """[(class name, [method names], site)]: classes derived from `root_cls` in which a set of virtual methods, as virtual dispatch
    resolves them for that class, call each other unconditionally on `this` (every non-throwing path of each implementation makes the
    call): a call of any of them on an object of that class never returns.  The base class offers such pairs on purpose ("override
    one of the two"); the rule is that every derived class does."""
    root = strip_tmpl(root_cls)
    rc = prog.cls(root)
    vnames = [m["name"] for m in rc.get("methods", []) if m.get("virtual") and not m.get("pure") and not m["name"].startswith("~")]
    if len(vnames) < 2:
        return [], 0

    def chain(cname):
        """class names from cname up to root (single inheritance path through which root is reached)"""
        c = None
        for cc in prog.class_list:
            if strip_tmpl(cc["name"]) == strip_tmpl(cname):
                c = cc
                break
        if c is None:
            return None
        if strip_tmpl(c["name"]) == root:
            return [c]
        for b in c.get("bases", []):
            if b.get("name"):
                up = chain(b["name"])
                if up is not None:
                    return [c] + up
        return None

    def impl(ch, m):
        for c in ch:
            for mm in c.get("methods", []):
                if mm["name"] == m and not mm.get("pure") and (mm.get("virtual") or strip_tmpl(c["name"]) == root):
                    fs = prog.by_base.get(strip_tmpl(mm["q"]), [])
                    return fs[0] if fs else None
        return None

    def must_call(f, m):
        """f calls this->m (virtually) on every non-throwing path"""
        def is_it(e):
            return e["k"] == "call" and e.get("virt") and strip_tmpl(e.get("callee") or "").rsplit("::", 1)[-1] == m and \
                ((e.get("recv") or {}).get("t") or "").strip() in ("this", "(*this)", "*this")
        if not any(is_it(e) for e in f.events("call")):
            return None
        loose = [x for x in cfg.exits_without(f, is_it) if x.kind != "throw"]
        if loose:
            return None
        return [e for e in f.events("call") if is_it(e)][0]

    out = []
    n = 0
    for sub in sorted(prog.subclasses(root)):
        ch = chain(sub)
        if not ch:
            continue
        n += 1
        edges = {}
        for m in vnames:
            f = impl(ch, m)
            if f is None:
                continue
            for m2 in vnames:
                if m2 != m:
                    e = must_call(f, m2)
                    if e is not None:
                        edges.setdefault(m, []).append((m2, e))
        # a cycle m -> ... -> m
        for m in vnames:
            seen, work = set(), [(m, [m])]
            found = None
            while work and not found:
                x, path = work.pop()
                for (y, e) in edges.get(x, []):
                    if y == m:
                        found = (path, e)
                        break
                    if y not in seen:
                        seen.add(y)
                        work.append((y, path + [y]))
            if found:
                out.append((ch[0]["name"], found[0], "%s:%s" % (ch[0].get("file"), ch[0].get("line"))))
                break
    return out, n


# ---------- parameters of expanded helpers ----------

def bound_init(f, var, at_block, dom=None):
    """The argument a parameter of an expanded helper stands for at a given place of the flattened function: the `init` of the nearest
    `bind` event for that parameter whose block dominates `at_block` (a helper expanded several times has one bind per expansion)."""
    if not var:
        return None
    base = var.split("@")[0]
    dom = dom if dom is not None else cfg.dominators(f)
    best = None
    for e in f.events("bind"):
        if (e.get("var") or "").split("@")[0] != base:
            continue
        if e.block == at_block or e.block in dom.get(at_block, ()):
            if best is None or len(dom.get(e.block, ())) > len(dom.get(best.block, ())) or (e.block == best.block and e.idx > best.idx):
                best = e
    return (best.get("init") or {}) if best is not None else None


# ---------- a guard that is told to forget its mutex ----------

def guard_release_rule(ck, rule_id, scope, what, minimum_guards):
    """Every std::unique_lock / scoped guard constructed in a function of `scope` gives its mutex back: the RAII destructor does so
    unless the guard was told to forget the mutex with release() (which returns the mutex *still locked*).  A release() is accepted
    only when the pointer it returns is unlocked in the same function.  Expected count of release() calls on the tree is zero; the
    number of guards looked at is the instance count."""
    ck.rule(rule_id, "A lockset (guards give the mutex back)",
            "%s: no guard over them is made to forget its mutex with release() (the mutex would stay locked for ever: the next "
            "attach, settle or write on that object blocks) unless the returned mutex is unlocked in the same function" % what, 1)
    n = 0
    for f in ck.prog.funcs.values():
        if not scope(f) or not f.blocks:
            continue
        guards = [d for d in f.events("decl") if (d.get("ctor") or "").startswith(("std::unique_lock", "std::lock_guard", "std::scoped_lock"))]
        n += len(guards)
        rel = [e for e in f.events("call") if strip_tmpl(e.get("callee") or "") == "std::unique_lock::release"]
        for e in rel:
            # `guard.release()->unlock()` or `auto* m = guard.release(); ... m->unlock();`
            unl = [u for u in f.events("call") if strip_tmpl(u.get("callee") or "") in ("std::mutex::unlock", "std::recursive_mutex::unlock")
                   and (u.get("l") == e.get("l") or any(x is u for x in cfg.events_after(f, e)))]
            ck.ob(rule_id, "%s/release@%s" % (ck.prog.owner(f).base.replace("Pistache::", ""), (e.get("recv") or {}).get("t")), bool(unl), e.loc, f,
                  "the released mutex is unlocked by hand" if unl else
                  "%s.release() at line %s makes the guard forget its mutex without unlocking it: the mutex stays locked after the function returns"
                  % ((e.get("recv") or {}).get("t"), e.get("l")))
    ck.require(n >= minimum_guards, "%s: only %d RAII guards found in scope" % (rule_id, n))
    ck.ob(rule_id, "guards-in-scope", True, "", "", "%d RAII guards constructed in scope; every release() judged above" % n, nontrivial=False)
    return n


# ---------- value classes do not point into themselves ----------

def self_view_rule(ck, rule_id, class_names, what):
    """A value class that is copied and moved with the implicitly generated operations must not keep a non-owning member (string_view,
    pointer, iterator) that is set to point into another member of the same object: the copy's view still refers to the source's
    storage.  Reports only the definite witness: a store to such a member whose right-hand side mentions an owning member of `this`,
    in a class without user-provided copy operations."""
    prog = ck.prog
    ck.rule(rule_id, "I type-level (self-contained value)",
            "%s: no member is a view (std::string_view, pointer, iterator) into another member of the same object while copy and move "
            "are the implicit member-wise ones -- a copied value would answer from the storage of the object it was copied from, which "
            "may be re-assigned or gone" % what, 1)
    NONOWNING = ("basic_string_view", "_iterator", "initializer_list")
    for cn in class_names:
        c = prog.cls(cn)
        ck.require(c is not None, "class %s not found" % cn)
        short = cn.rsplit("::", 1)[1]
        views = [x for x in c["fields"] if any(k in (x.get("ctype") or x["type"]) for k in NONOWNING) or (x.get("ctype") or x["type"]).rstrip().endswith(("*", "&"))]
        own_copy = any(m.get("ctor") and ("const %s &" % short) in (m.get("sig") or "").replace(cn.rsplit("::", 1)[0] + "::", "") for m in c.get("methods", []))
        owning = {x["q"] for x in c["fields"] if x not in views}
        bad = []
        for f in prog.funcs.values():
            if not f.blocks or not (f.cls == cn or (f.is_lambda and prog.owner(f).cls == cn)):
                continue
            for e in f.events(("assign", "call", "init")):
                if e["k"] == "assign":
                    tgt = e["lhs"].get("f")
                elif e["k"] == "init":
                    tgt = e.get("f")
                else:
                    tgt = (e.get("recv") or {}).get("f") if e.get("op") == "=" else None
                tgt = strip_tmpl(tgt or "")
                if tgt not in {v["q"] for v in views}:
                    continue
                srcs = [r[2:] for r in (e.get("refs") or []) if r.startswith("f:") and strip_tmpl(r[2:]) in owning]
                if srcs and not own_copy:
                    bad.append((e, tgt, srcs[0], f))
        ck.ob(rule_id, "%s/self-contained" % short, not bad, (bad[0][0].loc if bad else "%s:%s" % (c.get("file"), c.get("line"))), (bad[0][3] if bad else ""),
              "%d member(s), %d non-owning, none set to point into the object itself" % (len(c["fields"]), len(views)) if not bad else
              "%s is set to refer into %s of the same object (line %s) and %s is copied member-wise: the copy's %s views the original's storage"
              % (bad[0][1].rsplit("::", 1)[1], bad[0][2].rsplit("::", 1)[1], bad[0][0].get("l"), short, bad[0][1].rsplit("::", 1)[1]))


# ---------- a value cached inside an object follows the value it was computed from ----------

def cache_coherence_rule(ck, rule_id, class_name, what):
    """Members that const member functions write are caches (`mutable`).  The members such a function reads are what the cache was
    computed from; every non-const member function that writes one of those must also write a member of the cache group
    (invalidate / recompute) -- directly or through a member function it calls on this.  No const writer => nothing to decide."""
    prog = ck.prog
    ck.rule(rule_id, "E mod-set agreement (derived members follow their sources)",
            "%s: a member filled in by a const accessor (a lazily computed cache) is invalidated or recomputed by every member function "
            "that changes a member it was computed from -- otherwise the accessors go on answering with what an earlier value decoded to" % what, 1)
    cls = strip_tmpl(class_name)
    meths = [f for f in prog.funcs.values() if f.blocks and strip_tmpl(f.cls or "") == cls and not f.is_lambda]
    ck.require(meths, "%s: no member functions of %s analysed" % (rule_id, class_name))
    own = lambda q: strip_tmpl(q or "").startswith(cls + "::")

    def writes(fn_, depth=0, seen=None):
        seen = seen or set()
        if fn_.id in seen or depth > 3:
            return set()
        seen.add(fn_.id)
        w = set()
        for e in fn_.events(("assign", "call", "incdec")):
            if e["k"] == "assign" and own(e["lhs"].get("f")):
                w.add(strip_tmpl(e["lhs"]["f"]))
            elif e["k"] == "incdec" and own((e.get("operand") or {}).get("f")):
                w.add(strip_tmpl(e["operand"]["f"]))
            elif e["k"] == "call":
                rv = e.get("recv") or {}
                if own(rv.get("f")) and (e.get("op") == "=" or is_stl_mutation(e)):
                    w.add(strip_tmpl(rv["f"]))
                elif (rv.get("t") or "this") in ("this", "(*this)") or rv.get("t") is None:
                    for g_ in prog.resolve_call(e):
                        if g_.blocks and strip_tmpl(g_.cls or "") == cls:
                            w |= writes(g_, depth + 1, seen)
        return w

    def reads(fn_):
        r = set()
        for e in fn_.events():
            for x in (e.get("refs") or []):
                if x.startswith("f:") and own(x[2:]):
                    r.add(strip_tmpl(x[2:]))
        for b in fn_.blocks.values():
            for x in ((b.term or {}).get("refs") or []):
                if x.startswith("f:") and own(x[2:]):
                    r.add(strip_tmpl(x[2:]))
        return r
    is_const = lambda fn_: fn_.id.rstrip().endswith(" const") or (fn_.d.get("sig") or "").rstrip().endswith(" const")
    caches, sources = set(), set()
    nconst = 0
    for m in meths:
        if is_const(m):
            nconst += 1
            w = writes(m)
            if w:
                caches |= w
                sources |= reads(m)
    sources -= caches
    ck.ob(rule_id, "%s/const-accessors" % cls.rsplit("::", 1)[1], True, "", "", "%d const member function(s) looked at; cached members: %s"
          % (nconst, sorted(x.rsplit("::", 1)[1] for x in caches) or "none"), nontrivial=False)
    for m in meths:
        if is_const(m) or m.d.get("ctor"):
            continue
        w = writes(m)
        if caches and (w & sources):
            ok = bool(w & caches)
            ck.ob(rule_id, "%s/%s-keeps-cache-current" % (cls.rsplit("::", 1)[1], m.base.rsplit("::", 1)[1]), ok, m.loc, m,
                  "writes %s and the cache (%s)" % (sorted(x.rsplit("::", 1)[1] for x in w & sources), sorted(x.rsplit("::", 1)[1] for x in w & caches)) if ok else
                  "%s changes %s, from which the const accessors fill the cached %s, and leaves the cache as it is: they keep answering for the old value"
                  % (m.name, sorted(x.rsplit("::", 1)[1] for x in w & sources), sorted(x.rsplit("::", 1)[1] for x in caches)))
