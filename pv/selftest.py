"""Checker self-test (thorough tier): every stored one-instance-broken variant of /repo (the confirmed seeded changes under
/verif/seeded/<id>/ whose meta.json says the property's check must detect them) is applied to a scratch copy of the *current*
sources under a fresh mktemp -d outside /repo and /verif, the check is run against that copy and must report a violation
(exit 1) naming one of the expected rules; the scratch copy is removed afterwards.  A variant whose patch no longer applies to
the current sources is skipped and reported (it is not a failure: the code it targeted has moved).  The other direction is
tested too: every behaviour-preserving variant under /verif/selftest/refactors must leave the check silent (exit 0)."""
import glob
import json
import os
import shutil
import subprocess
import sys
import tempfile

from .facts import VERIF, REPO


def _scratch_copy():
    d = tempfile.mkdtemp(prefix="pvselftest.", dir="/tmp")
    for sub in ("include", "src", os.path.join("subprojects", "hinnant-date", "include")):
        src = os.path.join(REPO, sub)
        dst = os.path.join(d, sub)
        os.makedirs(os.path.dirname(dst), exist_ok=True)
        shutil.copytree(src, dst)
    return d


def run(prop, verbose=False):
    metas = sorted(glob.glob(os.path.join(VERIF, "seeded", "*", "meta.json")))
    results = []
    ok = True
    for mp in metas:
        with open(mp) as fh:
            meta = json.load(fh)
        exp = [r for r in (meta.get("detected_by", {}).get(prop) or []) if not r.startswith("ANALYSIS-BROKEN")]
        if not exp:
            continue
        sd = os.path.dirname(mp)
        d = _scratch_copy()
        try:
            p = subprocess.run(["patch", "-p1", "-s", "-f", "-d", d, "-i", os.path.join(sd, "patch.diff")],
                               stdout=subprocess.PIPE, stderr=subprocess.STDOUT, text=True)
            if p.returncode != 0:
                results.append("%s: skipped (patch no longer applies)" % os.path.basename(sd))
                continue
            env = dict(os.environ)
            env.pop("VERIF_TIER", None)
            c = subprocess.run([sys.executable, os.path.join(VERIF, "check"), prop, "--repo", d, "--tier", "quick", "--no-evidence"],
                               stdout=subprocess.PIPE, stderr=subprocess.STDOUT, text=True, env=env)
            rules_hit = sorted({ln.split()[1] for ln in c.stdout.splitlines() if ln.strip().startswith("rule ")})
            good = c.returncode == 1 and any(r in rules_hit for r in exp)
            results.append("%s: %s (exit %d, rules %s, expected one of %s)" % (os.path.basename(sd), "detected" if good else "MISSED",
                                                                               c.returncode, rules_hit, exp))
            if not good:
                ok = False
                if verbose:
                    print(c.stdout[-3000:])
        finally:
            shutil.rmtree(d, ignore_errors=True)
    # reverted 'fix:' commits (selftest/mutants/index.json, rebuilt by tool/mutant_index.py)
    idxp = os.path.join(VERIF, "selftest", "mutants", "index.json")
    if os.path.exists(idxp):
        with open(idxp) as fh:
            idx = json.load(fh)
        for name, det in sorted(idx.items()):
            exp = det.get(prop)
            if not exp or exp == ["BROKEN"]:
                continue
            d = _scratch_copy()
            try:
                p = subprocess.run(["patch", "-p1", "-s", "-f", "-d", d, "-i", os.path.join(VERIF, "selftest", "mutants", name)],
                                   stdout=subprocess.PIPE, stderr=subprocess.STDOUT, text=True)
                if p.returncode != 0:
                    results.append("%s: skipped (patch no longer applies)" % name[:40])
                    continue
                c = subprocess.run([sys.executable, os.path.join(VERIF, "check"), prop, "--repo", d, "--tier", "quick", "--no-evidence"],
                                   stdout=subprocess.PIPE, stderr=subprocess.STDOUT, text=True)
                rules_hit = sorted({ln.split()[1] for ln in c.stdout.splitlines() if ln.strip().startswith("rule ")})
                good = c.returncode == 1 and any(r in rules_hit for r in exp)
                results.append("revert-%s: %s (rules %s)" % (name[:7], "detected" if good else "MISSED", rules_hit))
                if not good:
                    ok = False
            finally:
                shutil.rmtree(d, ignore_errors=True)
    # the other direction: behaviour-preserving variants (selftest/refactors/*.patch, see DESIGN.md §8) must leave the check silent
    silent, limits, loud, stale = 0, [], [], 0
    patches = sorted(glob.glob(os.path.join(VERIF, "selftest", "refactors", "*.patch")))

    def one(pth):
        d = _scratch_copy()
        try:
            p = subprocess.run(["patch", "-p1", "-s", "-f", "--no-backup-if-mismatch", "-d", d, "-i", pth], stdout=subprocess.PIPE, stderr=subprocess.STDOUT, text=True)
            if p.returncode != 0:
                return ("stale", pth, "")
            c = subprocess.run([sys.executable, os.path.join(VERIF, "check"), prop, "--repo", d, "--tier", "quick", "--no-evidence"],
                               stdout=subprocess.PIPE, stderr=subprocess.STDOUT, text=True)
            if c.returncode == 0:
                return ("silent", pth, "")
            tol = ""
            with open(pth) as fh:
                for ln in fh:
                    if ln.startswith("# tolerate-exit-2:"):
                        tol = ln[len("# tolerate-exit-2:"):].split("--")[0]
                    if not ln.startswith("#"):
                        break
            if c.returncode == 2 and prop in [x.strip() for x in tol.replace(",", " ").split()]:
                return ("limit", pth, "")
            first = [ln for ln in c.stdout.splitlines() if ln.startswith("  at") or ln.startswith("ANALYSIS-BROKEN")][:1]
            return ("loud", pth, "exit %d %s" % (c.returncode, (first[0][:160] if first else "")))
        finally:
            shutil.rmtree(d, ignore_errors=True)
    if patches:
        from concurrent.futures import ThreadPoolExecutor
        with ThreadPoolExecutor(max_workers=4) as ex:
            for kind, pth, info in ex.map(one, patches):
                nm = os.path.basename(pth)[:-6]
                if kind == "silent":
                    silent += 1
                elif kind == "limit":
                    limits.append(nm)
                elif kind == "stale":
                    stale += 1
                else:
                    loud.append("%s: %s" % (nm, info))
        results.append("behaviour-preserving variants: %d silent, %d documented limit(s)%s, %d stale%s" % (
            silent, len(limits), (" " + ",".join(limits)) if limits else "", stale, ("; FALSE ALARM on " + " | ".join(loud)) if loud else ""))
        if loud:
            ok = False
    if not results:
        return {"ok": True, "summary": "no stored variants for %s" % prop}
    return {"ok": ok, "summary": "; ".join(results)}
