"""CFG utilities over the facts: dominators, reachability, a small path-automaton engine."""
from .facts import AnalysisBroken, strip_tmpl


def region_entries(func):
    """Entry block plus catch-handler blocks (handlers are separate entry regions: no EH edges)."""
    ents = [func.entry]
    for b in func.blocks.values():
        if b.label and b.label.get("k") == "catch":
            ents.append(b.id)
    return ents


_REACH_CACHE = {}


def reachable_blocks(func, start):
    key = (id(func), start)
    r = _REACH_CACHE.get(key)
    if r is None:
        r = _REACH_CACHE[key] = frozenset(_reachable_blocks(func, start))
    return r


def _reachable_blocks(func, start):
    seen = set()
    work = [start]
    while work:
        b = work.pop()
        if b in seen or b not in func.blocks:
            continue
        seen.add(b)
        for s in func.blocks[b].succs:
            if s is not None:
                work.append(s)
    return seen


def dominators(func, entry=None):
    """Block-level dominator sets for blocks reachable from entry."""
    entry = func.entry if entry is None else entry
    nodes = reachable_blocks(func, entry)
    dom = {n: set(nodes) for n in nodes}
    dom[entry] = {entry}
    changed = True
    order = sorted(nodes, reverse=True)
    while changed:
        changed = False
        for n in order:
            if n == entry:
                continue
            preds = [p for p in func.blocks[n].preds if p in nodes]
            if not preds:
                new = {n}
            else:
                new = set.intersection(*(dom[p] for p in preds)) | {n}
            if new != dom[n]:
                dom[n] = new
                changed = True
    return dom


def ev_dominates(dom, a, b):
    """event a dominates event b (same function)."""
    if a.block == b.block:
        return a.idx < b.idx
    return b.block in dom and a.block in dom[b.block]


def block_dominates(dom, ablock, b):
    return b.block in dom and ablock in dom[b.block] and ablock != b.block


class Exit(object):
    __slots__ = ("state", "kind", "event", "block")

    def __init__(self, state, kind, event, block):
        self.state = state
        self.kind = kind      # 'return' | 'throw' | 'fallthrough'
        self.event = event
        self.block = block

    def __repr__(self):
        return "<Exit %s %s %s>" % (self.kind, self.state, self.event.loc if self.event is not None else "")


def flag_vars(func):
    """local bool variables whose value the exploration below follows exactly: written only by their declaration and by plain
    assignments, never captured by a lambda, never handed to a call by address or non-const reference"""
    memo = func.__dict__.get("_flag_vars")
    if memo is not None:
        return memo
    cands = {d["var"] for d in func.events("decl") if d.get("var") and (d.get("ctype") or d.get("type") or "").replace("const", "").strip() == "bool"
             and not d.get("synthetic")}
    if cands:
        ndecl = {}
        for e in func.events():
            k = e["k"]
            if k == "decl" and e.get("var") in cands:
                ndecl.setdefault(e["var"], set()).add(e.get("vd") or "%s:%s" % (e.get("l"), e.get("c")))
            elif k == "assign":
                lhs = e.get("lhs") or {}
                if (lhs.get("v") in cands and (lhs.get("t") or "").strip() != lhs["v"].split("@")[0]) or e.get("op") != "=" and lhs.get("v") in cands:
                    cands.discard(lhs.get("v"))
            elif k == "incdec":
                cands.discard((e.get("operand") or {}).get("v"))
            elif k in ("lambda", "addrof"):
                for r_ in e.get("refs") or []:
                    if r_.startswith("v:"):
                        cands.discard(r_[2:])
            elif k in ("call", "construct"):
                cps = e.get("cparams") or []
                for i_, a_ in enumerate(e.get("args") or []):
                    v_ = a_.get("v") or a_.get("root")
                    if v_ in cands:
                        pt = cps[i_].strip() if i_ < len(cps) else "&"
                        if "&" in (a_.get("t") or "") or "*" in pt or ("&" in pt and not pt.startswith("const ")):
                            cands.discard(v_)
                if a_lam(e):
                    for r_ in e.get("refs") or []:
                        if r_.startswith("v:"):
                            cands.discard(r_[2:])
        # one source variable per name (the same declaration may occur several times in a flattened function: each occurrence
        # starts it afresh); two different variables of one name (shadowing) are not followed
        cands = {v for v in cands if len(ndecl.get(v, ())) == 1}
    func.__dict__["_flag_vars"] = cands
    return cands


def a_lam(e):
    return any(a_.get("lam") for a_ in (e.get("args") or []))


def run_automaton(func, init, step, edge=None, start=None, start_idx=0, limit=200000):
    """see _run_automaton.  On top of the caller's state the exploration follows the value of the function's local bool flags
    (flag_vars): an edge of a branch on such a flag is taken only when the flag's value on that path allows it (`bool more = true;
    while (more) { ... more = false; }` is left only after the assignment)."""
    flags = flag_vars(func)
    # a result code carried out of an expanded helper (`return {Status::X, n};` ... `switch (status)`): the enumerators the helper's
    # return on this path mentions decide which case labels of a following switch over the same enumeration can be entered
    has_iret_enum = any(e["k"] == "iret" and any(r.startswith("e:") for r in (e.get("refs") or [])) for b in func.blocks.values() for e in b.elems) and \
        any((b.term or {}).get("k") == "switch" for b in func.blocks.values())
    if not flags and not has_iret_enum:
        return _run_automaton(func, init, step, edge, start, start_idx, limit)
    import re as _re

    def step2(st, ev):
        us, fl = st
        k = ev["k"]
        if k == "decl" and ev.get("var") in flags:
            c = ev.get("const")
            fl = tuple(sorted([(v, x) for v, x in fl if v != ev["var"]] + ([(ev["var"], c)] if isinstance(c, bool) else [])))
        elif k == "assign" and (ev.get("lhs") or {}).get("v") in flags:
            v_ = ev["lhs"]["v"]
            c = ev.get("const")
            fl = tuple(sorted([(v, x) for v, x in fl if v != v_] + ([(v_, c)] if isinstance(c, bool) else [])))
        elif k == "iret" and has_iret_enum:
            ens = [r_[2:] for r_ in (ev.get("refs") or []) if r_.startswith("e:")]
            if ens:
                m_ = _re.search(r"(\w+)\s*\?\s*([\w:]+)\s*:\s*([\w:]+)", ev.get("t") or "")
                if m_ and len(ens) >= 2:
                    known = {v.split("@")[0]: x for v, x in fl if not v.startswith("#")}
                    if m_.group(1) in known:
                        drop = m_.group(3) if known[m_.group(1)] else m_.group(2)
                        ens = [e_ for e_ in ens if not e_.endswith("::" + drop.rsplit("::", 1)[-1])] or ens
                fl = tuple(sorted([(v, x) for v, x in fl if v != "#enum"] + [("#enum", tuple(sorted(ens)))]))
        r = step(us, ev)
        if r is None:
            return None
        if isinstance(r, list):
            return [(x, fl) for x in r]
        return (r, fl)

    def edge2(st, blk, k, sid):
        us, fl = st
        t = blk.term or {}
        if t.get("k") in ("if", "while", "for", "do", "land", "lor", "cond") and not t.get("cmp") and len(blk.succs) == 2:
            v_ = (t.get("core") or {}).get("v")
            if v_ in flags and ((t.get("core") or {}).get("t") or "").strip() == v_.split("@")[0]:
                val = dict(fl).get(v_)
                if val is not None and k != (0 if val != bool(t.get("neg")) else 1):
                    return None
                if val is None:
                    # not known yet (initialised from an expression): taking this edge tells what it is, and it stays that until it
                    # is written again -- a later test of the same local goes the same way
                    fl = tuple(sorted(list(fl) + [(v_, (k == 0) != bool(t.get("neg")))]))
        if t.get("k") == "switch" and has_iret_enum:
            ens = dict(fl).get("#enum")
            lab = (func.blocks[sid].label or {}) if sid in func.blocks else {}
            lc = lab.get("const")
            if ens and lab.get("k") == "case" and isinstance(lc, str) and lc.startswith("e:"):
                same_enum = [e_ for e_ in ens if e_.rsplit("::", 1)[0] == lc[2:].rsplit("::", 1)[0]]
                if same_enum and lc[2:] not in same_enum:
                    return None
        if edge is not None:
            us = edge(us, blk, k, sid)
            if us is None:
                return None
        return (us, fl)
    exits, seen = _run_automaton(func, (init, ()), step2, edge2, start, start_idx, limit)
    for x in exits:
        x.state = x.state[0]
    return exits, {(b_, i_, s_[0]) for b_, i_, s_ in seen}


def _run_automaton(func, init, step, edge=None, start=None, start_idx=0, limit=200000):
    """Forward exploration of (program point, state) pairs.

    step(state, ev) -> new state (any hashable), or a *list* of states, or None to stop exploring this path.
    edge(state, block, k, succ_id) -> state or None (edge pruned).  k is the successor index (0 = condition true).
    Returns (exits, seen) where exits is a list of Exit records reached (function exit), seen is the set
    of (block, idx, state)."""
    start = func.entry if start is None else start
    seen = set()
    exits = []
    work = [(start, start_idx, init, None)]
    n = 0
    while work:
        bid, idx, st, last = work.pop()
        if bid not in func.blocks:
            continue
        blk = func.blocks[bid]
        stopped = False
        cur = [st]
        i = idx
        # walk elements
        while i < len(blk.elems):
            ev = blk.elems[i]
            nxt = []
            for s in cur:
                k2 = (bid, i, s)
                if k2 in seen:
                    continue
                seen.add(k2)
                n += 1
                if n > limit:
                    raise AnalysisBroken("automaton state explosion in %s" % func.name)
                r = step(s, ev)
                if r is None:
                    continue
                if isinstance(r, list):
                    nxt.extend(r)
                else:
                    nxt.append(r)
                last = ev
            cur = list(dict.fromkeys(nxt))
            if not cur:
                stopped = True
                break
            i += 1
        if stopped:
            continue
        for s in cur:
            kx = (bid, len(blk.elems), s)
            if kx in seen:
                continue
            seen.add(kx)
            if bid == func.exit:
                continue
            succs = blk.succs
            # a comparison of two constants (a parameter of an expanded helper that was handed a literal, compared with another
            # literal: `State::Rejected == State::Fulfilled`) has one feasible successor only
            tk = blk.term or {}
            dead = None
            if tk.get("cmp") in ("==", "!=") and len(succs) == 2 and tk.get("k") in ("if", "while", "for", "do", "cond", "land", "lor"):
                lc, rc = (tk.get("lhs") or {}).get("const"), tk.get("rconst")
                if lc is not None and rc is not None and type(lc) == type(rc):
                    truth = ((lc == rc) == (tk["cmp"] == "==")) != bool(tk.get("neg"))
                    dead = 1 if truth else 0
            for k, sid in enumerate(succs):
                if sid is None or k == dead:
                    continue
                s2 = s
                if edge is not None:
                    s2 = edge(s, blk, k, sid)
                    if s2 is None:
                        continue
                if sid == func.exit:
                    kind = "fallthrough"
                    lev = None
                    for e in reversed(blk.elems):
                        if e["k"] == "return":
                            kind, lev = "return", e
                            break
                        if e["k"] == "throw" or (e["k"] == "call" and e.get("noret")):
                            # a call that never returns (abort, a failed assert, a [[noreturn]] throwing helper) ends the path like a throw
                            kind, lev = "throw", e
                            break
                    exits.append(Exit(s2, kind, lev, bid))
                else:
                    work.append((sid, 0, s2, last))
    return exits, seen


def events_after(func, ev, stop=None, edge_ok=None):
    """All events reachable strictly after `ev` on some path (may-reach).  stop(e) -> True stops exploring past e
    (e itself is included).  edge_ok(block, k, succ) may prune edges."""
    if flag_vars(func):
        return _events_flagged(func, ev.block, ev.idx + 1, stop, edge_ok)
    out = []
    seen_blocks = set()
    blk = func.blocks[ev.block]
    work = []

    def scan(b, start):
        for e in b.elems[start:]:
            out.append(e)
            if stop is not None and stop(e):
                return False
        return True

    if scan(blk, ev.idx + 1):
        for k, s in enumerate(blk.succs):
            if s is not None and (edge_ok is None or edge_ok(blk, k, s)):
                work.append(s)
    while work:
        b = work.pop()
        if b in seen_blocks or b not in func.blocks:
            continue
        seen_blocks.add(b)
        bb = func.blocks[b]
        if scan(bb, 0):
            for k, s in enumerate(bb.succs):
                if s is not None and (edge_ok is None or edge_ok(bb, k, s)):
                    work.append(s)
    return out


def events_from_block(func, bid, stop=None, edge_ok=None):
    """All events reachable from the start of block bid."""
    if flag_vars(func):
        return _events_flagged(func, bid, 0, stop, edge_ok)
    out = []
    seen = set()
    work = [bid]
    while work:
        b = work.pop()
        if b in seen or b not in func.blocks:
            continue
        seen.add(b)
        bb = func.blocks[b]
        cont = True
        for e in bb.elems:
            out.append(e)
            if stop is not None and stop(e):
                cont = False
                break
        if cont:
            for k, s in enumerate(bb.succs):
                if s is not None and (edge_ok is None or edge_ok(bb, k, s)):
                    work.append(s)
    return out


def _events_flagged(func, bid, idx, stop, edge_ok):
    """events_after / events_from_block for a function with local bool flags: same answer, minus what only a path that contradicts a
    flag's value could reach (the flags start unknown at the starting point)"""
    out, got = [], set()

    def step(st, ev):
        if id(ev) not in got:
            got.add(id(ev))
            out.append(ev)
        if stop is not None and stop(ev):
            return None
        return st

    def edge(st, blk, k, sid):
        if edge_ok is not None and not edge_ok(blk, k, sid):
            return None
        return st
    run_automaton(func, 0, step, edge=edge, start=bid, start_idx=idx)
    return out


def branch_blocks(func, pred):
    """Blocks whose terminator satisfies pred(term, block)."""
    return [b for b in func.blocks.values() if b.term and pred(b.term, b)]


def exits_without(func, must, start_block=None, start_idx=0, avoid_edge=None):
    """Paths from start that reach the function exit without passing an event satisfying must(ev).
    Returns list of Exit (empty list == every path passes through `must`)."""
    def step(st, ev):
        if must(ev):
            return None
        return st
    exits, _ = run_automaton(func, 0, step, edge=avoid_edge, start=start_block, start_idx=start_idx)
    return exits


def always_throws(func):
    """True when no path from entry reaches the exit through a return/fallthrough (every path ends in throw)."""
    exits, _ = run_automaton(func, 0, lambda s, e: s)
    return bool(exits) and all(x.kind == "throw" for x in exits)


def term_is(term, kind=None, mentions=None):
    if term is None:
        return False
    if kind and term.get("k") != kind:
        return False
    if mentions:
        refs = set(term.get("refs") or [])
        cond = term.get("cond") or ""
        for m in mentions:
            if m not in refs and m not in cond:
                return False
    return True


def edge_dominates(func, bid, k, ev, entry=None):
    """True when event ev can only be reached (from entry) through successor edge k of block bid."""
    entry = func.entry if entry is None else entry
    target = ev.block
    seen = set()
    work = [entry]
    while work:
        b = work.pop()
        if b in seen or b not in func.blocks:
            continue
        seen.add(b)
        if b == target:
            return False
        for i, s in enumerate(func.blocks[b].succs):
            if s is None or (b == bid and i == k):
                continue
            work.append(s)
    # reachable at all through the edge?
    succ = func.blocks[bid].succs[k]
    return succ is not None and target in reachable_blocks(func, succ)


def natural_loops(func, entry=None):
    """List of (header, body-set) for every back edge t->h with h dominating t."""
    dom = dominators(func, entry)
    loops = []
    for b in func.blocks.values():
        if b.id not in dom:
            continue
        for s in b.succs:
            if s is not None and s in dom.get(b.id, ()):
                body = {s, b.id}
                work = [b.id]
                while work:
                    x = work.pop()
                    if x == s:
                        continue
                    for p in func.blocks[x].preds:
                        if p not in body and p in dom:
                            body.add(p)
                            work.append(p)
                loops.append((s, body))
    return loops


def innermost_loop(func, block_id, loops=None):
    loops = natural_loops(func) if loops is None else loops
    cands = [(h, body) for h, body in loops if block_id in body]
    if not cands:
        return None
    return min(cands, key=lambda x: len(x[1]))


def feasible_events(func):
    """the events some path from the entry can reach once branches on comparisons of constants are decided (and local bool flags and
    helper result codes followed): `id()`s of the event objects"""
    got = set()

    def step(st, ev):
        got.add(id(ev))
        return st
    run_automaton(func, 0, step)
    return got
