#!/usr/bin/env python3
"""mutation_sweep.py [--ops del,neg,rel] [--files f1,f2,...] [--jobs N] [--out FILE] [--shuffle SEED] [--limit N] — adequacy of the rule set against mechanical
one-line mutants of /repo (a coverage measurement for the *rules*, not a check: nothing here decides a property).

For every candidate line of the library sources a mutant is made in a scratch copy of the sources the checks read (never in /repo):
  del  a one-line expression statement (call, assignment, ++/--) is removed
  neg  the condition of a one-line `if (...)` / `while (...)` is negated
  rel  the first relational operator of a one-line condition is weakened / strengthened (< <-> <=, > <-> >=, == <-> !=)
and every claimed check is run on it.  Verdict per mutant: `caught` (some check exits 1, with the rules), `broken` (no check exits 1
and some check exits 2 -- usually the mutant does not compile), `silent` (all checks exit 0).  Silent mutants are the interesting
ones: each is either equivalent, or killed by the repository's tests (tool/mutation_triage.sh), or a gap in the rules.
Results are appended to FILE as JSON lines so that an interrupted sweep can be resumed (finished mutants are skipped)."""
import json
import os
import re
import shutil
import subprocess
import sys
import tempfile
from concurrent.futures import ProcessPoolExecutor

HERE = os.path.dirname(os.path.dirname(os.path.abspath(__file__)))
REPO = "/repo"
DEFAULT_FILES = [
    "src/common/http.cc", "src/common/transport.cc", "src/common/stream.cc", "src/common/cookie.cc", "src/common/mime.cc",
    "src/common/net.cc", "src/common/base64.cc", "src/common/http_header.cc", "src/common/http_headers.cc", "src/common/os.cc",
    "src/common/reactor.cc", "src/common/tcp.cc", "src/common/peer.cc", "src/common/timer_pool.cc", "src/common/http_defs.cc",
    "src/server/endpoint.cc", "src/server/listener.cc", "src/server/router.cc", "src/client/client.cc",
    "include/pistache/async.h", "include/pistache/mailbox.h", "include/pistache/stream.h", "include/pistache/http.h",
    "include/pistache/transport.h",
]
STMT = re.compile(r"^\s*(?!return\b|break\b|continue\b|throw\b|using\b|typedef\b|case\b|default\b|goto\b|else\b|if\b|for\b|while\b|do\b|switch\b|#|//|\*|/\*)"
                  r"[A-Za-z_:\*\(\+\-~][^;{}]*;\s*(//.*)?$")
DECLLIKE = re.compile(r"^\s*(const\s+|static\s+|constexpr\s+|auto\b|unsigned\b|int\b|bool\b|char\b|size_t\b|ssize_t\b|std::[\w:<>, ]+\s+\w+\s*[=;({]|[\w:<>,\*& ]+\s+[\*&]?\w+\s*(=|;|\{|\())")
COND = re.compile(r"^(\s*(?:else\s+)?(?:if|while)\s*\()(.*)(\)\s*(?:\{)?\s*)$")


def candidates(path, ops):
    out = []
    with open(os.path.join(REPO, path)) as fh:
        lines = fh.read().split("\n")
    depth_ok = False
    for i, ln in enumerate(lines):
        s = ln.strip()
        if not s or s.startswith("//") or s.startswith("#"):
            continue
        if "del" in ops and STMT.match(ln) and not DECLLIKE.match(ln) and ln.startswith("    "):
            # not a declaration: an expression statement starts with an identifier followed by ( . -> = [ ++ -- or is a ++x / *p = ...
            if re.match(r"^\s*(\+\+|--|\*)?[\w:\.\->\[\]\(\)\*<>, \"']+?(\(|=|\+\+|--|\+=|-=|\|=|&=|<<)", ln) and not re.match(r"^\s*[\w:<>,\*& ]+\s+[\*&]?\w+\s*(;|=[^=])", ln):
                out.append((path, i + 1, "del", ln))
        m = COND.match(ln)
        if m and m.group(2).count("(") == m.group(2).count(")"):
            if "neg" in ops:
                out.append((path, i + 1, "neg", ln))
            if "rel" in ops and re.search(r"(<=|>=|==|!=|(?<![<>\-])<(?![<=])|(?<![<>\-=])>(?![>=]))", m.group(2)):
                out.append((path, i + 1, "rel", ln))
    return out


def mutate_line(ln, op):
    if op == "del":
        return re.sub(r"^(\s*)(.*)$", r"\1;", ln)
    m = COND.match(ln)
    if op == "neg":
        return "%s!(%s)%s" % (m.group(1), m.group(2), m.group(3))
    if op == "rel":
        def sw(mm):
            return {"<=": "<", ">=": ">", "==": "!=", "!=": "==", "<": "<=", ">": ">="}[mm.group(0)]
        c = re.sub(r"(<=|>=|==|!=|(?<![<>\-])<(?![<=])|(?<![<>\-=])>(?![>=]))", sw, m.group(2), count=1)
        return m.group(1) + c + m.group(3)
    raise ValueError(op)


def run_one(job):
    path, line, op, text, props = job
    d = tempfile.mkdtemp(prefix="pvmut.", dir="/tmp")
    try:
        for sub in ("include", "src", os.path.join("subprojects", "hinnant-date", "include")):
            dst = os.path.join(d, sub)
            os.makedirs(os.path.dirname(dst), exist_ok=True)
            shutil.copytree(os.path.join(REPO, sub), dst)
        fp = os.path.join(d, path)
        with open(fp) as fh:
            lines = fh.read().split("\n")
        if lines[line - 1] != text:
            return {"file": path, "line": line, "op": op, "verdict": "stale"}
        lines[line - 1] = mutate_line(text, op)
        with open(fp, "w") as fh:
            fh.write("\n".join(lines))
        caught, broken = {}, []
        for p in props:
            c = subprocess.run([sys.executable, os.path.join(HERE, "check"), p, "--repo", d, "--tier", "quick", "--no-evidence"],
                               stdout=subprocess.PIPE, stderr=subprocess.STDOUT, text=True)
            if c.returncode == 1:
                caught[p] = sorted({l.split()[1] for l in c.stdout.splitlines() if l.strip().startswith("rule ")})
            elif c.returncode == 2:
                first = (c.stdout.strip().splitlines() or [""])[0]
                broken.append("%s: %s" % (p, first[:160]))
                if "does not parse" in first or "compile errors" in first:
                    break       # the mutant does not compile: no point in asking the others
        verdict = "caught" if caught else ("broken" if broken else "silent")
        return {"file": path, "line": line, "op": op, "text": text.strip(), "mutant": mutate_line(text, op).strip(), "verdict": verdict,
                "caught": caught, "broken": broken[:2]}
    finally:
        shutil.rmtree(d, ignore_errors=True)


def main():
    a = sys.argv[1:]
    def opt(name, dflt):
        return a[a.index(name) + 1] if name in a else dflt
    ops = opt("--ops", "del").split(",")
    files = opt("--files", ",".join(DEFAULT_FILES)).split(",")
    jobs = int(opt("--jobs", "12"))
    out = opt("--out", os.path.join(HERE, "out", "mutation_sweep.jsonl"))
    limit = int(opt("--limit", "0"))
    with open(os.path.join(HERE, "MANIFEST.json")) as fh:
        props = [c["property_id"] for c in json.load(fh)["checks"]]
    done = set()
    if os.path.exists(out):
        for l in open(out):
            try:
                r = json.loads(l)
                done.add((r["file"], r["line"], r["op"]))
            except ValueError:
                pass
    cands = []
    for f in files:
        if os.path.exists(os.path.join(REPO, f)):
            cands += candidates(f, ops)
    cands = [c for c in cands if (c[0], c[1], c[2]) not in done]
    shuffle = opt("--shuffle", "")
    if shuffle:
        import random
        random.Random(int(shuffle)).shuffle(cands)      # an interrupted sweep is then an unbiased sample
    if limit:
        cands = cands[:limit]
    print("%d mutants to run (%d already done), %d jobs" % (len(cands), len(done), jobs), flush=True)
    os.makedirs(os.path.dirname(out), exist_ok=True)
    n = {"caught": 0, "broken": 0, "silent": 0, "stale": 0}
    with ProcessPoolExecutor(max_workers=jobs) as ex, open(out, "a") as fh:
        for r in ex.map(run_one, [c + (props,) for c in cands], chunksize=1):
            n[r["verdict"]] += 1
            fh.write(json.dumps(r) + "\n")
            fh.flush()
            if sum(n.values()) % 25 == 0:
                print(n, flush=True)
    print("done", n)


if __name__ == "__main__":
    main()
