#!/usr/bin/env python3
"""seed_eval.py [--verify] [seed ...] — for every confirmed seeded change under /verif/seeded/<id>/ :
  * check that patch.diff still applies to /repo HEAD,
  * apply it to a scratch copy of the sources (or, with --in-repo, to /repo itself: git apply ... git checkout -- .), run the quick check
    of its property (and with --all-props of every claimed property) on it and record which rules report a violation,
  * with --verify also (re)run tool/verify_seed.sh (scratch worktree under /tmp: build, ctest, demo with/without),
  * rewrite the machine-written part of <id>/meta.json (hand-written fields are kept).
Never commits anything to /repo."""
import json
import os
import re
import subprocess
import sys

HERE = os.path.dirname(os.path.dirname(os.path.abspath(__file__)))
REPO = "/repo"


def sh(cmd, **kw):
    return subprocess.run(cmd, shell=isinstance(cmd, str), stdout=subprocess.PIPE, stderr=subprocess.STDOUT, text=True, **kw)


def main():
    args = [a for a in sys.argv[1:] if not a.startswith("--")]
    verify = "--verify" in sys.argv
    allprops = "--all-props" in sys.argv
    inrepo = "--in-repo" in sys.argv
    seeds = sorted(d for d in os.listdir(os.path.join(HERE, "seeded")) if os.path.isdir(os.path.join(HERE, "seeded", d)))
    if args:
        seeds = [s for s in seeds if s in args]
    assert sh("git -C %s status --porcelain --untracked-files=no" % REPO).stdout.strip() == "", "/repo has uncommitted changes"
    head = sh("git -C %s rev-parse --short HEAD" % REPO).stdout.strip()
    with open(os.path.join(HERE, "MANIFEST.json")) as fh:
        claimed = [c["property_id"] for c in json.load(fh)["checks"]]
    for s in seeds:
        sd = os.path.join(HERE, "seeded", s)
        mp = os.path.join(sd, "meta.json")
        meta = {}
        if os.path.exists(mp):
            with open(mp) as fh:
                meta = json.load(fh)
        prop = meta.get("property") or s.split("_")[0]
        meta["property"] = prop
        patch = os.path.join(sd, "patch.diff")
        chk = sh("git -C %s apply --check %s" % (REPO, patch))
        meta["applies_to_repo_head"] = {"head": head, "ok": chk.returncode == 0}
        det = {}
        if chk.returncode == 0:
            # default: the change is applied to a scratch copy of the sources the checks read (include/, src/, the date headers) and the
            # checks are pointed at it with --repo, so /repo's working tree is never touched and several evaluations may run at once;
            # --in-repo applies it to /repo itself (git apply ... git checkout -- .) as the checks would meet it in practice
            scratch = None
            try:
                if inrepo:
                    sh("git -C %s apply %s" % (REPO, patch))
                    where = ""
                else:
                    scratch = sh("mktemp -d /tmp/pvseedeval.XXXXXX").stdout.strip()
                    sh("mkdir -p %s/subprojects/hinnant-date && cp -r %s/include %s/src %s/ && cp -r %s/subprojects/hinnant-date/include %s/subprojects/hinnant-date/"
                       % (scratch, REPO, REPO, scratch, REPO, scratch))
                    ap = sh("cd %s && patch -p1 -s --no-backup-if-mismatch < %s" % (scratch, patch))
                    assert ap.returncode == 0, "patch does not apply to the scratch copy: " + ap.stdout
                    where = " --repo " + scratch
                for p in ([prop] + ([c for c in claimed if c != prop] if allprops else [])):
                    r = sh("%s/check %s --tier quick --no-evidence%s" % (HERE, p, where))
                    rules = sorted({ln.split()[1] for ln in r.stdout.splitlines() if ln.strip().startswith("rule ")})
                    if r.returncode == 1 and rules:
                        det[p] = rules
                    elif r.returncode == 2:
                        det[p] = ["ANALYSIS-BROKEN: " + r.stdout.strip().splitlines()[0][:200]]
            finally:
                if inrepo:
                    sh("git -C %s checkout -- ." % REPO)
                elif scratch and scratch.startswith("/tmp/pvseedeval."):
                    sh("rm -rf %s" % scratch)
        if det or chk.returncode == 0:
            meta["detected_by"] = det
        if verify and chk.returncode == 0:
            v = sh("%s/tool/verify_seed.sh %s" % (HERE, sd))
            meta["verify_summary"] = v.stdout.strip().splitlines()[-1] if v.stdout.strip() else ""
        vl = os.path.join(sd, "verify.log")
        if os.path.exists(vl):
            with open(vl) as fh:
                txt = fh.read()
            m = re.search(r"SUMMARY base_demo=(\d+) seeded_demo=(\d+) ctest=\[(.*)\]", txt)
            hd = re.search(r"== seed .* at repo (\w+)", txt)
            if m:
                meta["confirmed"] = {
                    "at_repo_commit": hd.group(1) if hd else "?",
                    "demo_exit_unchanged_tree": int(m.group(1)), "demo_exit_with_change": int(m.group(2)),
                    "ctest_with_change": "24/25 pass, only net_test fails (as at baseline, offline)" if "96% tests passed" in m.group(3) and "net_test" in m.group(3) and m.group(3).count("Failed") <= 3 else m.group(3)[:300],
                    "what_i_ran": "tool/verify_seed.sh: scratch worktree /tmp/seedverify of /repo HEAD; ninja; run_demo.sh on the unchanged tree; git apply patch.diff; ninja; "
                                  "ctest -j8; run_demo.sh again; git checkout -- .",
                    "valid": int(m.group(1)) == 0 and int(m.group(2)) != 0 and "96% tests passed" in m.group(3),
                }
        with open(mp, "w") as fh:
            json.dump(meta, fh, indent=1, sort_keys=True)
            fh.write("\n")
        print("%-8s applies=%s detected_by=%s confirmed=%s" % (s, chk.returncode == 0, det, (meta.get("confirmed") or {}).get("valid")))


if __name__ == "__main__":
    main()
