// pvmutate: behaviour-preserving source rewrites used to test the rules for spelling-dependence.
//   pvmutate --invert-if <file.cc> -- <flags>     every `if (C) A else B` (both arms present, no condition variable / init / constexpr,
//                                                 not already marked) in files under the given roots becomes `if (/*inv*/!(C)) { B } else { A }`
// Only if-statements that contain no other invertible if-else are rewritten in one pass (edits never overlap); run it repeatedly
// until it reports 0 edits.  Edits are printed as JSON lines {file, cond:[b,e], then:[b,e], else:[b,e]} (byte offsets) and applied by
// tool/apply_invert.py, so that a header seen from several translation units is rewritten once.
#include "clang/AST/ASTConsumer.h"
#include "clang/AST/RecursiveASTVisitor.h"
#include "clang/Frontend/CompilerInstance.h"
#include "clang/Frontend/FrontendAction.h"
#include "clang/Lex/Lexer.h"
#include "clang/Tooling/CommonOptionsParser.h"
#include "clang/Tooling/Tooling.h"
#include "llvm/Support/CommandLine.h"
#include <set>
#include <string>

using namespace clang;
using namespace clang::tooling;

static llvm::cl::OptionCategory Cat("pvmutate");
static llvm::cl::list<std::string> Roots("root", llvm::cl::desc("only files under this directory"), llvm::cl::cat(Cat));

namespace
{
    static bool isMarked(const IfStmt* S, const SourceManager& SM)
    {
        SourceLocation B = S->getCond()->getBeginLoc();
        if (B.isInvalid() || B.isMacroID())
            return true;    // not rewritable anyway
        unsigned cb = SM.getFileOffset(B);
        StringRef buf = SM.getBufferData(SM.getFileID(B));
        // the marker sits right in front of the condition or is its first token
        return buf.substr(cb >= 9 ? cb - 9 : 0, 18).contains("/*inv*/");
    }

    struct HasInvertible : RecursiveASTVisitor<HasInvertible>
    {
        const Stmt* self;
        const SourceManager* SM;
        bool found = false;
        bool VisitIfStmt(IfStmt* S)
        {
            if (S != self && S->getElse() && !S->isConstexpr() && !S->getInit() && !S->getConditionVariable() && !isMarked(S, *SM))
                found = true;
            return true;
        }
        bool TraverseLambdaExpr(LambdaExpr* L) { return RecursiveASTVisitor::TraverseLambdaExpr(L); }
    };

    class V : public RecursiveASTVisitor<V>
    {
    public:
        explicit V(ASTContext& C)
            : Ctx(C)
            , SM(C.getSourceManager())
        { }
        bool shouldVisitTemplateInstantiations() const { return false; }

        bool inRoots(SourceLocation L)
        {
            if (L.isInvalid() || L.isMacroID())
                return false;
            auto F = SM.getFilename(SM.getSpellingLoc(L)).str();
            for (auto& R : Roots)
                if (F.rfind(R, 0) == 0)
                    return true;
            return false;
        }
        bool range(const Stmt* S, unsigned& b, unsigned& e)
        {
            SourceLocation B = S->getBeginLoc(), E = S->getEndLoc();
            if (B.isMacroID() || E.isMacroID())
                return false;
            E = Lexer::getLocForEndOfToken(E, 0, SM, Ctx.getLangOpts());
            if (E.isInvalid() || SM.getFileID(B) != SM.getFileID(E))
                return false;
            b = SM.getFileOffset(B);
            e = SM.getFileOffset(E);
            // a statement that is an expression or a return ends with ';' which is not part of its range
            return e > b;
        }
        bool VisitIfStmt(IfStmt* S)
        {
            if (!S->getElse() || S->isConstexpr() || S->getInit() || S->getConditionVariable() || !inRoots(S->getIfLoc()))
                return true;
            HasInvertible H;
            H.self = S;
            H.SM = &SM;
            H.TraverseStmt(S);
            if (H.found)
                return true;
            unsigned cb, ce, tb, te, eb, ee;
            if (!range(S->getCond(), cb, ce) || !range(S->getThen(), tb, te) || !range(S->getElse(), eb, ee))
                return true;
            StringRef buf = SM.getBufferData(SM.getFileID(S->getIfLoc()));
            if (isMarked(S, SM))
                return true;
            // include the trailing ';' of non-compound arms
            auto ext = [&](unsigned e) {
                unsigned k = e;
                while (k < buf.size() && (buf[k] == ' ' || buf[k] == '\t' || buf[k] == '\n'))
                    ++k;
                return (k < buf.size() && buf[k] == ';') ? k + 1 : e;
            };
            if (!isa<CompoundStmt>(S->getThen()))
                te = ext(te);
            if (!isa<CompoundStmt>(S->getElse()))
                ee = ext(ee);
            if (!(ce <= tb && te <= eb))
                return true;
            llvm::outs() << "{\"file\": \"" << SM.getFilename(S->getIfLoc()) << "\", \"cond\": [" << cb << ", " << ce << "], \"then\": [" << tb << ", " << te
                         << "], \"else\": [" << eb << ", " << ee << "]}\n";
            return true;
        }

    private:
        ASTContext& Ctx;
        SourceManager& SM;
    };

    struct C : ASTConsumer
    {
        void HandleTranslationUnit(ASTContext& Ctx) override
        {
            V v(Ctx);
            v.TraverseDecl(Ctx.getTranslationUnitDecl());
        }
    };
    struct A : ASTFrontendAction
    {
        std::unique_ptr<ASTConsumer> CreateASTConsumer(CompilerInstance&, StringRef) override { return std::make_unique<C>(); }
    };
}

int main(int argc, const char** argv)
{
    auto P = CommonOptionsParser::create(argc, argv, Cat);
    if (!P)
    {
        llvm::errs() << llvm::toString(P.takeError());
        return 2;
    }
    ClangTool T(P->getCompilations(), P->getSourcePathList());
    return T.run(newFrontendActionFactory<A>().get());
}
