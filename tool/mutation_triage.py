#!/usr/bin/env python3
"""mutation_triage.py <sweep.jsonl> <triage.jsonl> [--limit N] [--files f1,f2] — for every mutant of a mutation sweep that all checks were
silent on, decide whether the repository's own test-suite notices it: the mutant is made in a scratch worktree of /repo (outside /repo
and /verif, removed at the end), built incrementally and run through ctest.  Verdicts: `killed` (build fails, a test other than
net_test fails or times out), `survived` (the suite is as green as the baseline: a mutant neither the tests nor the rules notice - it is
either equivalent or a gap worth reading).  Nothing here decides a property; it is a coverage measurement for the rules (DESIGN §9).
Results are appended to <triage.jsonl>; finished mutants are skipped on a re-run."""
import json
import os
import re
import subprocess
import sys

sys.path.insert(0, os.path.dirname(os.path.abspath(__file__)))
import mutation_sweep as ms  # noqa: E402

WT = os.environ.get("MUTTRIAGE_WT", "/tmp/muttriage")


def sh(cmd, timeout=None):
    try:
        return subprocess.run(cmd, shell=True, stdout=subprocess.PIPE, stderr=subprocess.STDOUT, text=True, timeout=timeout)
    except subprocess.TimeoutExpired:
        class R:
            returncode = 124
            stdout = "timeout"
        return R()


def main():
    a = sys.argv[1:]
    sweep, out = a[0], a[1]
    limit = int(a[a.index("--limit") + 1]) if "--limit" in a else 0
    files = a[a.index("--files") + 1].split(",") if "--files" in a else None
    done = set()
    if os.path.exists(out):
        for l in open(out):
            r = json.loads(l)
            done.add((r["file"], r["line"], r["op"]))
    todo = []
    for l in open(sweep):
        r = json.loads(l)
        if r["verdict"] == "silent" and (r["file"], r["line"], r["op"]) not in done and (not files or r["file"] in files):
            todo.append(r)
    if limit:
        todo = todo[:limit]
    print("%d silent mutants to triage" % len(todo), flush=True)
    if not todo:
        return
    if not os.path.isdir(WT):
        sh("git -C /repo worktree add -f %s HEAD -q" % WT)
        sh("cmake -G Ninja -S %s -B %s/_build -DPISTACHE_BUILD_TESTS=ON -DCMAKE_BUILD_TYPE=RelWithDebInfo" % (WT, WT))
    sh("git -C %s checkout -- . && ninja -C %s/_build" % (WT, WT))
    with open(out, "a") as fh:
        for r in todo:
            fp = os.path.join(WT, r["file"])
            lines = open(fp).read().split("\n")
            src = open(os.path.join("/repo", r["file"])).read().split("\n")[r["line"] - 1]
            if lines[r["line"] - 1] != src or src.strip() != r["text"]:
                verdict, detail = "stale", ""
            else:
                lines[r["line"] - 1] = ms.mutate_line(src, r["op"])
                open(fp, "w").write("\n".join(lines))
                b = sh("ninja -C %s/_build" % WT, timeout=1200)
                if b.returncode != 0:
                    verdict, detail = "killed", "does not build"
                else:
                    t = sh("ctest --test-dir %s/_build -j8 --timeout 120" % WT, timeout=1500)
                    failed = sorted(set(re.findall(r"^\s*\d+ - (\S+) \((?:Failed|Timeout|SEGFAULT|Subprocess aborted|Child aborted|ILLEGAL|BUS|Exception[^)]*|Not Run)\)", t.stdout, re.M)) - {"net_test"})
                    if t.returncode == 124:
                        verdict, detail = "killed", "suite hangs"
                    elif failed:
                        verdict, detail = "killed", ",".join(failed)[:200]
                    else:
                        verdict, detail = "survived", ""
                sh("git -C %s checkout -- ." % WT)
            rec = {"file": r["file"], "line": r["line"], "op": r["op"], "text": r["text"], "mutant": r.get("mutant"), "verdict": verdict, "detail": detail}
            fh.write(json.dumps(rec) + "\n")
            fh.flush()
            print(rec["file"], rec["line"], rec["op"], verdict, detail, flush=True)
    sh("git -C %s checkout -- ." % WT)


if __name__ == "__main__":
    main()
