// pvfacts — fact extractor for the pistache static checks.
//
// Parses one translation unit with the real build flags and emits, as JSON, for every function
// *definition* located under one of the --root prefixes (including lambdas and implicit template
// instantiations): its resolved signature, its place in the class hierarchy and its clang::CFG
// (built with setAllAlwaysAdd) where every CFG element is turned into an "event" with resolved
// callee / field / variable declarations.  It also emits record layouts (fields with types and
// initialisers, bases, virtual methods with overridden methods) and namespace-scope variables.
//
// The tool decides nothing.  All rules live in /verif/pv/*.py and operate on these facts.
//
// Build: see /verif/tool/build.sh

#include "clang/AST/ASTConsumer.h"
#include "clang/AST/ASTContext.h"
#include "clang/AST/DeclCXX.h"
#include "clang/AST/DeclTemplate.h"
#include "clang/AST/ExprCXX.h"
#include "clang/AST/RecursiveASTVisitor.h"
#include "clang/Analysis/CFG.h"
#include "clang/Frontend/CompilerInstance.h"
#include "clang/Frontend/FrontendAction.h"
#include "clang/Tooling/CommonOptionsParser.h"
#include "clang/Tooling/Tooling.h"
#include "llvm/Support/CommandLine.h"
#include "llvm/Support/JSON.h"
#include "llvm/Support/raw_ostream.h"

#include <set>
#include <string>
#include <vector>

using namespace clang;
using namespace clang::tooling;
namespace json = llvm::json;

static llvm::cl::OptionCategory Cat("pvfacts options");
static llvm::cl::opt<std::string> OutFile("o", llvm::cl::desc("output json"), llvm::cl::Required,
                                          llvm::cl::cat(Cat));
static llvm::cl::list<std::string> Roots("root", llvm::cl::desc("path prefix of files to analyse"),
                                         llvm::cl::cat(Cat));

namespace
{

    static const size_t MaxText = 400;

    struct Ctx
    {
        ASTContext* AC = nullptr;
        SourceManager* SM = nullptr;
        PrintingPolicy PP { LangOptions() };
    };

    static Ctx G;

    std::string fixup(std::string s, size_t limit = MaxText)
    {
        for (auto& c : s)
            if (c == '\n' || c == '\t' || c == '\r')
                c = ' ';
        // collapse runs of spaces
        std::string r;
        r.reserve(s.size());
        bool sp = false;
        for (char c : s)
        {
            if (c == ' ')
            {
                if (!sp)
                    r.push_back(c);
                sp = true;
            }
            else
            {
                r.push_back(c);
                sp = false;
            }
        }
        // expression text is clipped; names are never (a clipped qualified name no longer ends in the function's name), types rarely
        if (limit && r.size() > limit)
        {
            r.resize(limit);
            r += "…";
        }
        if (!json::isUTF8(r))
            r = json::fixUTF8(r);
        return r;
    }

    std::string locStr(SourceLocation L)
    {
        if (L.isInvalid())
            return "?";
        SourceLocation E = G.SM->getExpansionLoc(L);
        PresumedLoc P = G.SM->getPresumedLoc(E);
        if (P.isInvalid())
            return "?";
        return std::string(P.getFilename()) + ":" + std::to_string(P.getLine()) + ":" + std::to_string(P.getColumn());
    }

    std::string fileOf(SourceLocation L)
    {
        if (L.isInvalid())
            return "";
        SourceLocation E = G.SM->getExpansionLoc(L);
        PresumedLoc P = G.SM->getPresumedLoc(E);
        if (P.isInvalid())
            return "";
        return P.getFilename();
    }

    unsigned lineOf(SourceLocation L)
    {
        if (L.isInvalid())
            return 0;
        SourceLocation E = G.SM->getExpansionLoc(L);
        PresumedLoc P = G.SM->getPresumedLoc(E);
        return P.isInvalid() ? 0 : P.getLine();
    }

    unsigned colOf(SourceLocation L)
    {
        if (L.isInvalid())
            return 0;
        SourceLocation E = G.SM->getExpansionLoc(L);
        PresumedLoc P = G.SM->getPresumedLoc(E);
        return P.isInvalid() ? 0 : P.getColumn();
    }

    bool inRoots(SourceLocation L)
    {
        std::string f = fileOf(L);
        if (f.empty())
            return false;
        for (const auto& r : Roots)
            if (f.compare(0, r.size(), r) == 0)
                return true;
        return false;
    }

    std::string lambdaId(const LambdaExpr* LE)
    {
        return "lambda@" + locStr(LE->getBeginLoc());
    }

    const Expr* strip(const Expr* E)
    {
        if (!E)
            return E;
        for (;;)
        {
            const Expr* N = E->IgnoreParenImpCasts();
            if (auto* M = dyn_cast<MaterializeTemporaryExpr>(N))
                N = M->getSubExpr();
            else if (auto* B = dyn_cast<CXXBindTemporaryExpr>(N))
                N = B->getSubExpr();
            else if (auto* C = dyn_cast<ExprWithCleanups>(N))
                N = C->getSubExpr();
            else if (auto* F = dyn_cast<CXXFunctionalCastExpr>(N))
            {
                (void)F;
            }
            if (N == E)
                return E;
            E = N;
        }
    }

    // Look through constructs that merely wrap a lambda (std::function construction, std::move, casts)
    const LambdaExpr* asLambda(const Expr* E, int depth = 0)
    {
        if (!E || depth > 6)
            return nullptr;
        E = strip(E);
        if (auto* L = dyn_cast<LambdaExpr>(E))
            return L;
        if (auto* C = dyn_cast<CXXConstructExpr>(E))
        {
            if (C->getNumArgs() == 1)
                return asLambda(C->getArg(0), depth + 1);
            return nullptr;
        }
        if (auto* C = dyn_cast<CastExpr>(E))
            return asLambda(C->getSubExpr(), depth + 1);
        if (auto* C = dyn_cast<CallExpr>(E))
        {
            if (auto* FD = C->getDirectCallee())
                if (FD->getQualifiedNameAsString() == "std::move" || FD->getQualifiedNameAsString() == "std::forward")
                    if (C->getNumArgs() == 1)
                        return asLambda(C->getArg(0), depth + 1);
        }
        return nullptr;
    }

    std::string txt(const Stmt* S)
    {
        if (!S)
            return "";
        if (auto* E = dyn_cast<Expr>(S))
            if (auto* L = asLambda(E))
                return "<" + lambdaId(L) + ">";
        std::string s;
        llvm::raw_string_ostream os(s);
        S->printPretty(os, nullptr, G.PP);
        os.flush();
        return fixup(s);
    }

    std::string typeStr(QualType T)
    {
        if (T.isNull())
            return "";
        return fixup(T.getAsString(G.PP), 4000);
    }

    std::string qname(const NamedDecl* D)
    {
        if (!D)
            return "";
        std::string s;
        llvm::raw_string_ostream os(s);
        D->printQualifiedName(os, G.PP);
        os.flush();
        return fixup(s, 0);
    }

    // function name including its own template arguments
    std::string fullFuncName(const FunctionDecl* FD)
    {
        std::string s;
        llvm::raw_string_ostream os(s);
        FD->getNameForDiagnostic(os, G.PP, true);
        os.flush();
        return fixup(s, 0);
    }

    std::string funcId(const FunctionDecl* FD);
    std::string calleeName(const FunctionDecl* FD);

    const FunctionDecl* enclosingFunction(const DeclContext* DC)
    {
        while (DC)
        {
            if (auto* FD = dyn_cast<FunctionDecl>(DC))
                return FD;
            DC = DC->getParent();
        }
        return nullptr;
    }

    bool isLambdaCallOp(const FunctionDecl* FD)
    {
        if (auto* MD = dyn_cast<CXXMethodDecl>(FD))
            return MD->getParent()->isLambda() && MD->getOverloadedOperator() == OO_Call;
        return false;
    }

    std::string sigOf(const FunctionDecl* FD)
    {
        std::string s = "(";
        bool first = true;
        for (auto* P : FD->parameters())
        {
            if (!first)
                s += ", ";
            first = false;
            s += typeStr(P->getType());
        }
        s += ")";
        if (auto* MD = dyn_cast<CXXMethodDecl>(FD))
            if (MD->isConst())
                s += " const";
        return s;
    }

    std::string funcId(const FunctionDecl* FD)
    {
        if (isLambdaCallOp(FD))
        {
            auto* MD = cast<CXXMethodDecl>(FD);
            std::string base = "lambda@" + locStr(MD->getParent()->getBeginLoc());
            // Distinguish instantiations of the enclosing template
            if (auto* P = enclosingFunction(MD->getParent()->getParent()))
                if (P->isTemplateInstantiation() || (isa<CXXMethodDecl>(P) && isa<ClassTemplateSpecializationDecl>(cast<CXXMethodDecl>(P)->getParent())))
                    base += "#in:" + funcId(P);
            // instantiations of a generic lambda's call operator
            if (FD->isTemplateInstantiation())
                base += (base.find("#in:") == std::string::npos ? "#in:" : "|") + sigOf(FD);
            return base;
        }
        return fullFuncName(FD) + sigOf(FD);
    }

    struct Root
    {
        std::string name; // variable name or "this"
        std::string decl;
        std::string type;
        bool isParam = false;
        bool isLocal = false;
    };

    // Walk down member/deref/subscript chains to the root variable
    bool rootOf(const Expr* E, Root& R, int depth = 0)
    {
        if (!E || depth > 12)
            return false;
        E = strip(E);
        if (isa<CXXThisExpr>(E))
        {
            R.name = "this";
            return true;
        }
        if (auto* D = dyn_cast<DeclRefExpr>(E))
        {
            if (auto* VD = dyn_cast<VarDecl>(D->getDecl()))
            {
                R.name = VD->getNameAsString();
                R.decl = std::to_string(lineOf(VD->getLocation())) + ":" + std::to_string(colOf(VD->getLocation()));
                R.type = typeStr(VD->getType());
                R.isParam = isa<ParmVarDecl>(VD);
                R.isLocal = VD->isLocalVarDecl();
                return true;
            }
            if (auto* BD = dyn_cast<BindingDecl>(D->getDecl()))
            {
                // a structured binding is a local name for a part of the decomposed object
                R.name = BD->getNameAsString();
                R.decl = std::to_string(lineOf(BD->getLocation())) + ":" + std::to_string(colOf(BD->getLocation()));
                R.type = typeStr(BD->getType());
                R.isParam = false;
                R.isLocal = true;
                return true;
            }
            return false;
        }
        if (auto* M = dyn_cast<MemberExpr>(E))
            return rootOf(M->getBase(), R, depth + 1);
        if (auto* U = dyn_cast<UnaryOperator>(E))
            return rootOf(U->getSubExpr(), R, depth + 1);
        if (auto* A = dyn_cast<ArraySubscriptExpr>(E))
            return rootOf(A->getBase(), R, depth + 1);
        if (auto* O = dyn_cast<CXXOperatorCallExpr>(E))
        {
            auto K = O->getOperator();
            if ((K == OO_Arrow || K == OO_Star || K == OO_Subscript) && O->getNumArgs() >= 1)
                return rootOf(O->getArg(0), R, depth + 1);
            return false;
        }
        if (auto* C = dyn_cast<CXXMemberCallExpr>(E))
        {
            // x.get(), x.front() ... keep the receiver as root
            return rootOf(C->getImplicitObjectArgument(), R, depth + 1);
        }
        if (auto* C = dyn_cast<CastExpr>(E))
            return rootOf(C->getSubExpr(), R, depth + 1);
        return false;
    }

    json::Object refOf(const Expr* E)
    {
        json::Object O;
        if (!E)
            return O;
        const Expr* S = strip(E);
        // look through copy / move construction of the referenced object (by-value argument passing, return by value)
        for (int i = 0; i < 4; ++i)
        {
            auto* CE = dyn_cast<CXXConstructExpr>(S);
            if (!CE || CE->getNumArgs() != 1 || !CE->getConstructor()->isCopyOrMoveConstructor())
                break;
            S = strip(CE->getArg(0));
            O["copied"] = true;
        }
        O["t"] = txt(S);
        if (auto* M = dyn_cast<MemberExpr>(S))
        {
            if (auto* FD = dyn_cast<FieldDecl>(M->getMemberDecl()))
            {
                O["f"] = qname(FD);
                O["ft"] = typeStr(FD->getType());
                O["b"] = txt(strip(M->getBase()));
            }
            else if (auto* VD = dyn_cast<VarDecl>(M->getMemberDecl()))
            {
                O["f"] = qname(VD);
                O["ft"] = typeStr(VD->getType());
                O["b"] = txt(strip(M->getBase()));
            }
        }
        else if (auto* D = dyn_cast<DeclRefExpr>(S))
        {
            if (auto* VD = dyn_cast<VarDecl>(D->getDecl()))
            {
                O["v"] = VD->getNameAsString();
                O["vd"] = std::to_string(lineOf(VD->getLocation())) + ":" + std::to_string(colOf(VD->getLocation()));
                O["vt"] = typeStr(VD->getType());
                if (!VD->isLocalVarDecl() && !isa<ParmVarDecl>(VD))
                    O["g"] = qname(VD);
            }
            else if (auto* EC = dyn_cast<EnumConstantDecl>(D->getDecl()))
                O["e"] = qname(EC);
        }
        Root R;
        if (rootOf(S, R))
        {
            O["root"] = R.name;
            if (!R.decl.empty())
                O["rootd"] = R.decl;
            if (!R.type.empty())
                O["rootT"] = R.type;
        }
        O["ty"] = typeStr(S->getType());
        return O;
    }

    // Collect referenced declarations inside an expression
    struct RefCollector : RecursiveASTVisitor<RefCollector>
    {
        std::set<std::string> refs;
        bool shouldVisitImplicitCode() const { return false; }
        bool TraverseLambdaExpr(LambdaExpr*) { return true; } // do not descend
        bool VisitDeclRefExpr(DeclRefExpr* D)
        {
            if (auto* VD = dyn_cast<VarDecl>(D->getDecl()))
                refs.insert("v:" + VD->getNameAsString());
            else if (auto* EC = dyn_cast<EnumConstantDecl>(D->getDecl()))
                refs.insert("e:" + qname(EC));
            else if (auto* FD = dyn_cast<FunctionDecl>(D->getDecl()))
                refs.insert("c:" + calleeName(FD));
            return true;
        }
        bool VisitMemberExpr(MemberExpr* M)
        {
            if (auto* FD = dyn_cast<FieldDecl>(M->getMemberDecl()))
                refs.insert("f:" + qname(FD));
            else if (auto* MD = dyn_cast<CXXMethodDecl>(M->getMemberDecl()))
                refs.insert("c:" + calleeName(MD));
            return true;
        }
        bool VisitCXXThisExpr(CXXThisExpr*)
        {
            refs.insert("v:this");
            return true;
        }
    };

    json::Array refsOf(const Stmt* S)
    {
        json::Array A;
        if (!S)
            return A;
        RefCollector RC;
        RC.TraverseStmt(const_cast<Stmt*>(S));
        for (auto& r : RC.refs)
            A.push_back(r);
        return A;
    }

    json::Value constOf(const Expr* E)
    {
        if (!E)
            return nullptr;
        E = strip(E);
        if (auto* B = dyn_cast<CXXBoolLiteralExpr>(E))
            return B->getValue();
        if (auto* I = dyn_cast<IntegerLiteral>(E))
            return (int64_t)I->getValue().getLimitedValue();
        if (isa<CXXNullPtrLiteralExpr>(E) || isa<GNUNullExpr>(E))
            return "nullptr";
        if (auto* S = dyn_cast<StringLiteral>(E))
            if (S->isAscii())
                return "s:" + fixup(S->getString().str());
        if (auto* C = dyn_cast<CharacterLiteral>(E))
            return "c:" + std::to_string(C->getValue());
        if (auto* D = dyn_cast<DeclRefExpr>(E))
            if (auto* EC = dyn_cast<EnumConstantDecl>(D->getDecl()))
                return "e:" + qname(EC);
        if (auto* U = dyn_cast<UnaryOperator>(E))
            if (U->getOpcode() == UO_Minus)
                if (auto* I = dyn_cast<IntegerLiteral>(strip(U->getSubExpr())))
                    return -(int64_t)I->getValue().getLimitedValue();
        return nullptr;
    }

    // integer value of a constant expression (literals, character literals, constexpr names, arithmetic on them)
    bool ivalOf(const Expr* E, int64_t& out)
    {
        if (!E || !G.AC || E->isValueDependent() || E->isTypeDependent())
            return false;
        if (!E->getType()->isIntegralOrEnumerationType())
            return false;
        Expr::EvalResult R;
        if (E->EvaluateAsInt(R, *G.AC))
        {
            out = R.Val.getInt().getExtValue();
            return true;
        }
        return false;
    }

    const Expr* stripCasts(const Expr* E)
    {
        for (;;)
        {
            const Expr* N = strip(E);
            if (auto* X = dyn_cast_or_null<ExplicitCastExpr>(N))
                N = X->getSubExpr();
            if (N == E || !N)
                return E;
            E = N;
        }
    }

    // `v`, `v + C`, `v - C`, `C + v` or a constant, looked at through casts and parentheses: {"v","vd","k"} / {"k"}
    json::Value affineOf(const Expr* E)
    {
        if (!E)
            return nullptr;
        E = stripCasts(E);
        int64_t c = 0;
        if (ivalOf(E, c))
        {
            json::Object O;
            O["k"] = c;
            return O;
        }
        auto var = [&](const Expr* X, json::Object& O) -> bool {
            X = stripCasts(X);
            if (auto* D = dyn_cast_or_null<DeclRefExpr>(X))
                if (auto* VD = dyn_cast<VarDecl>(D->getDecl()))
                {
                    O["v"] = VD->getNameAsString();
                    O["vd"] = std::to_string(lineOf(VD->getLocation())) + ":" + std::to_string(colOf(VD->getLocation()));
                    return true;
                }
            return false;
        };
        json::Object O;
        if (var(E, O))
        {
            O["k"] = (int64_t)0;
            return O;
        }
        if (auto* B = dyn_cast<BinaryOperator>(E))
        {
            if (B->getOpcode() == BO_Add || B->getOpcode() == BO_Sub)
            {
                if (ivalOf(stripCasts(B->getRHS()), c) && var(B->getLHS(), O))
                {
                    O["k"] = B->getOpcode() == BO_Add ? c : -c;
                    return O;
                }
                if (B->getOpcode() == BO_Add && ivalOf(stripCasts(B->getLHS()), c) && var(B->getRHS(), O))
                {
                    O["k"] = c;
                    return O;
                }
            }
        }
        return nullptr;
    }

    // Integer expression tree (for bit-level dataflow rules): constants, variables, the operators + - & | ^ << >> ~, width-changing
    // casts, element reads `field.at(i)` / `field[i]`, calls with their arguments.  Anything else is an opaque leaf {"op":"?"}.
    void tyInfo(json::Object& O, QualType T)
    {
        if (G.AC && !T.isNull() && T->isIntegralOrEnumerationType() && !T->isDependentType())
        {
            O["w"] = (int64_t)G.AC->getTypeSize(T);
            O["sgn"] = T->isSignedIntegerOrEnumerationType();
        }
    }

    json::Value exprTree0(const Expr* E, int& budget);

    json::Value exprTree(const Expr* E, int& budget)
    {
        json::Value V = exprTree0(E, budget);
        if (E)
            if (auto* O = V.getAsObject())
                if (!O->get("w") && !O->get("c"))
                    tyInfo(*O, E->IgnoreParens()->getType());
        return V;
    }

    json::Value exprTree0(const Expr* E, int& budget)
    {
        json::Object O;
        if (!E || --budget < 0)
        {
            O["op"] = "?";
            return O;
        }
        // constants first (folds `97 - 26`, character literals, constexpr names)
        {
            const Expr* P = E->IgnoreParens();
            int64_t c = 0;
            if (!isa<CastExpr>(P) || true)
                if (ivalOf(P, c))
                {
                    O["c"] = c;
                    return O;
                }
        }
        const Expr* P = E->IgnoreParens();
        if (auto* M = dyn_cast<MaterializeTemporaryExpr>(P))
            return exprTree(M->getSubExpr(), budget);
        if (auto* B = dyn_cast<CXXBindTemporaryExpr>(P))
            return exprTree(B->getSubExpr(), budget);
        if (auto* C = dyn_cast<ExprWithCleanups>(P))
            return exprTree(C->getSubExpr(), budget);
        if (auto* C = dyn_cast<CastExpr>(P))
        {
            QualType T = C->getType();
            if (T->isIntegralOrEnumerationType() && C->getSubExpr()->getType()->isIntegralOrEnumerationType() && G.AC)
            {
                uint64_t wt = G.AC->getTypeSize(T), wf = G.AC->getTypeSize(C->getSubExpr()->getType());
                if (wt != wf || isa<ExplicitCastExpr>(C))
                {
                    O["op"] = "cast";
                    O["w"] = (int64_t)wt;
                    O["sgn"] = T->isSignedIntegerOrEnumerationType();
                    O["fw"] = (int64_t)wf;
                    O["fs"] = C->getSubExpr()->getType()->isSignedIntegerOrEnumerationType();
                    json::Array A;
                    A.push_back(exprTree(C->getSubExpr(), budget));
                    O["a"] = std::move(A);
                    return O;
                }
            }
            return exprTree(C->getSubExpr(), budget);
        }
        if (auto* D = dyn_cast<DeclRefExpr>(P))
        {
            if (auto* VD = dyn_cast<VarDecl>(D->getDecl()))
            {
                O["v"] = VD->getNameAsString();
                O["vd"] = std::to_string(lineOf(VD->getLocation())) + ":" + std::to_string(colOf(VD->getLocation()));
                return O;
            }
        }
        if (auto* M = dyn_cast<MemberExpr>(P))
        {
            if (auto* FD = dyn_cast<FieldDecl>(M->getMemberDecl()))
            {
                O["f"] = qname(FD);
                return O;
            }
        }
        if (auto* U = dyn_cast<UnaryOperator>(P))
        {
            if (U->getOpcode() == UO_Not || U->getOpcode() == UO_Minus || U->getOpcode() == UO_Plus)
            {
                O["op"] = UnaryOperator::getOpcodeStr(U->getOpcode()).str() + "u";
                json::Array A;
                A.push_back(exprTree(U->getSubExpr(), budget));
                O["a"] = std::move(A);
                return O;
            }
        }
        if (auto* B = dyn_cast<BinaryOperator>(P))
        {
            if (!B->isAssignmentOp() && !B->isComparisonOp() && !B->isLogicalOp() && B->getOpcode() != BO_Comma)
            {
                O["op"] = B->getOpcodeStr().str();
                json::Array A;
                A.push_back(exprTree(B->getLHS(), budget));
                A.push_back(exprTree(B->getRHS(), budget));
                O["a"] = std::move(A);
                return O;
            }
        }
        if (auto* OC = dyn_cast<CXXOperatorCallExpr>(P))
        {
            auto K = OC->getOperator();
            if (K == OO_Subscript && OC->getNumArgs() == 2)
            {
                O["op"] = "elem";
                O["base"] = exprTree(OC->getArg(0), budget);
                O["i"] = exprTree(OC->getArg(1), budget);
                return O;
            }
            const char* sp = getOperatorSpelling(K);
            if (sp && (K == OO_LessLess || K == OO_GreaterGreater || K == OO_Amp || K == OO_Pipe || K == OO_Caret || K == OO_Plus || K == OO_Minus || K == OO_Tilde))
            {
                O["op"] = OC->getNumArgs() == 1 ? std::string(sp) + "u" : std::string(sp);
                json::Array A;
                for (unsigned i = 0; i < OC->getNumArgs(); ++i)
                    A.push_back(exprTree(OC->getArg(i), budget));
                O["a"] = std::move(A);
                if (G.AC && OC->getType()->isIntegralOrEnumerationType())
                    O["w"] = (int64_t)G.AC->getTypeSize(OC->getType());
                return O;
            }
        }
        if (auto* MC = dyn_cast<CXXMemberCallExpr>(P))
        {
            if (auto* MD = MC->getMethodDecl())
            {
                std::string n = MD->getNameAsString();
                if ((n == "at" || n == "operator[]") && MC->getNumArgs() == 1)
                {
                    O["op"] = "elem";
                    O["base"] = exprTree(MC->getImplicitObjectArgument(), budget);
                    O["i"] = exprTree(MC->getArg(0), budget);
                    O["checked"] = n == "at";
                    return O;
                }
            }
        }
        if (auto* CE = dyn_cast<CallExpr>(P))
        {
            if (auto* F = CE->getDirectCallee())
            {
                O["op"] = "call";
                O["fn"] = calleeName(F);
                json::Array A;
                for (unsigned i = 0; i < CE->getNumArgs(); ++i)
                    A.push_back(exprTree(CE->getArg(i), budget));
                O["a"] = std::move(A);
                if (G.AC && CE->getType()->isIntegralOrEnumerationType())
                    O["w"] = (int64_t)G.AC->getTypeSize(CE->getType());
                return O;
            }
        }
        if (auto* AS = dyn_cast<ArraySubscriptExpr>(P))
        {
            O["op"] = "elem";
            O["base"] = exprTree(AS->getBase(), budget);
            O["i"] = exprTree(AS->getIdx(), budget);
            return O;
        }
        O["op"] = "?";
        O["t"] = txt(P);
        return O;
    }

    json::Array argsOf(llvm::ArrayRef<const Expr*> Args)
    {
        json::Array A;
        for (auto* E : Args)
        {
            json::Object O;
            if (isa<CXXDefaultArgExpr>(E))
            {
                O["t"] = "<default>";
                O["dflt"] = true;
                if (auto* DA = dyn_cast<CXXDefaultArgExpr>(E))
                {
                    auto c = constOf(DA->getExpr());
                    if (!(c.kind() == json::Value::Null))
                        O["const"] = std::move(c);
                    O["dt"] = txt(DA->getExpr());
                }
                A.push_back(std::move(O));
                continue;
            }
            O = refOf(E);
            if (auto* L = asLambda(E))
                O["lam"] = lambdaId(L);
            if (E->getType()->isIntegralOrEnumerationType() && !E->getType()->isBooleanType())
            {
                auto a = affineOf(E);
                if (!(a.kind() == json::Value::Null))
                    O["aff"] = std::move(a);
                const Expr* SE = stripCasts(E);
                if (SE && (isa<BinaryOperator>(SE) || isa<CXXOperatorCallExpr>(SE) || isa<ArraySubscriptExpr>(SE) || isa<CallExpr>(SE)))
                {
                    int budget = 64;
                    auto x = exprTree(E, budget);
                    if (budget >= 0)
                        O["xt"] = std::move(x);
                }
            }
            auto c = constOf(E);
            if (!(c.kind() == json::Value::Null))
                O["const"] = std::move(c);
            // std::move(x) / std::forward(x): record the moved operand
            const Expr* S = strip(E);
            if (auto* C = dyn_cast<CallExpr>(S))
                if (auto* FD = C->getDirectCallee())
                {
                    auto n = FD->getQualifiedNameAsString();
                    if ((n == "std::move" || n == "std::forward") && C->getNumArgs() == 1)
                        O["moved"] = refOf(C->getArg(0));
                }
            A.push_back(std::move(O));
        }
        return A;
    }

    std::string recordName(const CXXRecordDecl* RD)
    {
        if (!RD)
            return "";
        if (RD->isLambda())
            return "lambda@" + locStr(RD->getBeginLoc());
        if (isa<ClassTemplateSpecializationDecl>(RD))
        {
            std::string s;
            llvm::raw_string_ostream os(s);
            RD->getNameForDiagnostic(os, G.PP, true);
            os.flush();
            return fixup(s, 0);
        }
        return qname(RD);
    }

    // one name for a callee wherever it is reported (call events, initialisers): lambdas by the position of their definition
    std::string calleeName(const FunctionDecl* FD)
    {
        if (isLambdaCallOp(FD))
            return "lambda@" + locStr(cast<CXXMethodDecl>(FD)->getParent()->getBeginLoc());
        return qname(FD);
    }

    void describeCallee(const FunctionDecl* FD, json::Object& O)
    {
        if (!FD)
            return;
        O["callee"] = calleeName(FD);
        O["cid"] = funcId(FD);
        O["cfile"] = fileOf(FD->getLocation());
        if (auto* MD = dyn_cast<CXXMethodDecl>(FD))
        {
            O["ccls"] = recordName(MD->getParent());
            if (MD->isVirtual())
                O["virt"] = true;
            if (MD->isStatic())
                O["static"] = true;
        }
        // [[noreturn]] / __attribute__((noreturn)): abort, __assert_fail, std::terminate, throwing helpers
        if (FD->isNoReturn())
            O["noret"] = true;
        O["cret"] = typeStr(FD->getReturnType());
        O["cretc"] = typeStr(FD->getReturnType().getCanonicalType());
        {
            json::Array ps;
            for (auto* P : FD->parameters())
                ps.push_back(typeStr(P->getType()));
            O["cparams"] = std::move(ps);
        }
        if (const FunctionDecl* Def = FD->getDefinition())
            if (Def != FD)
                O["cdef"] = locStr(Def->getLocation());
    }

    struct FuncEmitter
    {
        json::Array blocksOut;
        unsigned nextEid = 0;

        json::Object base(const char* k, const Stmt* S)
        {
            json::Object O;
            O["k"] = k;
            O["i"] = (int64_t)nextEid++;
            if (S)
            {
                O["l"] = (int64_t)lineOf(S->getBeginLoc());
                O["c"] = (int64_t)colOf(S->getBeginLoc());
                std::string f = fileOf(S->getBeginLoc());
                O["fl"] = f;
                // spelling line differs when the statement comes from a macro expansion
                if (S->getBeginLoc().isMacroID())
                    O["macro"] = true;
            }
            return O;
        }

        bool emitStmt(const Stmt* S, json::Array& out)
        {
            if (!S)
                return false;
            if (auto* E = dyn_cast<CXXOperatorCallExpr>(S))
            {
                json::Object O = base("call", S);
                O["t"] = txt(S);
                describeCallee(E->getDirectCallee(), O);
                O["op"] = getOperatorSpelling(E->getOperator());
                std::vector<const Expr*> args(E->arg_begin(), E->arg_end());
                bool member = false;
                if (auto* FD = E->getDirectCallee())
                    member = isa<CXXMethodDecl>(FD) && !cast<CXXMethodDecl>(FD)->isStatic();
                if (member && !args.empty())
                {
                    O["recv"] = refOf(args[0]);
                    args.erase(args.begin());
                }
                O["args"] = argsOf(args);
                O["refs"] = refsOf(S);
                O["ty"] = typeStr(E->getType());
                out.push_back(std::move(O));
                return true;
            }
            if (auto* E = dyn_cast<CXXMemberCallExpr>(S))
            {
                json::Object O = base("call", S);
                O["t"] = txt(S);
                const CXXMethodDecl* MD = E->getMethodDecl();
                describeCallee(MD, O);
                if (!MD)
                    O["callee"] = "?";
                if (auto* Obj = E->getImplicitObjectArgument())
                    O["recv"] = refOf(Obj);
                // qualified (non-virtual) call Base::f()
                if (auto* ME = dyn_cast<MemberExpr>(E->getCallee()->IgnoreParens()))
                    if (ME->hasQualifier())
                        O["qualified"] = true;
                std::vector<const Expr*> args(E->arg_begin(), E->arg_end());
                O["args"] = argsOf(args);
                O["refs"] = refsOf(S);
                O["ty"] = typeStr(E->getType());
                out.push_back(std::move(O));
                return true;
            }
            if (auto* E = dyn_cast<CallExpr>(S))
            {
                json::Object O = base("call", S);
                O["t"] = txt(S);
                const FunctionDecl* FD = E->getDirectCallee();
                if (FD)
                    describeCallee(FD, O);
                else
                {
                    // call through an object / pointer: record the callee expression
                    O["callee"] = "?";
                    O["fnexpr"] = refOf(E->getCallee());
                }
                std::vector<const Expr*> args(E->arg_begin(), E->arg_end());
                O["args"] = argsOf(args);
                O["refs"] = refsOf(S);
                O["ty"] = typeStr(E->getType());
                out.push_back(std::move(O));
                return true;
            }
            if (auto* E = dyn_cast<CXXConstructExpr>(S))
            {
                json::Object O = base("construct", S);
                O["t"] = txt(S);
                O["cls"] = recordName(E->getConstructor()->getParent());
                O["cid"] = funcId(E->getConstructor());
                std::vector<const Expr*> args(E->arg_begin(), E->arg_end());
                O["args"] = argsOf(args);
                if (E->getConstructor()->isCopyOrMoveConstructor())
                    O["copymove"] = true;
                out.push_back(std::move(O));
                return true;
            }
            if (auto* D = dyn_cast<DeclStmt>(S))
            {
                bool any = false;
                for (auto* Dc : D->decls())
                {
                    auto* VD = dyn_cast<VarDecl>(Dc);
                    if (!VD)
                        continue;
                    json::Object O = base("decl", S);
                    O["var"] = VD->getNameAsString();
                    O["vd"] = std::to_string(lineOf(VD->getLocation())) + ":" + std::to_string(colOf(VD->getLocation()));
                    O["type"] = typeStr(VD->getType());
                    O["ctype"] = typeStr(VD->getType().getCanonicalType());
                    if (auto* DD = dyn_cast<DecompositionDecl>(VD))
                    {
                        json::Array BA;
                        for (auto* B : DD->bindings())
                            BA.push_back(B->getNameAsString());
                        O["bindings"] = std::move(BA);
                    }
                    if (VD->isStaticLocal())
                        O["static"] = true;
                    if (VD->getTLSKind() != VarDecl::TLS_None)
                        O["tls"] = true;
                    if (const Expr* I = VD->getInit())
                    {
                        O["init"] = refOf(I);
                        auto c = constOf(I);
                        if (!(c.kind() == json::Value::Null))
                            O["const"] = std::move(c);
                        const Expr* SI = strip(I);
                        if (auto* CE = dyn_cast<CXXConstructExpr>(SI))
                        {
                            O["ctor"] = recordName(CE->getConstructor()->getParent());
                            std::vector<const Expr*> args(CE->arg_begin(), CE->arg_end());
                            O["cargs"] = argsOf(args);
                            if (CE->getConstructor()->isCopyOrMoveConstructor() && CE->getNumArgs() == 1)
                            {
                                const Expr* A0 = strip(CE->getArg(0));
                                if (auto* C2 = dyn_cast<CallExpr>(A0))
                                    if (auto* F2 = C2->getDirectCallee())
                                        O["icall"] = calleeName(F2);
                            }
                        }
                        else if (auto* CE2 = dyn_cast<CallExpr>(SI))
                        {
                            if (auto* F2 = CE2->getDirectCallee())
                                O["icall"] = calleeName(F2);
                        }
                        if (auto* L = asLambda(I))
                            O["lam"] = lambdaId(L);
                        O["refs"] = refsOf(I);
                        if (VD->getType()->isIntegralOrEnumerationType() || VD->getType()->isDependentType() == false)
                        {
                            auto a = affineOf(I);
                            if (!(a.kind() == json::Value::Null))
                                O["aff"] = std::move(a);
                        }
                        if ((VD->getType()->isIntegralOrEnumerationType() && !VD->getType()->isBooleanType()) || VD->getType()->isReferenceType())
                        {
                            int budget = 64;
                            auto x = exprTree(I, budget);
                            if (budget >= 0)
                                O["xt"] = std::move(x);
                        }
                    }
                    out.push_back(std::move(O));
                    any = true;
                }
                return any;
            }
            if (auto* B = dyn_cast<BinaryOperator>(S))
            {
                if (B->isAssignmentOp())
                {
                    json::Object O = base("assign", S);
                    O["t"] = txt(S);
                    O["op"] = B->getOpcodeStr().str();
                    O["lhs"] = refOf(B->getLHS());
                    O["rhs"] = refOf(B->getRHS());
                    auto c = constOf(B->getRHS());
                    if (!(c.kind() == json::Value::Null))
                        O["const"] = std::move(c);
                    O["refs"] = refsOf(B->getRHS());
                    if (B->getLHS()->getType()->isIntegralOrEnumerationType() && !B->getLHS()->getType()->isBooleanType())
                    {
                        int budget = 96;
                        auto r = exprTree(B->getRHS(), budget);
                        auto l = exprTree(B->getLHS(), budget);
                        if (budget >= 0)
                        {
                            O["xt"] = std::move(r);
                            O["lxt"] = std::move(l);
                        }
                    }
                    out.push_back(std::move(O));
                    return true;
                }
                if (B->isComparisonOp())
                {
                    json::Object O = base("cmp", S);
                    O["t"] = txt(S);
                    O["op"] = B->getOpcodeStr().str();
                    O["lhs"] = refOf(B->getLHS());
                    O["rhs"] = refOf(B->getRHS());
                    auto c = constOf(B->getRHS());
                    if (!(c.kind() == json::Value::Null))
                        O["rconst"] = std::move(c);
                    auto c2 = constOf(B->getLHS());
                    if (!(c2.kind() == json::Value::Null))
                        O["lconst"] = std::move(c2);
                    {
                        int64_t iv = 0;
                        if (ivalOf(stripCasts(B->getRHS()), iv))
                            O["rival"] = iv;
                        else
                        {
                            auto a = affineOf(B->getRHS());
                            if (!(a.kind() == json::Value::Null))
                                O["raff"] = std::move(a);
                        }
                        if (ivalOf(stripCasts(B->getLHS()), iv))
                            O["lival"] = iv;
                        else
                        {
                            auto a = affineOf(B->getLHS());
                            if (!(a.kind() == json::Value::Null))
                                O["laff"] = std::move(a);
                        }
                    }
                    out.push_back(std::move(O));
                    return true;
                }
                return false;
            }
            if (auto* U = dyn_cast<UnaryOperator>(S))
            {
                if (U->isIncrementDecrementOp())
                {
                    json::Object O = base("incdec", S);
                    O["t"] = txt(S);
                    O["op"] = UnaryOperator::getOpcodeStr(U->getOpcode()).str();
                    O["operand"] = refOf(U->getSubExpr());
                    out.push_back(std::move(O));
                    return true;
                }
                if (U->getOpcode() == UO_Deref)
                {
                    json::Object O = base("deref", S);
                    O["t"] = txt(S);
                    O["ptr"] = refOf(U->getSubExpr());
                    out.push_back(std::move(O));
                    return true;
                }
                if (U->getOpcode() == UO_AddrOf)
                {
                    json::Object O = base("addrof", S);
                    O["t"] = txt(S);
                    O["operand"] = refOf(U->getSubExpr());
                    out.push_back(std::move(O));
                    return true;
                }
                return false;
            }
            if (auto* A = dyn_cast<ArraySubscriptExpr>(S))
            {
                json::Object O = base("subscript", S);
                O["t"] = txt(S);
                O["base"] = refOf(A->getBase());
                O["idx"] = refOf(A->getIdx());
                out.push_back(std::move(O));
                return true;
            }
            if (auto* M = dyn_cast<MemberExpr>(S))
            {
                if (isa<FieldDecl>(M->getMemberDecl()))
                {
                    json::Object O = base("member", S);
                    json::Object R = refOf(M);
                    for (auto& kv : R)
                        O[kv.first] = std::move(kv.second);
                    if (M->isArrow())
                        O["arrow"] = true;
                    out.push_back(std::move(O));
                    return true;
                }
                return false;
            }
            if (auto* R = dyn_cast<ReturnStmt>(S))
            {
                json::Object O = base("return", S);
                O["t"] = txt(R->getRetValue());
                if (R->getRetValue())
                {
                    auto c = constOf(R->getRetValue());
                    if (!(c.kind() == json::Value::Null))
                        O["const"] = std::move(c);
                    O["val"] = refOf(R->getRetValue());
                    O["refs"] = refsOf(R->getRetValue());
                    {
                        auto a = affineOf(R->getRetValue());
                        if (!(a.kind() == json::Value::Null))
                            O["aff"] = std::move(a);
                        if (R->getRetValue()->getType()->isIntegralOrEnumerationType() && !R->getRetValue()->getType()->isBooleanType())
                        {
                            int budget = 64;
                            auto x = exprTree(R->getRetValue(), budget);
                            if (budget >= 0)
                                O["xt"] = std::move(x);
                        }
                    }
                    // `return c ? A : B;` with constant arms: the constants, in the order (c true, c false)
                    if (auto* CO = dyn_cast<ConditionalOperator>(strip(R->getRetValue())))
                    {
                        auto ct = constOf(CO->getTrueExpr());
                        auto cf = constOf(CO->getFalseExpr());
                        if (!(ct.kind() == json::Value::Null) && !(cf.kind() == json::Value::Null))
                        {
                            json::Array A;
                            A.push_back(std::move(ct));
                            A.push_back(std::move(cf));
                            O["arms"] = std::move(A);
                        }
                    }
                }
                out.push_back(std::move(O));
                return true;
            }
            if (auto* T = dyn_cast<CXXThrowExpr>(S))
            {
                json::Object O = base("throw", S);
                O["t"] = txt(S);
                if (T->getSubExpr())
                {
                    O["type"] = typeStr(T->getSubExpr()->getType());
                    const Expr* SE = strip(T->getSubExpr());
                    if (auto* CE = dyn_cast<CXXConstructExpr>(SE))
                    {
                        // look through copy/move of a temporary
                        while (CE && CE->getConstructor()->isCopyOrMoveConstructor() && CE->getNumArgs() == 1)
                        {
                            auto* In = dyn_cast<CXXConstructExpr>(strip(CE->getArg(0)));
                            if (!In)
                            {
                                if (auto* FC = dyn_cast<CXXFunctionalCastExpr>(strip(CE->getArg(0))))
                                    In = dyn_cast<CXXConstructExpr>(strip(FC->getSubExpr()));
                            }
                            if (!In)
                                break;
                            CE = In;
                        }
                        std::vector<const Expr*> args(CE->arg_begin(), CE->arg_end());
                        O["args"] = argsOf(args);
                    }
                    O["refs"] = refsOf(T->getSubExpr());
                }
                else
                    O["rethrow"] = true;
                out.push_back(std::move(O));
                return true;
            }
            if (auto* L = dyn_cast<LambdaExpr>(S))
            {
                json::Object O = base("lambda", S);
                O["lid"] = lambdaId(L);
                json::Array caps;
                for (auto& C : L->captures())
                {
                    json::Object CO;
                    if (C.capturesThis())
                        CO["v"] = "this";
                    else if (C.capturesVariable())
                    {
                        CO["v"] = C.getCapturedVar()->getNameAsString();
                        CO["vt"] = typeStr(C.getCapturedVar()->getType());
                    }
                    CO["byref"] = C.getCaptureKind() == LCK_ByRef;
                    caps.push_back(std::move(CO));
                }
                O["caps"] = std::move(caps);
                out.push_back(std::move(O));
                return true;
            }
            if (auto* C = dyn_cast<ExplicitCastExpr>(S))
            {
                json::Object O = base("cast", S);
                O["t"] = txt(S);
                O["to"] = typeStr(C->getTypeAsWritten());
                O["castk"] = C->getStmtClassName();
                O["sub"] = refOf(C->getSubExpr());
                O["from"] = typeStr(C->getSubExpr()->getType());
                out.push_back(std::move(O));
                return true;
            }
            if (auto* N = dyn_cast<CXXNewExpr>(S))
            {
                json::Object O = base("new", S);
                O["t"] = txt(S);
                O["type"] = typeStr(N->getAllocatedType());
                if (N->getNumPlacementArgs() > 0)
                    O["placement"] = refOf(N->getPlacementArg(0));
                out.push_back(std::move(O));
                return true;
            }
            if (auto* D = dyn_cast<CXXDeleteExpr>(S))
            {
                json::Object O = base("delete", S);
                O["t"] = txt(S);
                O["arg"] = refOf(D->getArgument());
                out.push_back(std::move(O));
                return true;
            }
            if (auto* D = dyn_cast<DeclRefExpr>(S))
            {
                // only record uses of variables (cheap, needed for taint / use-after-move)
                if (auto* VD = dyn_cast<VarDecl>(D->getDecl()))
                {
                    json::Object O = base("use", S);
                    O["v"] = VD->getNameAsString();
                    O["vd"] = std::to_string(lineOf(VD->getLocation())) + ":" + std::to_string(colOf(VD->getLocation()));
                    if (!VD->isLocalVarDecl() && !isa<ParmVarDecl>(VD))
                        O["g"] = qname(VD);
                    out.push_back(std::move(O));
                    return true;
                }
                return false;
            }
            return false;
        }

        json::Object emitTerminator(const CFGBlock* B)
        {
            json::Object T;
            const Stmt* TS = B->getTerminatorStmt();
            if (!TS)
                return T;
            const char* k = "other";
            if (isa<IfStmt>(TS))
                k = "if";
            else if (isa<WhileStmt>(TS))
                k = "while";
            else if (isa<ForStmt>(TS))
                k = "for";
            else if (isa<DoStmt>(TS))
                k = "do";
            else if (isa<CXXForRangeStmt>(TS))
                k = "rangefor";
            else if (isa<SwitchStmt>(TS))
                k = "switch";
            else if (isa<ConditionalOperator>(TS) || isa<BinaryConditionalOperator>(TS))
                k = "cond";
            else if (isa<CXXTryStmt>(TS))
                k = "try";
            else if (isa<BreakStmt>(TS))
                k = "break";
            else if (isa<ContinueStmt>(TS))
                k = "continue";
            else if (isa<GotoStmt>(TS))
                k = "goto";
            else if (auto* BO = dyn_cast<BinaryOperator>(TS))
            {
                if (BO->getOpcode() == BO_LAnd)
                    k = "land";
                else if (BO->getOpcode() == BO_LOr)
                    k = "lor";
            }
            T["k"] = k;
            T["l"] = (int64_t)lineOf(TS->getBeginLoc());
            T["fl"] = fileOf(TS->getBeginLoc());
            if (const Stmt* C = B->getTerminatorCondition())
            {
                T["cond"] = txt(C);
                T["refs"] = refsOf(C);
                if (auto* CE = dyn_cast<Expr>(C))
                {
                    // structured view of simple conditions: [!] a OP b.  In a short-circuit chain the block that
                    // carries the if/while terminator evaluates only the right-most leaf of the condition.
                    const Expr* E = strip(CE);
                    if (!isa<BinaryOperator>(TS))
                    {
                        for (;;)
                        {
                            auto* LB = dyn_cast<BinaryOperator>(E);
                            if (!LB || !LB->isLogicalOp())
                                break;
                            E = strip(LB->getRHS());
                            T["leaf"] = true;
                        }
                    }
                    bool neg = false;
                    for (;;)
                    {
                        if (auto* U = dyn_cast<UnaryOperator>(E))
                        {
                            if (U->getOpcode() != UO_LNot)
                                break;
                            neg = !neg;
                            E = strip(U->getSubExpr());
                            continue;
                        }
                        // overloaded operator! (e.g. std::basic_ios::operator!)
                        if (auto* OC = dyn_cast<CXXOperatorCallExpr>(E))
                        {
                            if (OC->getOperator() == OO_Exclaim && OC->getNumArgs() == 1)
                            {
                                neg = !neg;
                                E = strip(OC->getArg(0));
                                T["conv"] = true;
                                continue;
                            }
                        }
                        // contextual conversion to bool of a smart pointer / std::function / optional
                        if (auto* MC = dyn_cast<CXXMemberCallExpr>(E))
                        {
                            if (MC->getMethodDecl() && isa<CXXConversionDecl>(MC->getMethodDecl()) && MC->getImplicitObjectArgument())
                            {
                                E = strip(MC->getImplicitObjectArgument());
                                T["conv"] = true;
                                continue;
                            }
                        }
                        break;
                    }
                    T["neg"] = neg;
                    T["core"] = refOf(E);
                    // declarations referenced by the part of the condition this block actually evaluates
                    T["leafrefs"] = refsOf(E);
                    if (auto* BO = dyn_cast<BinaryOperator>(E))
                    {
                        if (BO->isComparisonOp())
                        {
                            T["cmp"] = BO->getOpcodeStr().str();
                            T["lhs"] = refOf(BO->getLHS());
                            T["rhs"] = refOf(BO->getRHS());
                            auto c = constOf(BO->getRHS());
                            if (!(c.kind() == json::Value::Null))
                                T["rconst"] = std::move(c);
                        }
                    }
                    else if (auto* OC = dyn_cast<CXXOperatorCallExpr>(E))
                    {
                        auto K = OC->getOperator();
                        if ((K == OO_EqualEqual || K == OO_ExclaimEqual || K == OO_Less || K == OO_Greater || K == OO_LessEqual || K == OO_GreaterEqual) && OC->getNumArgs() == 2)
                        {
                            T["cmp"] = getOperatorSpelling(K);
                            T["lhs"] = refOf(OC->getArg(0));
                            T["rhs"] = refOf(OC->getArg(1));
                            auto c = constOf(OC->getArg(1));
                            if (!(c.kind() == json::Value::Null))
                                T["rconst"] = std::move(c);
                        }
                    }
                }
            }
            return T;
        }

        void emitCFG(const CFG& cfg, json::Object& F)
        {
            json::Array blocks;
            for (const CFGBlock* B : cfg)
            {
                json::Object BO;
                BO["id"] = (int64_t)B->getBlockID();
                json::Array succs;
                for (auto I = B->succ_begin(); I != B->succ_end(); ++I)
                {
                    if (const CFGBlock* S = I->getReachableBlock())
                        succs.push_back((int64_t)S->getBlockID());
                    else if (const CFGBlock* S2 = I->getPossiblyUnreachableBlock())
                    {
                        json::Object U;
                        U["unreach"] = (int64_t)S2->getBlockID();
                        succs.push_back(std::move(U));
                    }
                    else
                        succs.push_back(nullptr);
                }
                BO["succs"] = std::move(succs);
                if (const Stmt* L = B->getLabel())
                {
                    json::Object LO;
                    if (auto* CS = dyn_cast<CaseStmt>(L))
                    {
                        LO["k"] = "case";
                        LO["t"] = txt(CS->getLHS());
                        auto c = constOf(CS->getLHS());
                        if (!(c.kind() == json::Value::Null))
                            LO["const"] = std::move(c);
                    }
                    else if (isa<DefaultStmt>(L))
                        LO["k"] = "default";
                    else if (auto* CC = dyn_cast<CXXCatchStmt>(L))
                    {
                        LO["k"] = "catch";
                        LO["type"] = CC->getExceptionDecl() ? typeStr(CC->getCaughtType()) : std::string("...");
                        if (CC->getExceptionDecl())
                            LO["var"] = CC->getExceptionDecl()->getNameAsString();
                        LO["l"] = (int64_t)lineOf(CC->getBeginLoc());
                    }
                    else if (auto* LS = dyn_cast<LabelStmt>(L))
                    {
                        LO["k"] = "label";
                        LO["t"] = LS->getName();
                    }
                    BO["label"] = std::move(LO);
                }
                json::Array elems;
                for (const CFGElement& E : *B)
                {
                    if (auto S = E.getAs<CFGStmt>())
                    {
                        emitStmt(S->getStmt(), elems);
                    }
                    else if (auto I = E.getAs<CFGInitializer>())
                    {
                        const CXXCtorInitializer* CI = I->getInitializer();
                        json::Object O = base("init", CI->getInit());
                        if (CI->isAnyMemberInitializer())
                        {
                            O["f"] = qname(CI->getAnyMember());
                        }
                        else if (CI->isBaseInitializer())
                            O["basecls"] = typeStr(QualType(CI->getBaseClass(), 0));
                        O["t"] = txt(CI->getInit());
                        if (CI->isWritten())
                            O["written"] = true;
                        auto c = constOf(CI->getInit());
                        if (!(c.kind() == json::Value::Null))
                            O["const"] = std::move(c);
                        elems.push_back(std::move(O));
                    }
                    else if (auto D = E.getAs<CFGAutomaticObjDtor>())
                    {
                        json::Object O = base("dtor", nullptr);
                        O["var"] = D->getVarDecl()->getNameAsString();
                        O["vd"] = std::to_string(lineOf(D->getVarDecl()->getLocation())) + ":" + std::to_string(colOf(D->getVarDecl()->getLocation()));
                        O["type"] = typeStr(D->getVarDecl()->getType());
                        O["l"] = (int64_t)lineOf(D->getTriggerStmt() ? D->getTriggerStmt()->getEndLoc() : SourceLocation());
                        elems.push_back(std::move(O));
                    }
                }
                BO["elems"] = std::move(elems);
                json::Object T = emitTerminator(B);
                if (!T.empty())
                    BO["term"] = std::move(T);
                blocks.push_back(std::move(BO));
            }
            F["blocks"] = std::move(blocks);
            F["entry"] = (int64_t)cfg.getEntry().getBlockID();
            F["exit"] = (int64_t)cfg.getExit().getBlockID();
        }
    };

    class Visitor : public RecursiveASTVisitor<Visitor>
    {
    public:
        json::Array functions, classes, vars;
        std::set<std::string> seenF, seenC;
        std::set<const FunctionDecl*> doneF;

        bool shouldVisitTemplateInstantiations() const { return true; }
        bool shouldVisitImplicitCode() const { return false; }

        void emitFunction(const FunctionDecl* FD, const LambdaExpr* LE)
        {
            if (!FD || !FD->doesThisDeclarationHaveABody())
                return;
            if (FD->isDependentContext())
                return;
            if (!inRoots(FD->getLocation()))
                return;
            if (!doneF.insert(FD).second)
                return;
            std::string id = funcId(FD);
            if (!seenF.insert(id).second)
                return;

            json::Object F;
            F["id"] = id;
            F["name"] = LE ? ("lambda@" + locStr(LE->getBeginLoc())) : qname(FD);
            F["full"] = LE ? std::string("") : fullFuncName(FD);
            F["sig"] = sigOf(FD);
            F["file"] = fileOf(FD->getLocation());
            F["line"] = (int64_t)lineOf(FD->getLocation());
            F["endline"] = (int64_t)lineOf(FD->getEndLoc());
            F["ret"] = typeStr(FD->getReturnType());
            // declared not to throw (noexcept / noexcept(true) / throw()): an exception that reaches its boundary calls std::terminate
            if (auto* FPT = FD->getType()->getAs<FunctionProtoType>())
                if (FPT->hasExceptionSpec() && isNoexceptExceptionSpec(FPT->getExceptionSpecType()) && FPT->canThrow() == CT_Cannot
                    && !isa<CXXDestructorDecl>(FD))
                    F["noexcept"] = true;
            json::Array params;
            for (auto* P : FD->parameters())
            {
                json::Object PO;
                PO["name"] = P->getNameAsString();
                PO["type"] = typeStr(P->getType());
                params.push_back(std::move(PO));
            }
            F["params"] = std::move(params);
            if (FD->isTemplateInstantiation())
                F["inst"] = true;
            if (auto* MD = dyn_cast<CXXMethodDecl>(FD))
            {
                F["cls"] = recordName(MD->getParent());
                if (isa<ClassTemplateSpecializationDecl>(MD->getParent()))
                    F["inst"] = true;
                if (MD->isVirtual())
                    F["virtual"] = true;
                if (MD->isStatic())
                    F["static"] = true;
                if (MD->isConst())
                    F["const"] = true;
                json::Array ov;
                for (auto* O : MD->overridden_methods())
                    ov.push_back(qname(O));
                if (!ov.empty())
                    F["overrides"] = std::move(ov);
                if (isa<CXXConstructorDecl>(MD))
                    F["ctor"] = true;
                if (isa<CXXDestructorDecl>(MD))
                    F["dtor"] = true;
            }
            if (LE)
            {
                F["lambda"] = true;
                const CXXRecordDecl* LC = LE->getLambdaClass();
                if (auto* P = enclosingFunction(LC->getParent()))
                {
                    F["parent"] = funcId(P);
                    F["parentName"] = isLambdaCallOp(P) ? std::string("lambda") : qname(P);
                }
                json::Array caps;
                for (auto& C : LE->captures())
                {
                    json::Object CO;
                    if (C.capturesThis())
                        CO["v"] = "this";
                    else if (C.capturesVariable())
                    {
                        CO["v"] = C.getCapturedVar()->getNameAsString();
                        CO["vt"] = typeStr(C.getCapturedVar()->getType());
                    }
                    CO["byref"] = C.getCaptureKind() == LCK_ByRef;
                    caps.push_back(std::move(CO));
                }
                F["caps"] = std::move(caps);
            }

            CFG::BuildOptions BO;
            BO.setAllAlwaysAdd();
            BO.AddImplicitDtors = true;
            BO.AddInitializers = true;
            BO.AddEHEdges = false;
            BO.AddTemporaryDtors = false;
            BO.PruneTriviallyFalseEdges = false;
            std::unique_ptr<CFG> cfg = CFG::buildCFG(FD, FD->getBody(), G.AC, BO);
            if (!cfg)
            {
                F["nocfg"] = true;
            }
            else
            {
                FuncEmitter FE;
                FE.emitCFG(*cfg, F);
            }
            functions.push_back(std::move(F));
        }

        bool VisitFunctionDecl(FunctionDecl* FD)
        {
            if (isLambdaCallOp(FD))
                return true; // handled through the LambdaExpr
            emitFunction(FD, nullptr);
            return true;
        }

        bool VisitLambdaExpr(LambdaExpr* LE)
        {
            if (LE->isGenericLambda())
            {
                // one function per instantiation of the call operator
                if (auto* FTD = LE->getCallOperator()->getDescribedFunctionTemplate())
                    for (auto* Spec : FTD->specializations())
                    {
                        emitFunction(Spec, LE);
                        // lambdas written inside the generic lambda exist per instantiation as well
                        if (Spec->hasBody())
                            TraverseStmt(Spec->getBody());
                    }
                return true;
            }
            emitFunction(LE->getCallOperator(), LE);
            return true;
        }

        bool VisitCXXRecordDecl(CXXRecordDecl* RD)
        {
            if (!RD->isThisDeclarationADefinition() || RD->isLambda())
                return true;
            if (!inRoots(RD->getLocation()))
                return true;
            std::string name = recordName(RD);
            std::string key = name + "@" + locStr(RD->getLocation()) + (RD->isDependentContext() ? "#dep" : "");
            if (!seenC.insert(key).second)
                return true;
            json::Object C;
            C["name"] = name;
            C["file"] = fileOf(RD->getLocation());
            C["line"] = (int64_t)lineOf(RD->getLocation());
            if (RD->isDependentContext())
                C["dependent"] = true;
            if (isa<ClassTemplateSpecializationDecl>(RD))
                C["inst"] = true;
            json::Array bases;
            for (auto& B : RD->bases())
            {
                json::Object BO;
                BO["type"] = typeStr(B.getType());
                if (auto* BR = B.getType()->getAsCXXRecordDecl())
                    BO["name"] = recordName(BR);
                bases.push_back(std::move(BO));
            }
            C["bases"] = std::move(bases);
            json::Array fields;
            for (auto* F : RD->fields())
            {
                json::Object FO;
                FO["name"] = F->getNameAsString();
                FO["q"] = qname(F);
                FO["type"] = typeStr(F->getType());
                FO["ctype"] = typeStr(F->getType().getCanonicalType());
                FO["line"] = (int64_t)lineOf(F->getLocation());
                if (F->hasInClassInitializer())
                {
                    FO["init"] = true;
                    if (F->getInClassInitializer())
                        FO["initT"] = txt(F->getInClassInitializer());
                }
                if (auto* FR = F->getType()->getAsCXXRecordDecl())
                    FO["rec"] = recordName(FR);
                fields.push_back(std::move(FO));
            }
            C["fields"] = std::move(fields);
            json::Array methods;
            for (auto* M : RD->methods())
            {
                if (M->isImplicit())
                    continue;
                json::Object MO;
                MO["name"] = M->getNameAsString();
                MO["q"] = qname(M);
                MO["sig"] = sigOf(M);
                if (M->isVirtual())
                    MO["virtual"] = true;
                if (M->isPure())
                    MO["pure"] = true;
                if (M->isDeleted())
                    MO["deleted"] = true;
                if (M->isDefaulted())
                    MO["defaulted"] = true;
                if (isa<CXXConstructorDecl>(M))
                {
                    MO["ctor"] = true;
                    if (cast<CXXConstructorDecl>(M)->isCopyConstructor())
                        MO["copyctor"] = true;
                }
                json::Array ov;
                for (auto* O : M->overridden_methods())
                    ov.push_back(qname(O));
                if (!ov.empty())
                    MO["overrides"] = std::move(ov);
                MO["line"] = (int64_t)lineOf(M->getLocation());
                methods.push_back(std::move(MO));
            }
            C["methods"] = std::move(methods);
            classes.push_back(std::move(C));
            return true;
        }

        bool VisitVarDecl(VarDecl* VD)
        {
            if (isa<ParmVarDecl>(VD))
                return true;
            if (!(VD->isFileVarDecl() || VD->isStaticDataMember() || VD->isStaticLocal()))
                return true;
            if (!inRoots(VD->getLocation()))
                return true;
            if (VD->getDeclContext()->isDependentContext())
                return true;
            json::Object V;
            V["name"] = qname(VD);
            V["type"] = typeStr(VD->getType());
            V["file"] = fileOf(VD->getLocation());
            V["line"] = (int64_t)lineOf(VD->getLocation());
            if (VD->isStaticLocal())
                if (auto* P = enclosingFunction(VD->getDeclContext()))
                    V["func"] = funcId(P);
            if (const Expr* I = VD->getAnyInitializer())
            {
                // tables: keep the full text (they can be long)
                std::string s;
                llvm::raw_string_ostream os(s);
                I->printPretty(os, nullptr, G.PP);
                os.flush();
                for (auto& c : s)
                    if (c == '\n' || c == '\t')
                        c = ' ';
                if (s.size() > 20000)
                    s.resize(20000);
                if (!json::isUTF8(s))
                    s = json::fixUTF8(s);
                V["init"] = s;
            }
            vars.push_back(std::move(V));
            return true;
        }
    };

    class Consumer : public ASTConsumer
    {
    public:
        void HandleTranslationUnit(ASTContext& AC) override
        {
            G.AC = &AC;
            G.SM = &AC.getSourceManager();
            G.PP = PrintingPolicy(AC.getLangOpts());
            G.PP.SuppressTagKeyword = true;
            G.PP.SuppressUnwrittenScope = false;
            G.PP.Bool = true;
            G.PP.TerseOutput = true;
            G.PP.AnonymousTagLocations = true;

            Visitor V;
            V.TraverseDecl(AC.getTranslationUnitDecl());

            json::Object Root;
            auto& SM = AC.getSourceManager();
            if (auto FE = SM.getFileEntryForID(SM.getMainFileID()))
                Root["unit"] = FE->getName().str();
            Root["functions"] = std::move(V.functions);
            Root["classes"] = std::move(V.classes);
            Root["vars"] = std::move(V.vars);
            Root["errors"] = (int64_t)AC.getDiagnostics().getNumErrors();
            std::error_code EC;
            llvm::raw_fd_ostream os(OutFile, EC);
            if (EC)
            {
                llvm::errs() << "cannot write " << OutFile << ": " << EC.message() << "\n";
                return;
            }
            os << json::Value(std::move(Root));
            os << "\n";
        }
    };

    class Action : public ASTFrontendAction
    {
    public:
        std::unique_ptr<ASTConsumer> CreateASTConsumer(CompilerInstance&, StringRef) override
        {
            return std::make_unique<Consumer>();
        }
    };

} // namespace

int main(int argc, const char** argv)
{
    auto Exp = CommonOptionsParser::create(argc, argv, Cat);
    if (!Exp)
    {
        llvm::errs() << llvm::toString(Exp.takeError());
        return 2;
    }
    CommonOptionsParser& OP = Exp.get();
    if (Roots.empty())
    {
        Roots.push_back("/repo/");
        Roots.push_back("/verif/");
    }
    ClangTool Tool(OP.getCompilations(), OP.getSourcePathList());
    int rc = Tool.run(newFrontendActionFactory<Action>().get());
    return rc;
}
