#!/usr/bin/env python3
"""invert_ifs.py <dir>: in a scratch copy of the sources rewrite every `if (C) A else B` into `if (/*inv*/!(C)) { B } else { A }`
(innermost first, repeated until nothing is left).  A behaviour-preserving variant that tests that no rule depends on which arm of a
test is written first."""
import json, os, subprocess, sys
HERE = os.path.dirname(os.path.dirname(os.path.abspath(__file__)))
D = os.path.abspath(sys.argv[1])
os.environ["PV_REPO"] = D
sys.path.insert(0, HERE)
from pv import facts
units = facts.library_units() + facts.inst_units()
flags = facts.flags()
total = 0
for rnd in range(1, 9):
    edits = {}
    for u in units:
        p = subprocess.run([os.path.join(HERE, "build", "pvmutate"), "--root", D + "/src", "--root", D + "/include", u, "--"] + flags,
                           stdout=subprocess.PIPE, stderr=subprocess.PIPE, universal_newlines=True)
        for line in p.stdout.splitlines():
            if line.startswith("{"):
                e = json.loads(line)
                edits.setdefault(e["file"], {})[tuple(e["cond"])] = e
    n = 0
    for path, es in edits.items():
        src = open(path, "rb").read()
        out = src
        # apply from the end of the file backwards so offsets stay valid; skip overlapping edits
        last_begin = len(src) + 1
        for e in sorted(es.values(), key=lambda e: -e["cond"][0]):
            cb, ce = e["cond"]; tb, te = e["then"]; eb, ee = e["else"]
            if ee > last_begin:
                continue
            cond = out[cb:ce]; then = out[tb:te]; els = out[eb:ee]
            mid1 = out[ce:tb]; mid2 = out[te:eb]
            new = b"/*inv*/!(" + cond + b")" + mid1 + b"{ " + els + b" }" + mid2 + b"{ " + then + b" }"
            out = out[:cb] + new + out[ee:]
            last_begin = cb
            n += 1
        open(path, "wb").write(out)
    total += n
    print("round %d: %d if-else statements inverted" % (rnd, n))
    if n == 0:
        break
print("total", total)
