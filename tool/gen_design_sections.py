#!/usr/bin/env python3
"""Regenerates the machine-written parts of DESIGN.md: the seed table (from seeded/*/meta.json) and Appendix A (from evidence/*.json)."""
import glob, json, os, re
HERE = os.path.dirname(os.path.dirname(os.path.abspath(__file__)))
D = os.path.join(HERE, "DESIGN.md")
s = open(D).read()

# status notes kept by hand: seed -> (status, note)
STATUS = json.load(open(os.path.join(HERE, "seeded", "STATUS.json")))

rows = []
for mp in sorted(glob.glob(os.path.join(HERE, "seeded", "*", "meta.json"))):
    sid = os.path.basename(os.path.dirname(mp))
    m = json.load(open(mp))
    det = m.get("detected_by") or {}
    caught = "; ".join("%s" % ", ".join(v) for k, v in sorted(det.items()) if k == m.get("property")) or "; ".join("%s (under %s)" % (", ".join(v), k) for k, v in sorted(det.items())) or "—"
    st = STATUS.get(sid, ["?", ""])
    conf = m.get("confirmed") or {}
    c = "yes @%s" % conf.get("at_repo_commit") if conf.get("valid") else ("no" if conf else "pending")
    rows.append("| %s | %s | %s | %s | %s%s |" % (sid, (m.get("breaks") or "").replace("|", "\\|"), (m.get("needs_to_manifest") or "").replace("|", "\\|"), caught, st[0], (" — " + st[1]) if st[1] else ""))
    rows[-1] = rows[-1][:-1] + " %s |" % c
table = "| seed | what it breaks | needs | caught by | status | confirmed |\n|---|---|---|---|---|---|\n" + "\n".join(rows)

app = []
for f in sorted(glob.glob(os.path.join(HERE, "evidence", "C*.json"))):
    d = json.load(open(f))
    app.append("\n**%s** — %d obligations on the current tree\n" % (d["property_id"], d["coverage"]["obligations"]))
    for rid, r in sorted(d["coverage"]["per_rule"].items()):
        app.append("* `%s` [%s] (%d instance(s), min %d): %s" % (rid, r["analysis"], r["instances"], r["min_instances"], r["rule"]))
appendix = "\n".join(app)

def put(tag, text):
    global s
    b, e = "<!-- BEGIN AUTO:%s -->" % tag, "<!-- END AUTO:%s -->" % tag
    assert b in s and e in s, tag
    s = s[:s.index(b) + len(b)] + "\n" + text + "\n" + s[s.index(e):]
put("SEEDS", table)
put("APPENDIX", appendix)
open(D, "w").write(s)
print("DESIGN.md: %d seeds, %d rules" % (len(rows), sum(1 for x in app if x.startswith("* "))))
