#!/bin/bash
# Robustness test: behaviour-preserving renames of locals in a scratch copy of the current sources must not make any check
# report a violation (exit 1) — analysis-broken (exit 2) would also be a defect of the rules here, since every anchor still exists.
D=$(mktemp -d /tmp/pvrefactor.XXXX); mkdir -p $D/subprojects/hinnant-date
cp -r /repo/include /repo/src $D/; cp -r /repo/subprojects/hinnant-date/include $D/subprojects/hinnant-date/
cd $D
sed -i 's/\bstop\b/halt/g; s/\btotalWritten\b/written/g; s/\bbytesWritten\b/nb/g; s/\bisInRightThread\b/sameThread/g; s/\bwq\b/pending/g; s/\bbufferHolder\b/tailHolder/g' src/common/transport.cc
sed -i 's/\bsupportedMethods\b/allowed/g; s/\bpara_val\b/pv1/g; s/\bsanitized\b/clean/g; s/\bopt_val\b/ov1/g' src/server/router.cc
sed -i 's/\bportPart\b/pp/g; s/\bcolon_pos\b/cpos/g; s/\bport_num\b/pnum/g' src/common/net.cc
sed -i 's/\bidlePeers\b/idle/g; s/\belapsed\b/age/g' src/server/endpoint.cc
sed -i 's/\bcontentLength\b/clen/g; s/\bremainingData\b/rem/g; s/\bheaderRevert\b/hrev/g; s/\bmethodToken\b/mtok/g; s/\bcodeText\b/ctext/g' src/common/http.cc
sed -i 's/\bprev\b/pred/g' include/pistache/mailbox.h
sed -i 's/\breadOffset\b/roff/g' include/pistache/stream.h
cd /verif; rc=0
for p in C01 C03 C04 C05 C06 C07 C08 C09 C10 C11 C12 C13 C14 C15 C16 C17 C18 C19; do
  out=$(./check $p --repo $D --no-evidence 2>&1); code=$?
  echo "$p exit=$code $(echo "$out" | grep -E '^(VIOLATION|ANALYSIS-BROKEN)' | head -1 | cut -c1-160) $(echo "$out" | grep -E '^  at' | head -1 | cut -c1-200)"
  [ $code -ne 0 ] && rc=1
done
rm -rf $D; exit $rc
