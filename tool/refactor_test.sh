#!/bin/bash
# Robustness test ("never raise an alarm on code where the property holds"): behaviour-preserving variants of the current sources
# must not make any check report a violation (exit 1); analysis-broken (exit 2) is also counted as a defect of the rules here,
# unless the patch's header says `# anchor-moving` (it renames or removes a function a rule is anchored in).
#   variant 00: renames of locals (sed);  variants selftest/refactors/*.patch: structural refactors (helper extraction, inverted
#   conditions, loop forms, lock-guard flavours, ...) written by hand and by context-free sub-agents, each compiled and run through
#   the repository's test-suite when it was recorded.
# usage: tool/refactor_test.sh [patch ...]     (default: all)
cd /verif
PROPS=${PROPS:-"C01 C02 C03 C04 C05 C06 C07 C08 C09 C10 C11 C12 C13 C14 C15 C16 C17 C18 C19 C20"}
mk() { D=$(mktemp -d /tmp/pvrefactor.XXXX); mkdir -p $D/subprojects/hinnant-date; cp -r /repo/include /repo/src $D/; cp -r /repo/subprojects/hinnant-date/include $D/subprojects/hinnant-date/; echo $D; }
run_variant() { # $1 dir $2 label $3 tolerate-exit-2
  local bad=0
  for p in $PROPS; do
    out=$(./check $p --repo $1 --no-evidence 2>&1); code=$?
    if [ $code -eq 2 ] && echo " $4 " | grep -q " $p "; then echo "limit variant=$2 $p exit=2 (documented: $(echo "$out" | grep -E '^ANALYSIS-BROKEN' | head -1 | cut -c1-140))"; continue; fi
    if [ $code -eq 1 ] || { [ $code -eq 2 ] && [ "$3" != yes ]; }; then
      bad=1; echo "FALSE-ALARM variant=$2 $p exit=$code $(echo "$out" | grep -E '^(VIOLATION|ANALYSIS-BROKEN)' | head -1 | cut -c1-200) $(echo "$out" | grep -E '^  at' | head -1 | cut -c1-220)"
    fi
  done
  [ $bad -eq 0 ] && echo "silent variant=$2"
  return $bad
}
rc=0
if [ $# -eq 0 ]; then
  D=$(mk); cd $D
  sed -i 's/\bstop\b/halt/g; s/\btotalWritten\b/written/g; s/\bbytesWritten\b/nb/g; s/\bisInRightThread\b/sameThread/g; s/\bwq\b/pending/g; s/\bbufferHolder\b/tailHolder/g' src/common/transport.cc
  sed -i 's/\bsupportedMethods\b/allowed/g; s/\bpara_val\b/pv1/g; s/\bsanitized\b/clean/g; s/\bopt_val\b/ov1/g' src/server/router.cc
  sed -i 's/\bportPart\b/pp/g; s/\bcolon_pos\b/cpos/g; s/\bport_num\b/pnum/g' src/common/net.cc
  sed -i 's/\bidlePeers\b/idle/g; s/\belapsed\b/age/g' src/server/endpoint.cc
  sed -i 's/\bcontentLength\b/clen/g; s/\bremainingData\b/rem/g; s/\bheaderRevert\b/hrev/g; s/\bmethodToken\b/mtok/g; s/\bcodeText\b/ctext/g' src/common/http.cc
  sed -i 's/\bprev\b/pred/g' include/pistache/mailbox.h
  sed -i 's/\breadOffset\b/roff/g' include/pistache/stream.h
  cd /verif; run_variant $D 00_rename_locals no || rc=1; rm -rf $D
  # variant 00b: every local variable / parameter whose name is unambiguous in its file gets a new name (tool/rename_all_locals.py;
  # ~450 names); names that turn out to collide with a type are listed in selftest/refactors/rename_excl.txt
  D=$(mk); python3 tool/rename_all_locals.py $D selftest/refactors/rename_excl.txt | tail -1
  run_variant $D 00b_rename_all_locals no || rc=1; rm -rf $D
  # variant 00c: every `if (C) A else B` becomes `if (!(C)) { B } else { A }`, innermost first (tool/invert_ifs.py + build/pvmutate;
  # ~115 statements): no rule may depend on which arm of a test is written first
  if [ -x build/pvmutate ]; then
    D=$(mk); python3 tool/invert_ifs.py $D | tail -1
    run_variant $D 00c_invert_all_ifs no || rc=1; rm -rf $D
  fi
  set -- selftest/refactors/*.patch
fi
for P in "$@"; do
  D=$(mk)
  # (only the parts of the patch under include/ and src/ are applied: the checks read nothing else, and a commit may also touch tests/)
  PP=$P; [ -f /verif/$P ] && PP=/verif/$P
  if ! (cd $D && git apply --include='include/*' --include='src/*' $PP >/dev/null 2>&1); then
    echo "stale variant=$(basename $P) (does not apply to the current sources; re-record it)"; rm -rf $D; continue; fi
  tol=no; grep -q '^# anchor-moving' $P && tol=yes
  # "# tolerate-exit-2: Cxx[,Cyy] -- reason": a documented limit of the model; those properties may answer analysis-broken (2), never 1
  tolprops=$(grep -m1 '^# tolerate-exit-2:' $P | sed 's/^# tolerate-exit-2: *//; s/ --.*//; s/,/ /g')
  run_variant $D $(basename $P .patch) $tol "$tolprops" || rc=1
  rm -rf $D
done
exit $rc
