#!/bin/bash
# verify_seed.sh <seed-dir> : confirm a seeded change in a scratch worktree (outside /repo and /verif):
#   baseline demo passes; with the patch: builds, ctest matches baseline (only net_test fails), demo fails.
# Writes <seed-dir>/verify.log and prints a one-line summary.  The scratch worktree is shared (incremental builds)
# and must be removed by the caller when all seeds are verified:  git -C /repo worktree remove --force /tmp/seedverify
set -u
SD=$(readlink -f "$1")
WT=${SEEDVERIFY_WT:-/tmp/seedverify}
LOG=$SD/verify.log
exec 9>/tmp/seedverify.$(basename $WT).lock; flock 9
if [ ! -d $WT ]; then git -C /repo worktree add -f $WT HEAD -q || exit 3; fi
git -C $WT checkout -q --detach $(git -C /repo rev-parse HEAD) 2>/dev/null; git -C $WT checkout -- . ; git -C $WT clean -fdq -e _build
[ -d $WT/_build ] || cmake -G Ninja -S $WT -B $WT/_build -DPISTACHE_BUILD_TESTS=ON -DCMAKE_BUILD_TYPE=RelWithDebInfo >/dev/null 2>&1
{
echo "== seed $SD at repo $(git -C /repo rev-parse --short HEAD) $(date -u +%FT%TZ)"
ninja -C $WT/_build >/dev/null 2>&1 || echo "BASE BUILD FAILED"
run_demo() { # $1 label
  if [ -x $SD/run_demo.sh ]; then (cd $SD && timeout 600 ./run_demo.sh $WT) >$SD/demo_$1.out 2>&1; echo $?; 
  else (cd $SD && g++ -std=c++17 -O1 -g -I$WT/include -I$WT/subprojects/hinnant-date/include demo.cc $WT/_build/src/libpistache.a -lpthread -o /tmp/seeddemo.$$ && timeout 600 /tmp/seeddemo.$$) >$SD/demo_$1.out 2>&1; echo $?; rm -f /tmp/seeddemo.$$; fi; }
B=$(run_demo base); echo "demo on unchanged tree: exit $B"
git -C $WT apply $SD/patch.diff || { echo "PATCH DOES NOT APPLY"; exit 4; }
echo "files: $(git -C $WT diff --stat | tail -1)"
if ninja -C $WT/_build >$SD/build.out 2>&1; then echo "build with change: ok"; else echo "build with change: FAILED"; fi
CT=$(ctest --test-dir $WT/_build -j8 --timeout 900 2>&1 | grep -E "tests passed|FAILED|Failed|\(Failed\)|Timeout" | tr '\n' ' ')
echo "ctest with change: $CT"
M=$(run_demo seeded); echo "demo with change: exit $M"
git -C $WT checkout -- .
ninja -C $WT/_build >/dev/null 2>&1
echo "SUMMARY base_demo=$B seeded_demo=$M ctest=[$CT]"
} > $LOG 2>&1
tail -1 $LOG
