#!/usr/bin/env python3
"""Debug helper: dump the events of functions whose base name contains the argument."""
import sys, os
sys.path.insert(0, os.path.dirname(os.path.dirname(os.path.abspath(__file__))))
from pv import facts
if len(sys.argv) > 2 and sys.argv[2].startswith('/'):
    os.environ['PV_REPO'] = sys.argv[2]
    facts.REPO = sys.argv[2]
p = facts.load()
n = 0
for f in p.funcs.values():
    if sys.argv[1] in f.base or sys.argv[1] in f.id:
        n += 1
        if n > int(os.environ.get('MAXF', '3')):
            break
        print("=== %s  [%s] %s parent=%s" % (f.id, f.base, f.loc, f.parent))
        for bid in sorted(f.blocks, reverse=True):
            b = f.blocks[bid]
            t = b.term or {}
            print(" B%d -> %s %s %s %s" % (bid, b.succs, ("label=%s" % b.label) if b.label else "", t.get('k') or '', ("cond=[%s] neg=%s cmp=%s rconst=%s core=%s" % (t.get('cond'), t.get('neg'), t.get('cmp'), t.get('rconst'), (t.get('core') or {}).get('t'))) if t.get('cond') else ''))
            for e in b.elems:
                if e['k'] in ('use',) and not os.environ.get('ALL'):
                    continue
                extra = {k: v for k, v in e.items() if k in ('callee', 'var', 'op', 'const', 'lid', 'f', 'b', 'cls', 'ctor', 'icall', 'type', 'virt', 'qualified')}
                rv = e.get('recv')
                if rv:
                    extra['recv'] = {k: rv.get(k) for k in ('t', 'f', 'b', 'root') if rv.get(k)}
                if e['k'] == 'assign':
                    extra['lhs'] = {k: e['lhs'].get(k) for k in ('t', 'f', 'b', 'v') if e['lhs'].get(k)}
                print("     %-3d %-9s L%-4s %s | %s" % (e['i'], e['k'], e.get('l'), (e.get('t') or '')[:70], extra))
